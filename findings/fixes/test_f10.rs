//! F10: a stream that is reset while it waits in `Prioritize::pending_capacity`
//! for CONNECTION-level send window, and whose remembered-reset period expires
//! before the peer's WINDOW_UPDATE(0) arrives, is popped by
//! `Prioritize::assign_connection_capacity` and skipped with `continue`
//! without `Counts::transition_after`, so its record is never removed from the
//! `Store` slab.
//!
//! Drop into tests/h2-tests/tests/ and run:
//!   cargo test --offline -p h2-tests --test test_f10 -- --nocapture --test-threads 1

use h2_support::prelude::*;
use tokio::sync::oneshot;

#[derive(Clone, Copy, Debug)]
enum Variant {
    /// `reserve_capacity(10)` on A, then `send_reset(CANCEL)` + drop handles.
    ReserveThenExplicitReset,
    /// `reserve_capacity(10)` on A, then just drop every handle (implicit
    /// RST_STREAM(CANCEL)).
    ReserveThenDropHandles,
    /// `send_data(1 byte)` on A (data stays buffered: no connection window),
    /// then drop every handle.
    SendDataThenDropHandles,
}

fn post() -> Request<()> {
    Request::builder()
        .method(Method::POST)
        .uri("https://example.com/")
        .body(())
        .unwrap()
}

/// Drives the F10 sequence against a client connection.
///
/// If `check_wired` is true the number of wired streams is asserted while the
/// connection is still alive; otherwise the test only relies on the
/// `debug_assert!(self.slab.is_empty())` in `impl Drop for Store` (feature
/// "unstable", always on for h2-tests).
async fn run(variant: Variant, check_wired: bool) {
    let (io, mut srv) = mock::new();

    // srv -> client: "B has used up the whole connection window, A is open"
    let (window_used_tx, window_used_rx) = oneshot::channel::<()>();
    // srv -> client: "everything has been sent and the client processed it"
    let (all_sent_tx, all_sent_rx) = oneshot::channel::<()>();
    // client -> srv: "assertions done, you may hang up"
    let (done_tx, done_rx) = oneshot::channel::<()>();

    let srv = async move {
        let settings = srv.assert_client_handshake().await;
        assert_default_settings!(settings);

        srv.recv_frame(frames::headers(1).request("POST", "https://example.com/"))
            .await;
        srv.recv_frame(frames::headers(3).request("POST", "https://example.com/"))
            .await;
        // B (stream 1) eats the complete 65_535 byte connection window.
        srv.recv_frame(frames::data(1, vec![0; 16_384])).await;
        srv.recv_frame(frames::data(1, vec![0; 16_384])).await;
        srv.recv_frame(frames::data(1, vec![0; 16_384])).await;
        srv.recv_frame(frames::data(1, vec![0; 16_383]).eos()).await;
        window_used_tx.send(()).unwrap();

        // (2) A (stream 3) is cancelled while it is queued for connection
        // capacity.
        srv.recv_frame(frames::reset(3).cancel()).await;

        // (3) Let `reset_stream_duration` (10 ms) elapse and make the client
        // connection run (`poll2` -> `clear_expired_reset_streams`).
        idle_ms(40).await;
        srv.ping_pong([1; 8]).await;

        // (4) Only now hand back connection window.
        srv.send_frame(frames::window_update(0, 65_535)).await;
        srv.ping_pong([2; 8]).await;

        // Finish B.
        srv.send_frame(frames::headers(1).response(200).eos()).await;
        srv.ping_pong([3; 8]).await;
        all_sent_tx.send(()).unwrap();

        // Keep the socket open until the client has made its assertions.
        let _ = done_rx.await;
    };

    let client = async move {
        let (mut client, mut conn) = client::Builder::new()
            .reset_stream_duration(Duration::from_millis(10))
            .handshake::<_, Bytes>(io)
            .await
            .expect("handshake");

        // B: uses the whole connection window.
        let (resp_b, mut send_b) = client.send_request(post(), false).unwrap();
        send_b.send_data(vec![0; 65_535].into(), true).unwrap();
        // A: opened, nothing requested yet.
        let (resp_a, mut send_a) = client.send_request(post(), false).unwrap();

        conn.drive(window_used_rx).await.unwrap();

        // (1) A asks for send capacity. Its own stream window is wide open
        // (65_535) but the connection window is 0, so `try_assign_capacity`
        // pushes it onto `pending_capacity`.
        match variant {
            Variant::ReserveThenExplicitReset | Variant::ReserveThenDropHandles => {
                send_a.reserve_capacity(10);
            }
            Variant::SendDataThenDropHandles => {
                send_a.send_data(vec![0; 1].into(), false).unwrap();
            }
        }
        assert_eq!(send_a.capacity(), 0, "A must be starved by the connection");

        // (2) cancel A and let go of every handle.
        if let Variant::ReserveThenExplicitReset = variant {
            send_a.send_reset(Reason::CANCEL);
        }
        drop(send_a);
        drop(resp_a);

        // (3) + (4) happen on the mock side while we drive the connection.
        conn.drive(all_sent_rx).await.unwrap();

        let resp = conn.drive(resp_b).await.expect("response B");
        assert_eq!(resp.status(), StatusCode::OK);
        drop(resp);
        drop(send_b);

        // Every stream is finished and every user handle is gone; the
        // connection object itself is still alive.
        assert_eq!(client.num_active_streams(), 0, "{:?}: active", variant);
        if check_wired {
            assert_eq!(
                client.num_wired_streams(),
                0,
                "{:?}: stream record leaked in the store",
                variant
            );
        }

        done_tx.send(()).unwrap();
        drop(client);
        // Runs to completion (mock hangs up), then `conn` -- and with it the
        // `Store` -- is dropped.
        conn.await.expect("conn");
    };

    join(srv, client).await;
}

#[tokio::test]
async fn f10_reserve_then_explicit_reset_is_released() {
    h2_support::trace_init!();
    run(Variant::ReserveThenExplicitReset, true).await;
}

#[tokio::test]
async fn f10_reserve_then_drop_handles_is_released() {
    h2_support::trace_init!();
    run(Variant::ReserveThenDropHandles, true).await;
}

#[tokio::test]
async fn f10_send_data_then_drop_handles_is_released() {
    h2_support::trace_init!();
    run(Variant::SendDataThenDropHandles, true).await;
}

/// Same sequence, no explicit `num_wired_streams` assertion: only the
/// `debug_assert!(self.slab.is_empty())` in `Store::drop` can fail here.
#[tokio::test]
async fn f10_store_is_empty_on_drop() {
    h2_support::trace_init!();
    run(Variant::ReserveThenDropHandles, false).await;
}

/// Control: identical, but WINDOW_UPDATE(0) arrives BEFORE the remembered
/// reset expires. `clear_expired_reset_streams` then still sees the stream
/// and releases it, so this passes on the unmodified tree and shows the
/// ordering (3) before (4) is what matters.
#[tokio::test]
async fn f10_control_window_update_before_expiry_is_released() {
    h2_support::trace_init!();
    let (io, mut srv) = mock::new();
    let (window_used_tx, window_used_rx) = oneshot::channel::<()>();
    let (all_sent_tx, all_sent_rx) = oneshot::channel::<()>();
    let (done_tx, done_rx) = oneshot::channel::<()>();

    let srv = async move {
        let settings = srv.assert_client_handshake().await;
        assert_default_settings!(settings);
        srv.recv_frame(frames::headers(1).request("POST", "https://example.com/"))
            .await;
        srv.recv_frame(frames::headers(3).request("POST", "https://example.com/"))
            .await;
        srv.recv_frame(frames::data(1, vec![0; 16_384])).await;
        srv.recv_frame(frames::data(1, vec![0; 16_384])).await;
        srv.recv_frame(frames::data(1, vec![0; 16_384])).await;
        srv.recv_frame(frames::data(1, vec![0; 16_383]).eos()).await;
        window_used_tx.send(()).unwrap();
        srv.recv_frame(frames::reset(3).cancel()).await;
        // (4) first ...
        srv.send_frame(frames::window_update(0, 65_535)).await;
        srv.ping_pong([2; 8]).await;
        // ... (3) afterwards.
        idle_ms(40).await;
        srv.ping_pong([1; 8]).await;
        srv.send_frame(frames::headers(1).response(200).eos()).await;
        srv.ping_pong([3; 8]).await;
        all_sent_tx.send(()).unwrap();
        let _ = done_rx.await;
    };

    let client = async move {
        let (mut client, mut conn) = client::Builder::new()
            // long enough that the WINDOW_UPDATE is certainly processed first
            .reset_stream_duration(Duration::from_millis(20))
            .handshake::<_, Bytes>(io)
            .await
            .expect("handshake");
        let (resp_b, mut send_b) = client.send_request(post(), false).unwrap();
        send_b.send_data(vec![0; 65_535].into(), true).unwrap();
        let (resp_a, mut send_a) = client.send_request(post(), false).unwrap();
        conn.drive(window_used_rx).await.unwrap();
        send_a.reserve_capacity(10);
        assert_eq!(send_a.capacity(), 0);
        drop(send_a);
        drop(resp_a);
        conn.drive(all_sent_rx).await.unwrap();
        let resp = conn.drive(resp_b).await.expect("response B");
        assert_eq!(resp.status(), StatusCode::OK);
        drop(resp);
        drop(send_b);
        assert_eq!(client.num_active_streams(), 0);
        assert_eq!(client.num_wired_streams(), 0);
        done_tx.send(()).unwrap();
        drop(client);
        conn.await.expect("conn");
    };

    join(srv, client).await;
}

/// Guard for the repair (passes on the unmodified tree).
///
/// `assign_connection_capacity` is also called with a `store::Ptr` as the
/// resolver from inside another operation on that same stream
/// (`reclaim_reserved_capacity` / `reclaim_all_capacity` / `reserve_capacity`).
/// If that stream is itself at the head of `pending_capacity`, a repair that
/// unconditionally runs `transition_after` on every evicted stream (e.g. the
/// one-liner `counts.transition(stream, |_, _| {}); continue;`) frees the slab
/// slot while the caller still holds a `Ptr` to it and the user's
/// `drop(SendStream)` panics with "dangling store key for stream_id=1".
#[tokio::test]
async fn f10_guard_self_eviction_during_implicit_reset() {
    h2_support::trace_init!();
    let (io, mut srv) = mock::new();
    let (opened_tx, opened_rx) = oneshot::channel::<()>();
    let (all_sent_tx, all_sent_rx) = oneshot::channel::<()>();
    let (done_tx, done_rx) = oneshot::channel::<()>();

    let srv = async move {
        // Stream window (1_000_000) much larger than the connection window
        // (65_535): a big reservation is partially satisfied and the stream
        // keeps waiting in `pending_capacity` for the rest.
        let settings = srv
            .assert_client_handshake_with_settings(
                frames::settings().initial_window_size(1_000_000),
            )
            .await;
        assert_default_settings!(settings);
        srv.recv_frame(frames::headers(1).request("POST", "https://example.com/"))
            .await;
        srv.ping_pong([1; 8]).await;
        opened_tx.send(()).unwrap();

        srv.recv_frame(frames::reset(1).cancel()).await;
        idle_ms(40).await;
        srv.ping_pong([2; 8]).await;
        srv.send_frame(frames::window_update(0, 10)).await;
        srv.ping_pong([3; 8]).await;
        all_sent_tx.send(()).unwrap();
        let _ = done_rx.await;
    };

    let client = async move {
        let (mut client, mut conn) = client::Builder::new()
            .reset_stream_duration(Duration::from_millis(10))
            .handshake::<_, Bytes>(io)
            .await
            .expect("handshake");
        let request = Request::builder()
            .method(Method::POST)
            .uri("https://example.com/")
            .body(())
            .unwrap();
        let (resp, mut send) = client.send_request(request, false).unwrap();
        conn.drive(opened_rx).await.unwrap();

        // 65_535 assigned (whole connection window), 34_465 still wanted and
        // the stream window has room => queued in `pending_capacity` while
        // holding assigned capacity.
        send.reserve_capacity(100_000);
        assert_eq!(send.capacity(), 65_535);

        // Last handle dropped => `schedule_implicit_reset` =>
        // `reclaim_reserved_capacity(stream)` =>
        // `assign_connection_capacity(65_535, stream /* as resolver */)`
        // which pops *this very stream* (now Closed(ScheduledLibraryReset),
        // ref_count == 0, not yet in `pending_send`) and evicts it.  The caller
        // then goes on to `schedule_send(stream)` and
        // `enqueue_reset_expiration(stream)`.
        drop(send);
        drop(resp);

        conn.drive(all_sent_rx).await.unwrap();

        assert_eq!(client.num_active_streams(), 0);
        assert_eq!(client.num_wired_streams(), 0);

        done_tx.send(()).unwrap();
        drop(client);
        conn.await.expect("conn");
    };

    join(srv, client).await;
}
