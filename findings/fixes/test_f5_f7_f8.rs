//! Regression tests for three receive-side defects:
//!
//! * F5: HEADERS on a promised stream beyond the advertised
//!   SETTINGS_MAX_CONCURRENT_STREAMS panicked the client.
//! * F7: a GOAWAY frame with a non-zero stream identifier was acted on.
//! * F8: mandatory / forbidden pseudo-header fields were not validated
//!   (RFC 9113 section 8.3): request pseudo-header fields in a response, and
//!   a non-CONNECT request without `:path`.
//!
//! Drop into `tests/h2-tests/tests/` and run
//! `cargo test --offline -p h2-tests --test test_f5_f7_f8`.

use futures::StreamExt;
use h2_support::prelude::*;

/// Nothing here should take longer than this; a stalled test is a failure.
const TIMEOUT: Duration = Duration::from_secs(5);

async fn with_timeout<F: Future>(f: F) -> F::Output {
    tokio::time::timeout(TIMEOUT, f)
        .await
        .expect("test timed out")
}

fn assert_library_reset(err: &h2::Error, reason: Reason) {
    assert!(err.is_reset(), "expected a stream error, got {:?}", err);
    assert!(err.is_library(), "expected a library error, got {:?}", err);
    assert_eq!(err.reason(), Some(reason), "err={:?}", err);
}

// ===== F5 =====

/// The client advertises SETTINGS_MAX_CONCURRENT_STREAMS = 1. The server
/// reserves two streams (reserved streams do not count towards the limit) and
/// then opens both of them. The second one exceeds the limit: it must be
/// refused with RST_STREAM(REFUSED_STREAM), and everything else must keep
/// working. Once the first pushed stream is closed, a new one is accepted
/// again.
#[tokio::test]
async fn f5_pushed_headers_over_max_concurrent_streams_are_refused() {
    h2_support::trace_init!();
    let (io, mut srv) = mock::new();

    let mock = async move {
        let settings = srv.assert_client_handshake().await;
        assert_eq!(settings.max_concurrent_streams(), Some(1));
        srv.recv_frame(
            frames::headers(1)
                .request("GET", "https://example.com/")
                .eos(),
        )
        .await;
        srv.send_frame(frames::push_promise(1, 2).request("GET", "https://example.com/a"))
            .await;
        srv.send_frame(frames::push_promise(1, 4).request("GET", "https://example.com/b"))
            .await;
        srv.send_frame(frames::headers(2).response(200)).await;
        // Exceeds the limit advertised by the client.
        srv.send_frame(frames::headers(4).response(200)).await;
        srv.recv_frame(frames::reset(4).refused()).await;

        // The stream that was within the limit is not affected.
        srv.send_frame(frames::data(2, "pushed a").eos()).await;

        // Stream 2 is closed now, so there is room for another pushed stream.
        srv.send_frame(frames::push_promise(1, 6).request("GET", "https://example.com/c"))
            .await;
        srv.send_frame(frames::headers(6).response(200)).await;
        srv.send_frame(frames::data(6, "pushed c").eos()).await;

        srv.send_frame(frames::headers(1).response(200).eos()).await;

        // The connection is still alive.
        srv.ping_pong([5; 8]).await;
    };

    let h2 = async move {
        let (mut client, mut h2) = client::Builder::new()
            .max_concurrent_streams(1)
            .handshake::<_, Bytes>(io)
            .await
            .unwrap();
        let request = Request::builder()
            .method(Method::GET)
            .uri("https://example.com/")
            .body(())
            .unwrap();
        let (mut resp, _) = client.send_request(request, true).unwrap();
        let pushed = resp.push_promises();

        let check_resp = async move {
            let resp = resp.await.expect("response");
            assert_eq!(resp.status(), StatusCode::OK);
        };
        let check_pushed = async move {
            let promises: Vec<_> = pushed.collect().await;
            assert_eq!(promises.len(), 3);
            let mut promises = promises.into_iter().map(|p| p.expect("push promise"));

            let (req, resp) = promises.next().unwrap().into_parts();
            assert_eq!(req.uri().path(), "/a");
            let resp = resp.await.expect("pushed response a");
            assert_eq!(resp.status(), StatusCode::OK);
            let body = util::concat(resp.into_body()).await.unwrap();
            assert_eq!(body, "pushed a");

            let (req, resp) = promises.next().unwrap().into_parts();
            assert_eq!(req.uri().path(), "/b");
            let err = resp.await.expect_err("pushed response b must be refused");
            assert_library_reset(&err, Reason::REFUSED_STREAM);

            let (req, resp) = promises.next().unwrap().into_parts();
            assert_eq!(req.uri().path(), "/c");
            let resp = resp.await.expect("pushed response c");
            assert_eq!(resp.status(), StatusCode::OK);
            let body = util::concat(resp.into_body()).await.unwrap();
            assert_eq!(body, "pushed c");
        };

        h2.drive(join(check_resp, check_pushed)).await;
        // Runs until the mock hangs up; no connection error.
        h2.await.expect("connection");
    };

    with_timeout(join(mock, h2)).await;
}

// ===== F7 =====

/// RFC 9113 section 6.8: a GOAWAY frame with a stream identifier other than
/// 0x0 is a connection error of type PROTOCOL_ERROR.
#[tokio::test]
async fn f7_goaway_with_non_zero_stream_id_is_connection_error() {
    h2_support::trace_init!();
    let (io, mut srv) = mock::new();

    let mock = async move {
        let _ = srv.assert_client_handshake().await;
        srv.send_bytes(&[
            0, 0, 8, // length
            7, // type = GOAWAY
            0, // flags
            0, 0, 0, 5, // stream identifier = 5
            0, 0, 0, 0, // last stream id
            0, 0, 0, 0, // NO_ERROR
        ])
        .await;
        srv.recv_frame(frames::go_away(0).protocol_error()).await;
    };

    let h2 = async move {
        let (_client, h2) = client::handshake(io).await.unwrap();
        let err = h2
            .await
            .expect_err("GOAWAY on stream 5 must be a connection error");
        assert!(err.is_go_away(), "err={:?}", err);
        assert!(err.is_library(), "err={:?}", err);
        assert_eq!(err.reason(), Some(Reason::PROTOCOL_ERROR));
    };

    with_timeout(join(mock, h2)).await;
}

/// Same, on the server side and with a payload that would otherwise be valid
/// (error code, last-stream-id and debug data present).
#[tokio::test]
async fn f7_server_goaway_with_non_zero_stream_id_is_connection_error() {
    h2_support::trace_init!();
    let (io, mut client) = mock::new();

    let client = async move {
        let _ = client.assert_server_handshake().await;
        client
            .send_bytes(&[
                0, 0, 10, // length
                7,  // type = GOAWAY
                0,  // flags
                0, 0, 0, 1, // stream identifier = 1
                0, 0, 0, 0, // last stream id
                0, 0, 0, 2, // INTERNAL_ERROR
                b'h', b'i', // debug data
            ])
            .await;
        client
            .recv_frame(frames::go_away(0).protocol_error())
            .await;
    };

    let srv = async move {
        let mut srv = server::handshake(io).await.expect("handshake");
        let err = srv
            .next()
            .await
            .expect("connection error expected")
            .expect_err("GOAWAY on stream 1 must be a connection error");
        assert!(err.is_go_away(), "err={:?}", err);
        assert!(err.is_library(), "err={:?}", err);
        assert_eq!(err.reason(), Some(Reason::PROTOCOL_ERROR));
    };

    with_timeout(join(client, srv)).await;
}

// ===== F8 =====

/// Sends `bad` as the response HEADERS to a request whose body is still open
/// and expects the client to treat it as malformed: RST_STREAM(PROTOCOL_ERROR)
/// on the wire, a stream error for the application, and a connection that
/// still serves the next request.
async fn client_rejects_malformed_response(bad: frames::Mock<frame::Headers>) {
    let (io, mut srv) = mock::new();

    let mock = async move {
        let _ = srv.assert_client_handshake().await;
        srv.recv_frame(frames::headers(1).request("POST", "https://example.com/"))
            .await;
        srv.send_frame(bad).await;
        srv.recv_frame(frames::reset(1).protocol_error()).await;

        srv.recv_frame(
            frames::headers(3)
                .request("GET", "https://example.com/")
                .eos(),
        )
        .await;
        srv.send_frame(frames::headers(3).response(204).eos()).await;
    };

    let h2 = async move {
        let (mut client, mut h2) = client::handshake(io).await.unwrap();

        let request = Request::builder()
            .method(Method::POST)
            .uri("https://example.com/")
            .body(())
            .unwrap();
        let (resp, _body) = client.send_request(request, false).unwrap();
        let err = h2
            .drive(resp)
            .await
            .map(|resp| (resp.status(), resp.headers().clone()))
            .expect_err("malformed response must not be delivered");
        assert_library_reset(&err, Reason::PROTOCOL_ERROR);

        let request = Request::builder()
            .method(Method::GET)
            .uri("https://example.com/")
            .body(())
            .unwrap();
        let (resp, _) = client.send_request(request, true).unwrap();
        let resp = h2.drive(resp).await.expect("second response");
        assert_eq!(resp.status(), StatusCode::NO_CONTENT);
    };

    with_timeout(join(mock, h2)).await;
}

/// (b) request pseudo-header fields must not appear in a response.
#[tokio::test]
async fn f8_response_with_request_pseudo_headers_is_malformed() {
    h2_support::trace_init!();

    client_rejects_malformed_response(frames::headers(1).pseudo(frame::Pseudo {
        path: util::byte_str("/").into(),
        status: StatusCode::OK.into(),
        ..Default::default()
    }))
    .await;

    client_rejects_malformed_response(frames::headers(1).pseudo(frame::Pseudo {
        method: Method::GET.into(),
        status: StatusCode::OK.into(),
        ..Default::default()
    }))
    .await;

    client_rejects_malformed_response(frames::headers(1).pseudo(frame::Pseudo {
        scheme: util::byte_str("https").into(),
        authority: util::byte_str("example.com").into(),
        status: StatusCode::OK.into(),
        ..Default::default()
    }))
    .await;
}

/// (d) `:path` is mandatory in a non-CONNECT request.
#[tokio::test]
async fn f8_request_without_path_is_malformed() {
    h2_support::trace_init!();
    let (io, mut client) = mock::new();

    let client = async move {
        let _ = client.assert_server_handshake().await;
        client
            .send_frame(
                frames::headers(1)
                    .pseudo(frame::Pseudo {
                        method: Method::GET.into(),
                        scheme: util::byte_str("https").into(),
                        ..Default::default()
                    })
                    .eos(),
            )
            .await;
        client.recv_frame(frames::reset(1).protocol_error()).await;

        // The connection still serves a well-formed request.
        client
            .send_frame(
                frames::headers(3)
                    .request("GET", "https://example.com/")
                    .eos(),
            )
            .await;
        client
            .recv_frame(frames::headers(3).response(200).eos())
            .await;
    };

    let srv = async move {
        let mut srv = server::handshake(io).await.expect("handshake");

        let (req, mut respond) = srv
            .next()
            .await
            .expect("a request")
            .expect("no connection error");
        // The malformed request on stream 1 must never reach the application.
        assert_eq!(
            u32::from(respond.stream_id()),
            3,
            "unexpected request: {:?}",
            req
        );
        assert_eq!(req.uri().path(), "/");

        let rsp = Response::builder().status(200).body(()).unwrap();
        respond.send_response(rsp, true).unwrap();

        assert!(srv.next().await.is_none());
    };

    with_timeout(join(client, srv)).await;
}

/// (d) a classic CONNECT request still must not (and need not) carry `:path`.
#[tokio::test]
async fn f8_connect_request_without_path_still_works() {
    h2_support::trace_init!();
    let (io, mut client) = mock::new();

    let client = async move {
        let _ = client.assert_server_handshake().await;
        client
            .send_frame(frames::headers(1).pseudo(frame::Pseudo {
                method: Method::CONNECT.into(),
                authority: util::byte_str("example.com:443").into(),
                ..Default::default()
            }))
            .await;
        client
            .recv_frame(frames::headers(1).response(200).eos())
            .await;
    };

    let srv = async move {
        let mut srv = server::handshake(io).await.expect("handshake");
        let (req, mut respond) = srv.next().await.unwrap().unwrap();
        assert_eq!(req.method(), Method::CONNECT);
        assert_eq!(req.uri().authority().unwrap(), "example.com:443");
        let rsp = Response::builder().status(200).body(()).unwrap();
        respond.send_response(rsp, true).unwrap();
        assert!(srv.next().await.is_none());
    };

    with_timeout(join(client, srv)).await;
}
