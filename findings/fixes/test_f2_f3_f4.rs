use futures::StreamExt;
use h2_support::prelude::*;

// F2: `SendResponse::send_informational` after the final response head was
// sent (here with END_STREAM) must be refused, and no HEADERS frame may follow
// END_STREAM on the stream (RFC 9113 section 5.1).
#[tokio::test]
async fn f2_send_informational_after_end_stream_is_refused() {
    h2_support::trace_init!();
    let (io, mut client) = mock::new();

    let client = async move {
        let settings = client.assert_server_handshake().await;
        assert_default_settings!(settings);
        client
            .send_frame(
                frames::headers(1)
                    .request("GET", "https://example.com/")
                    .eos(),
            )
            .await;
        client
            .recv_frame(frames::headers(1).response(200).eos())
            .await;

        // Nothing may be written on stream 1 after END_STREAM.
        let next = tokio::time::timeout(Duration::from_millis(300), client.next()).await;
        eprintln!("F2 next frame after END_STREAM: {:?}", next);
        assert!(
            next.is_err(),
            "frame written after END_STREAM on stream 1: {:?}",
            next
        );
    };

    let srv = async move {
        let mut srv = server::handshake(io).await.expect("handshake");
        let (_req, mut stream) = srv.next().await.unwrap().unwrap();

        // Informational responses are fine before the final response...
        let rsp = http::Response::builder().status(200).body(()).unwrap();
        stream.send_response(rsp, true).unwrap();

        // ... but not after it.
        let info = http::Response::builder().status(103).body(()).unwrap();
        let res = stream.send_informational(info);
        eprintln!("F2 send_informational after eos -> {:?}", res);
        let err = res.expect_err("send_informational after END_STREAM must be refused");
        assert!(
            err.to_string().starts_with("user error"),
            "expected a user error, got {:?}",
            err
        );

        let _ = tokio::time::timeout(
            Duration::from_millis(400),
            poll_fn(|cx| srv.poll_closed(cx)),
        )
        .await;
    };

    join(client, srv).await;
}

// F3: `SendResponse::push_request` on a parent stream whose send half is
// already closed must be refused, and no PUSH_PROMISE may be written on the
// closed parent (RFC 9113 section 6.6).
#[tokio::test]
async fn f3_push_request_on_closed_parent_is_refused() {
    h2_support::trace_init!();
    let (io, mut client) = mock::new();

    let client = async move {
        let settings = client.assert_server_handshake().await;
        assert_default_settings!(settings);
        client
            .send_frame(
                frames::headers(1)
                    .request("GET", "https://example.com/")
                    .eos(),
            )
            .await;
        client
            .recv_frame(frames::headers(1).response(200).eos())
            .await;

        let next = tokio::time::timeout(Duration::from_millis(300), client.next()).await;
        eprintln!("F3 next frame after parent END_STREAM: {:?}", next);
        assert!(
            next.is_err(),
            "frame written after END_STREAM on the parent stream: {:?}",
            next
        );
    };

    let srv = async move {
        let mut srv = server::handshake(io).await.expect("handshake");
        let (_req, mut stream) = srv.next().await.unwrap().unwrap();

        let rsp = http::Response::builder().status(200).body(()).unwrap();
        stream.send_response(rsp, true).unwrap();

        let wired = srv.num_wired_streams();

        let req = http::Request::builder()
            .method("GET")
            .uri("https://example.com/x")
            .body(())
            .unwrap();
        let res = stream.push_request(req).map(|_| ());
        eprintln!("F3 push_request after eos -> {:?}", res);
        let err = res.expect_err("push_request on a closed parent must be refused");
        assert!(
            err.to_string().starts_with("user error"),
            "expected a user error, got {:?}",
            err
        );

        // Refused before anything was inserted into the store.
        assert_eq!(
            srv.num_wired_streams(),
            wired,
            "refused push_request must not insert a stream"
        );

        let _ = tokio::time::timeout(
            Duration::from_millis(400),
            poll_fn(|cx| srv.poll_closed(cx)),
        )
        .await;
    };

    join(client, srv).await;
}

// F4: a `push_request` that fails validation (non safe-and-cacheable method)
// must not leave the reserved promised stream behind in the store.
#[tokio::test]
async fn f4_failed_push_request_does_not_leak_stream() {
    h2_support::trace_init!();
    let (io, mut client) = mock::new();

    let client = async move {
        let settings = client.assert_server_handshake().await;
        assert_default_settings!(settings);
        client
            .send_frame(
                frames::headers(1)
                    .request("GET", "https://example.com/")
                    .eos(),
            )
            .await;
        client
            .recv_frame(frames::headers(1).response(200).eos())
            .await;
        idle_ms(50).await;
    };

    let srv = async move {
        let mut srv = server::handshake(io).await.expect("handshake");
        let (req, mut stream) = srv.next().await.unwrap().unwrap();

        assert_eq!(srv.num_wired_streams(), 1);

        for _ in 0..5 {
            let bad = http::Request::builder()
                .method("POST")
                .uri("https://example.com/x")
                .body(())
                .unwrap();
            let err = stream
                .push_request(bad)
                .map(|_| ())
                .expect_err("POST cannot be pushed");
            assert!(
            err.to_string().starts_with("user error"),
            "expected a user error, got {:?}",
            err
        );
        }

        eprintln!(
            "F4 wired streams after five failed push_request = {}",
            srv.num_wired_streams()
        );
        assert_eq!(
            srv.num_wired_streams(),
            1,
            "failed push_request leaked stream records"
        );

        let rsp = http::Response::builder().status(200).body(()).unwrap();
        stream.send_response(rsp, true).unwrap();

        drop(stream);
        drop(req);

        let _ = tokio::time::timeout(
            Duration::from_millis(30),
            poll_fn(|cx| srv.poll_closed(cx)),
        )
        .await;

        eprintln!(
            "F4 wired streams after everything closed = {}",
            srv.num_wired_streams()
        );
        assert_eq!(
            srv.num_wired_streams(),
            0,
            "stream records left behind after all streams closed"
        );
    };

    join(client, srv).await;
}
