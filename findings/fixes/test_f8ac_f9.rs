//! Demonstration tests for three suspected pseudo-header validation defects
//! (RFC 9113 section 8.3 / 8.1 / 8.5):
//!
//! * (a) a response HEADERS block without `:status` is accepted (as a 200).
//! * (c) a trailer section carrying a pseudo-header field is accepted.
//! * (e) a CONNECT request without `:authority` is delivered to the
//!   application.
//!
//! Each test asserts the RFC-required behaviour, so it FAILS while the defect
//! is present.
//!
//! Drop into `tests/h2-tests/tests/` and run
//! `cargo test --offline -p h2-tests --test test_f8ac_f9 -- --nocapture --test-threads 1`.

use futures::StreamExt;
use h2_support::prelude::*;

/// Nothing here should take longer than this; a stalled test is a failure.
const TIMEOUT: Duration = Duration::from_secs(5);

async fn with_timeout<F: Future>(f: F) -> F::Output {
    tokio::time::timeout(TIMEOUT, f)
        .await
        .expect("test timed out")
}

fn assert_library_reset(err: &h2::Error, reason: Reason) {
    assert!(err.is_reset(), "expected a stream error, got {:?}", err);
    assert!(err.is_library(), "expected a library error, got {:?}", err);
    assert_eq!(err.reason(), Some(reason), "err={:?}", err);
}

// ===== (a) =====

/// RFC 9113 section 8.3.2: "all HTTP/2 responses MUST include exactly one
/// valid value for the :status pseudo-header field"; otherwise the response
/// is malformed (section 8.1.1: stream error of type PROTOCOL_ERROR).
#[tokio::test]
async fn response_without_status_is_malformed() {
    h2_support::trace_init!();
    let (io, mut srv) = mock::new();

    let mock = async move {
        let _ = srv.assert_client_handshake().await;
        // The request body stays open so that the stream is still half-open
        // when the malformed response arrives.
        srv.recv_frame(frames::headers(1).request("POST", "https://example.com/"))
            .await;
        // A HEADERS frame (END_STREAM | END_HEADERS) with a regular field but
        // no `:status` pseudo-header field.
        srv.send_frame(frames::headers(1).field("server", "mock").eos())
            .await;
        srv.recv_frame(frames::reset(1).protocol_error()).await;
    };

    let h2 = async move {
        let (mut client, mut h2) = client::handshake(io).await.unwrap();

        let request = Request::builder()
            .method(Method::POST)
            .uri("https://example.com/")
            .body(())
            .unwrap();
        let (resp, _body) = client.send_request(request, false).unwrap();
        let err = h2
            .drive(resp)
            .await
            .map(|resp| (resp.status(), resp.headers().clone()))
            .expect_err("response without :status must not be delivered to the application");
        assert_library_reset(&err, Reason::PROTOCOL_ERROR);

        // Let the RST_STREAM reach the mock.
        h2.await.expect("connection");
    };

    with_timeout(join(mock, h2)).await;
}

// ===== (c) =====

/// RFC 9113 section 8.1: "Pseudo-header fields MUST NOT appear in a trailer
/// section." A message that does is malformed: stream error PROTOCOL_ERROR.
#[tokio::test]
async fn trailers_with_pseudo_header_are_malformed() {
    h2_support::trace_init!();
    let (io, mut srv) = mock::new();

    let mock = async move {
        let _ = srv.assert_client_handshake().await;
        srv.recv_frame(frames::headers(1).request("POST", "https://example.com/"))
            .await;
        srv.send_frame(frames::headers(1).response(200)).await;
        srv.send_frame(frames::data(1, "hello")).await;
        // Trailers (second HEADERS, END_STREAM) carrying `:status: 404`.
        srv.send_frame(
            frames::headers(1)
                .response(404)
                .field("x-trailer", "1")
                .eos(),
        )
        .await;
        srv.recv_frame(frames::reset(1).protocol_error()).await;
    };

    let h2 = async move {
        let (mut client, mut h2) = client::handshake(io).await.unwrap();

        let request = Request::builder()
            .method(Method::POST)
            .uri("https://example.com/")
            .body(())
            .unwrap();
        let (resp, _req_body) = client.send_request(request, false).unwrap();
        let resp = h2.drive(resp).await.expect("response head");
        assert_eq!(resp.status(), StatusCode::OK);
        let mut body = resp.into_body();

        // Read the whole message; remember the first error and what the
        // application saw as the trailer section.
        let outcome: Result<(Vec<u8>, Option<HeaderMap>), h2::Error> = h2
            .drive(async move {
                let mut data = Vec::new();
                while let Some(chunk) = body.data().await {
                    let chunk = chunk?;
                    let _ = body.flow_control().release_capacity(chunk.len());
                    data.extend_from_slice(&chunk);
                }
                let trailers = body.trailers().await?;
                Ok((data, trailers))
            })
            .await;

        let err = outcome.expect_err(
            "trailer section with a pseudo-header field must not be delivered as a valid message end",
        );
        assert_library_reset(&err, Reason::PROTOCOL_ERROR);

        // Let the RST_STREAM reach the mock.
        h2.await.expect("connection");
    };

    with_timeout(join(mock, h2)).await;
}

// ===== (e) =====

/// RFC 9113 section 8.5: in a CONNECT request ":scheme and :path MUST be
/// omitted" and "the :authority pseudo-header field contains the host and
/// port to connect to"; "a CONNECT request that does not conform to these
/// restrictions is malformed" (stream error PROTOCOL_ERROR).
#[tokio::test]
async fn connect_without_authority_is_malformed() {
    h2_support::trace_init!();
    let (io, mut client) = mock::new();

    let client = async move {
        let _ = client.assert_server_handshake().await;
        // `:method: CONNECT` and nothing else.
        client
            .send_frame(frames::headers(1).pseudo(frame::Pseudo {
                method: Method::CONNECT.into(),
                ..Default::default()
            }))
            .await;
        client.recv_frame(frames::reset(1).protocol_error()).await;

        // The connection still serves a well-formed request.
        client
            .send_frame(
                frames::headers(3)
                    .request("GET", "https://example.com/")
                    .eos(),
            )
            .await;
        client
            .recv_frame(frames::headers(3).response(200).eos())
            .await;
    };

    let srv = async move {
        let mut srv = server::handshake(io).await.expect("handshake");

        let (req, mut respond) = srv
            .next()
            .await
            .expect("a request")
            .expect("no connection error");
        // The malformed CONNECT on stream 1 must never reach the application.
        assert_eq!(
            u32::from(respond.stream_id()),
            3,
            "malformed CONNECT was delivered to the application: method={:?} uri={:?} (authority={:?}) req={:?}",
            req.method(),
            req.uri(),
            req.uri().authority(),
            req
        );
        assert_eq!(req.uri().path(), "/");

        let rsp = Response::builder().status(200).body(()).unwrap();
        respond.send_response(rsp, true).unwrap();

        assert!(srv.next().await.is_none());
    };

    with_timeout(join(client, srv)).await;
}
