//! Regression tests for two defects:
//!
//! * F1: `SendStream::reserve_capacity` with a lower value hands the released
//!   connection window to another stream that has DATA buffered, but did not
//!   wake the connection task, so that DATA was not written.
//! * F6: an I/O error on the write side of the transport made the connection
//!   future return `Err` without notifying the streams.
//!
//! In both tests the connection is driven from its own tokio task. The
//! `h2.drive(..)` helper polls the connection continuously and would hide a
//! missing wake-up.

use h2_support::prelude::*;
use std::io;
use std::pin::Pin;
use std::sync::atomic::{AtomicBool, Ordering};
use std::sync::Arc;
use std::task::{Context, Poll};
use tokio::sync::oneshot;
use tokio::time::timeout;

fn post() -> Request<()> {
    Request::builder()
        .method(Method::POST)
        .uri("https://example.com/")
        .body(())
        .unwrap()
}

#[tokio::test]
async fn f1_lowering_reserved_capacity_wakes_connection() {
    h2_support::trace_init!();
    let (io, mut srv) = mock::new();

    let (opened_tx, opened_rx) = oneshot::channel::<()>();
    let (done_tx, done_rx) = oneshot::channel::<()>();

    let mock = async move {
        let _ = srv.assert_client_handshake().await;
        srv.recv_frame(frames::headers(1).request("POST", "https://example.com/"))
            .await;
        srv.recv_frame(frames::headers(3).request("POST", "https://example.com/"))
            .await;
        opened_tx.send(()).unwrap();

        // Once stream 1 gives its reservation back, stream 3 owns enough of
        // the connection window to send its buffered DATA. The peer does not
        // send anything in the meantime, so only the `reserve_capacity` call
        // can wake the connection task.
        timeout(
            Duration::from_secs(1),
            srv.recv_frame(frames::data(3, vec![0u8; 100])),
        )
        .await
        .expect("F1: DATA of stream 3 was not written after stream 1 released its capacity");

        let _ = done_tx.send(());
    };

    let h2 = async move {
        let (mut client, h2) = client::handshake(io).await.unwrap();
        tokio::spawn(async move {
            let _ = h2.await;
        });

        let (_resp_a, mut a) = client.send_request(post(), false).unwrap();
        let (_resp_b, mut b) = client.send_request(post(), false).unwrap();

        // Stream 1 takes the whole connection window.
        a.reserve_capacity(65_535);
        let cap = poll_fn(|cx| a.poll_capacity(cx)).await.unwrap().unwrap();
        assert_eq!(cap, 65_535);

        // Stream 3 buffers DATA it cannot send yet.
        b.send_data(Bytes::from(vec![0u8; 100]), false).unwrap();

        // Let the connection task flush both HEADERS frames and park.
        opened_rx.await.unwrap();
        idle_ms(50).await;

        // The released capacity flows to stream 3, which gets queued for
        // sending.
        a.reserve_capacity(0);

        // Keep every handle alive: dropping one would wake the connection
        // task as a side effect.
        let _ = done_rx.await;
        drop((a, b, _resp_a, _resp_b, client));
    };

    join(mock, h2).await;
}

/// Transport whose writes fail with `BrokenPipe` once `fail` is set.
struct FailWrite<T> {
    inner: T,
    fail: Arc<AtomicBool>,
}

impl<T: AsyncRead + Unpin> AsyncRead for FailWrite<T> {
    fn poll_read(
        mut self: Pin<&mut Self>,
        cx: &mut Context<'_>,
        buf: &mut tokio::io::ReadBuf<'_>,
    ) -> Poll<io::Result<()>> {
        Pin::new(&mut self.inner).poll_read(cx, buf)
    }
}

impl<T: AsyncWrite + Unpin> AsyncWrite for FailWrite<T> {
    fn poll_write(
        mut self: Pin<&mut Self>,
        cx: &mut Context<'_>,
        buf: &[u8],
    ) -> Poll<io::Result<usize>> {
        if self.fail.load(Ordering::SeqCst) {
            return Poll::Ready(Err(io::ErrorKind::BrokenPipe.into()));
        }
        Pin::new(&mut self.inner).poll_write(cx, buf)
    }

    fn poll_flush(mut self: Pin<&mut Self>, cx: &mut Context<'_>) -> Poll<io::Result<()>> {
        Pin::new(&mut self.inner).poll_flush(cx)
    }

    fn poll_shutdown(mut self: Pin<&mut Self>, cx: &mut Context<'_>) -> Poll<io::Result<()>> {
        Pin::new(&mut self.inner).poll_shutdown(cx)
    }
}

fn io_kind(err: &h2::Error) -> Option<io::ErrorKind> {
    err.get_io().map(|e| e.kind())
}

#[tokio::test]
async fn f6_write_error_notifies_streams() {
    h2_support::trace_init!();
    let (io, mut srv) = mock::new();
    let fail = Arc::new(AtomicBool::new(false));
    let io = FailWrite {
        inner: io,
        fail: fail.clone(),
    };

    let (opened_tx, opened_rx) = oneshot::channel::<()>();
    let (done_tx, done_rx) = oneshot::channel::<()>();

    let mock = async move {
        let _ = srv.assert_client_handshake().await;
        srv.recv_frame(frames::headers(1).request("POST", "https://example.com/"))
            .await;
        opened_tx.send(()).unwrap();
        // The peer stays silent and keeps its end open, so the read side of
        // the client never reports anything.
        let _ = done_rx.await;
    };

    let h2 = async move {
        let (mut client, mut h2) = client::handshake(io).await.unwrap();

        // Drive the connection on its own task. After the future resolved the
        // connection object is kept alive until `release_tx` fires: dropping
        // it tells the streams about the closed connection, which is not what
        // is being tested here.
        let (result_tx, result_rx) = oneshot::channel();
        let (release_tx, release_rx) = oneshot::channel::<()>();
        tokio::spawn(async move {
            let res = (&mut h2).await;
            let _ = result_tx.send(res);
            let _ = release_rx.await;
            drop(h2);
        });

        let (mut resp, mut body) = client.send_request(post(), false).unwrap();
        opened_rx.await.unwrap();

        // From now on the transport rejects writes; queue a frame.
        fail.store(true, Ordering::SeqCst);
        body.send_data(Bytes::from_static(b"hello"), false).unwrap();

        let conn_res = timeout(Duration::from_secs(1), result_rx)
            .await
            .expect("F6: connection future did not resolve after the write error")
            .unwrap();
        let conn_err = conn_res.expect_err("F6: connection future must fail");
        eprintln!("F6 connection result: {:?}", conn_err);
        assert_eq!(io_kind(&conn_err), Some(io::ErrorKind::BrokenPipe));

        // The connection is still alive, but has failed. Every handle must
        // observe the error.
        let resp_res = timeout(Duration::from_millis(500), &mut resp).await;
        eprintln!(
            "F6 response future: {:?}",
            resp_res.as_ref().map(|r| r.as_ref().map(|_| ()))
        );
        let data_res = body.send_data(Bytes::from_static(b"more"), false);
        eprintln!("F6 send_data: {:?}", data_res);
        let req_res = client.send_request(post(), true).map(|_| ());
        eprintln!("F6 send_request: {:?}", req_res);

        let resp_err = resp_res
            .expect("F6: response future still pending after the connection failed")
            .expect_err("F6: response future must fail");
        assert_eq!(io_kind(&resp_err), Some(io::ErrorKind::BrokenPipe));
        assert!(
            data_res.is_err(),
            "F6: send_data succeeded on a failed connection"
        );
        let req_err = req_res.expect_err("F6: send_request succeeded on a failed connection");
        assert_eq!(io_kind(&req_err), Some(io::ErrorKind::BrokenPipe));

        let _ = release_tx.send(());
        let _ = done_tx.send(());
    };

    join(mock, h2).await;
}
