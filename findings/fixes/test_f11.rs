// F11 regression test: a received RST_STREAM must free the slot of a stream whose own RST_STREAM(NO_ERROR) is only scheduled
// (response DATA blocked on flow control, all handles dropped).  Fails on h2 before the fix commit, passes after.
// Reproducer written by a seeding sub-agent that stumbled on the defect; place in tests/h2-tests/tests/ to run.
use futures::StreamExt;
use h2_support::prelude::*;

#[tokio::test]
async fn probe_no_error_blocked_then_remote_reset_frees_slot() {
    h2_support::trace_init!();
    let (io, mut client) = mock::new();

    let client = async move {
        let _settings = client.assert_server_handshake().await;
        client
            .send_frame(frames::headers(1).request("POST", "https://example.com/"))
            .await;
        client.recv_frame(frames::headers(1).response(200)).await;
        client.recv_frame(frames::data(1, vec![0; 16384])).await;
        client.recv_frame(frames::data(1, vec![0; 16384])).await;
        client.recv_frame(frames::data(1, vec![0; 16384])).await;
        client.recv_frame(frames::data(1, vec![0; 16383])).await;
        // The client gives up on the stream.
        client.send_frame(frames::reset(1).cancel()).await;
        idle_ms(10).await;
        // Stream 1 is closed on both sides; the single slot must be free.
        client
            .send_frame(
                frames::headers(3)
                    .request("GET", "https://example.com/")
                    .eos(),
            )
            .await;
        client
            .recv_frame(frames::headers(3).response(200).eos())
            .await;
    };

    let mut builder = server::Builder::new();
    builder.max_concurrent_streams(1);

    let srv = async move {
        let mut srv = builder.handshake::<_, Bytes>(io).await.expect("handshake");
        {
            let (req, mut stream) = srv.next().await.unwrap().unwrap();
            assert_eq!(req.method(), &http::Method::POST);
            let rsp = http::Response::builder().status(200).body(()).unwrap();
            let mut tx = stream.send_response(rsp, false).unwrap();
            tx.send_data(vec![0; 16384 * 6].into(), true).unwrap();
        }
        let (req, mut stream) = srv.next().await.unwrap().unwrap();
        assert_eq!(req.method(), &http::Method::GET);
        let rsp = http::Response::builder().status(200).body(()).unwrap();
        stream.send_response(rsp, true).unwrap();
        assert!(srv.next().await.is_none());
    };

    join(client, srv).await;
}
