use futures::StreamExt;
use h2_support::prelude::*;
use std::pin::Pin;
use std::sync::atomic::{AtomicBool, Ordering};
use std::sync::Arc;
use std::task::{Context, Poll};

struct FailWrite<T> {
    inner: T,
    fail: Arc<AtomicBool>,
}
impl<T: AsyncRead + Unpin> AsyncRead for FailWrite<T> {
    fn poll_read(mut self: Pin<&mut Self>, cx: &mut Context<'_>, buf: &mut tokio::io::ReadBuf<'_>) -> Poll<std::io::Result<()>> {
        Pin::new(&mut self.inner).poll_read(cx, buf)
    }
}
impl<T: AsyncWrite + Unpin> AsyncWrite for FailWrite<T> {
    fn poll_write(mut self: Pin<&mut Self>, cx: &mut Context<'_>, buf: &[u8]) -> Poll<std::io::Result<usize>> {
        if self.fail.load(Ordering::SeqCst) {
            return Poll::Ready(Err(std::io::ErrorKind::ConnectionReset.into()));
        }
        Pin::new(&mut self.inner).poll_write(cx, buf)
    }
    fn poll_flush(mut self: Pin<&mut Self>, cx: &mut Context<'_>) -> Poll<std::io::Result<()>> {
        Pin::new(&mut self.inner).poll_flush(cx)
    }
    fn poll_shutdown(mut self: Pin<&mut Self>, cx: &mut Context<'_>) -> Poll<std::io::Result<()>> {
        Pin::new(&mut self.inner).poll_shutdown(cx)
    }
}

// F6: a write error ends Connection::poll with Err but does not notify streams
#[tokio::test]
async fn f6_write_error_does_not_notify_streams() {
    h2_support::trace_init!();
    let (io, mut srv) = mock::new();
    let fail = Arc::new(AtomicBool::new(false));
    let io = FailWrite { inner: io, fail: fail.clone() };
    let mock = async move {
        let _ = srv.assert_client_handshake().await;
        srv.recv_frame(frames::headers(1).request("POST", "https://example.com/")).await;
        idle_ms(1500).await;
    };
    let h2 = async move {
        let (mut client, mut h2) = client::handshake(io).await.unwrap();
        let request = Request::builder().method(Method::POST).uri("https://example.com/").body(()).unwrap();
        let (mut resp, mut body) = client.send_request(request, false).unwrap();
        // flush headers
        let _ = tokio::time::timeout(Duration::from_millis(50), poll_fn(|cx| Pin::new(&mut h2).poll(cx))).await;
        fail.store(true, Ordering::SeqCst);
        body.send_data(Bytes::from_static(b"hello"), false).unwrap();
        let r = tokio::time::timeout(Duration::from_millis(200), poll_fn(|cx| Pin::new(&mut h2).poll(cx))).await;
        eprintln!("F6 connection result: {:?}", r);
        // connection object is still alive (not dropped); do the handles resolve?
        let r = tokio::time::timeout(Duration::from_millis(300), &mut resp).await;
        eprintln!("F6 response future while conn alive: {:?}", r.as_ref().map(|r| r.as_ref().map(|_| ())));
        let r2 = body.send_data(Bytes::from_static(b"more"), false);
        eprintln!("F6 send_data after conn error: {:?}", r2);
        let r3 = client.send_request(Request::builder().method(Method::POST).uri("https://example.com/").body(()).unwrap(), true).map(|_| ());
        eprintln!("F6 send_request after conn error: {:?}", r3);
        drop(h2);
        let r = tokio::time::timeout(Duration::from_millis(300), &mut resp).await;
        eprintln!("F6 response future after conn dropped: {:?}", r.as_ref().map(|r| r.as_ref().map(|_| ())));
    };
    join(mock, h2).await;
}

// F3: PUSH_PROMISE on a parent that already sent END_STREAM
#[tokio::test]
async fn f3_push_on_closed_parent() {
    h2_support::trace_init!();
    let (io, mut client) = mock::new();
    let client = async move {
        let _ = client.assert_server_handshake().await;
        client.send_frame(frames::headers(1).request("GET", "https://example.com/").eos()).await;
        client.recv_frame(frames::headers(1).response(200).eos()).await;
        let f = tokio::time::timeout(Duration::from_millis(300), client.next()).await;
        eprintln!("F3 next frame after parent END_STREAM: {:?}", f);
    };
    let srv = async move {
        let mut srv = server::handshake(io).await.expect("handshake");
        let (_req, mut stream) = srv.next().await.unwrap().unwrap();
        let rsp = http::Response::builder().status(200).body(()).unwrap();
        stream.send_response(rsp, true).unwrap();
        let pr = http::Request::builder().method("GET").uri("https://example.com/x").body(()).unwrap();
        let r = stream.push_request(pr).map(|_| ());
        eprintln!("F3 push_request after eos -> {:?}", r);
        let _ = tokio::time::timeout(Duration::from_millis(400), poll_fn(|cx| srv.poll_closed(cx))).await;
    };
    join(client, srv).await;
}

// F8a: response without :status
#[tokio::test]
async fn f8_response_without_status() {
    h2_support::trace_init!();
    let (io, mut srv) = mock::new();
    let mock = async move {
        let _ = srv.assert_client_handshake().await;
        srv.recv_frame(frames::headers(1).request("GET", "https://example.com/").eos()).await;
        // HEADERS with only a regular field: 0x40 literal with indexing, name "a", value "b" (no huffman)
        let block = [0x40u8, 1, b'a', 1, b'b'];
        let mut f = vec![0, 0, block.len() as u8, 1, 0x5, 0, 0, 0, 1];
        f.extend_from_slice(&block);
        srv.send_bytes(&f).await;
        let r = tokio::time::timeout(Duration::from_millis(300), srv.next()).await;
        eprintln!("F8 server got: {:?}", r);
    };
    let h2 = async move {
        let (mut client, mut h2) = client::handshake(io).await.unwrap();
        let request = Request::builder().method(Method::GET).uri("https://example.com/").body(()).unwrap();
        let (resp, _) = client.send_request(request, true).unwrap();
        let r = h2.drive(resp).await;
        eprintln!("F8 client response: {:?}", r.map(|r| (r.status(), r.headers().clone())));
    };
    join(mock, h2).await;
}
