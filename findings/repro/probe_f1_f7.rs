use futures::StreamExt;
use h2_support::prelude::*;

fn req() -> Request<()> {
    Request::builder().method(Method::POST).uri("https://example.com/").body(()).unwrap()
}

// F1: lowering a reservation hands capacity to another stream with buffered data,
// but nobody wakes the connection task.
#[tokio::test]
async fn f1_reserve_capacity_lower_lost_wakeup() {
    h2_support::trace_init!();
    let (io, mut srv) = mock::new();
    let mock = async move {
        let _ = srv.assert_client_handshake().await;
        srv.recv_frame(frames::headers(1).request("POST", "https://example.com/")).await;
        srv.recv_frame(frames::headers(3).request("POST", "https://example.com/")).await;
        let r = tokio::time::timeout(Duration::from_millis(500), srv.next()).await;
        match r {
            Ok(f) => eprintln!("F1 server got frame: {:?}", f),
            Err(_) => eprintln!("F1 server got NOTHING in 500ms (stall)"),
        }
        // poke: any frame from the peer wakes the connection
        srv.send_frame(frames::ping([1; 8])).await;
        let r = tokio::time::timeout(Duration::from_millis(500), srv.next()).await;
        eprintln!("F1 after poke server got: {:?}", r);
        let r = tokio::time::timeout(Duration::from_millis(500), srv.next()).await;
        eprintln!("F1 after poke server got: {:?}", r);
    };
    let h2 = async move {
        let (mut client, h2) = client::handshake(io).await.unwrap();
        tokio::spawn(async move { let _ = h2.await; });
        let (_ra, mut a) = client.send_request(req(), false).unwrap();
        let (_rb, mut b) = client.send_request(req(), false).unwrap();
        a.reserve_capacity(65535);
        let cap = poll_fn(|cx| a.poll_capacity(cx)).await;
        eprintln!("F1 a capacity = {:?}", cap);
        b.send_data(Bytes::from(vec![0u8; 100]), false).unwrap();
        idle_ms(100).await; // connection task flushes HEADERS and parks
        a.reserve_capacity(0); // capacity flows to b; b is queued for sending
        eprintln!("F1 lowered; b.capacity()={}", b.capacity());
        idle_ms(1800).await;
        drop((a, b, _ra, _rb, client));
    };
    join(mock, h2).await;
}

// F7: GOAWAY on a non-zero stream id
#[tokio::test]
async fn f7_goaway_nonzero_stream() {
    h2_support::trace_init!();
    let (io, mut srv) = mock::new();
    let mock = async move {
        let _ = srv.assert_client_handshake().await;
        // GOAWAY len=8 type=7 flags=0 stream=5 ; last=0 code=0
        srv.send_bytes(&[0, 0, 8, 7, 0, 0, 0, 0, 5, 0, 0, 0, 0, 0, 0, 0, 0]).await;
        let r = tokio::time::timeout(Duration::from_millis(300), srv.next()).await;
        eprintln!("F7 server got after bad GOAWAY: {:?}", r);
    };
    let h2 = async move {
        let (_client, h2) = client::handshake(io).await.unwrap();
        let r = tokio::time::timeout(Duration::from_millis(500), h2).await;
        eprintln!("F7 client conn result: {:?}", r);
    };
    join(mock, h2).await;
}
