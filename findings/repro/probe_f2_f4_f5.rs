use futures::{StreamExt, TryStreamExt};
use h2_support::prelude::*;

// F5: pushed streams counted at HEADERS time; limit checked at PUSH_PROMISE time.
#[tokio::test]
async fn f5_push_over_limit_panics() {
    h2_support::trace_init!();
    let (io, mut srv) = mock::new();
    let mock = async move {
        let _settings = srv.assert_client_handshake().await;
        srv.recv_frame(frames::headers(1).request("GET", "https://example.com/").eos()).await;
        srv.send_frame(frames::push_promise(1, 2).request("GET", "https://example.com/a")).await;
        srv.send_frame(frames::push_promise(1, 4).request("GET", "https://example.com/b")).await;
        srv.send_frame(frames::headers(2).response(200)).await;
        srv.send_frame(frames::headers(4).response(200)).await;
        srv.send_frame(frames::headers(1).response(200).eos()).await;
        // keep open a bit
        idle_ms(50).await;
    };
    let h2 = async move {
        let (mut client, mut h2) = client::Builder::new()
            .max_concurrent_streams(1)
            .handshake::<_, Bytes>(io)
            .await
            .unwrap();
        let request = Request::builder().method(Method::GET).uri("https://example.com/").body(()).unwrap();
        let (mut resp, _) = client.send_request(request, true).unwrap();
        let pushed = resp.push_promises();
        let a = async move { let _ = resp.await; };
        let b = async move {
            let ps: Vec<_> = pushed.collect().await;
            eprintln!("F5 pushed={}", ps.len());
            ps
        };
        h2.drive(join(a, b)).await;
    };
    join(mock, h2).await;
}

// F2: send_informational after send_response(eos)
#[tokio::test]
async fn f2_informational_after_end_stream() {
    h2_support::trace_init!();
    let (io, mut client) = mock::new();
    let client = async move {
        let _ = client.assert_server_handshake().await;
        client.send_frame(frames::headers(1).request("GET", "https://example.com/").eos()).await;
        client.recv_frame(frames::headers(1).response(200).eos()).await;
        // what comes next?
        let f = client.next().await;
        eprintln!("F2 next frame after END_STREAM: {:?}", f);
    };
    let srv = async move {
        let mut srv = server::handshake(io).await.expect("handshake");
        let (_req, mut stream) = srv.next().await.unwrap().unwrap();
        let rsp = http::Response::builder().status(200).body(()).unwrap();
        stream.send_response(rsp, true).unwrap();
        let info = http::Response::builder().status(103).body(()).unwrap();
        let r = stream.send_informational(info);
        eprintln!("F2 send_informational after eos -> {:?}", r);
        let _ = poll_fn(|cx| srv.poll_closed(cx)).await;
    };
    join(client, srv).await;
}

// F4: push_request failing validation leaks the reserved child stream
#[tokio::test]
async fn f4_push_request_error_leaks_stream() {
    h2_support::trace_init!();
    let (io, mut client) = mock::new();
    let client = async move {
        let _ = client.assert_server_handshake().await;
        client.send_frame(frames::headers(1).request("GET", "https://example.com/").eos()).await;
        client.recv_frame(frames::headers(1).response(200).eos()).await;
        idle_ms(20).await;
    };
    let srv = async move {
        let mut srv = server::handshake(io).await.expect("handshake");
        let (_req, mut stream) = srv.next().await.unwrap().unwrap();
        for _ in 0..5 {
            let bad = http::Request::builder().method("POST").uri("https://example.com/x").body(()).unwrap();
            let r = stream.push_request(bad);
            assert!(r.is_err());
        }
        let rsp = http::Response::builder().status(200).body(()).unwrap();
        stream.send_response(rsp, true).unwrap();
        drop(stream);
        drop(_req);
        // drive
        let _ = tokio::time::timeout(std::time::Duration::from_millis(10), poll_fn(|cx| srv.poll_closed(cx))).await;
        eprintln!("F4 wired streams after everything closed = {}", srv.num_wired_streams());
        idle_ms(30).await;
    };
    join(client, srv).await;
}
