// h2facts — fact extractor for the h2 static checks (see /verif/DESIGN.md §3.1).
//
// A rustc_driver callback that, after analysis of crate `h2`, writes one JSON file
// with the un-optimised MIR of every body in a resolved form: callee def-paths
// (through Instance::try_resolve), field projections with ADT + field names,
// downcasts with variant names, evaluated scalar constants, drop glue contents,
// the ADT tables needed to read discriminant switches, evaluated named constants
// (including the two Huffman tables as raw bytes) and an `unsafe` census.
//
// Invoked as RUSTC_WORKSPACE_WRAPPER (argv[1] is the real rustc, dropped).
#![feature(rustc_private)]
extern crate rustc_abi;
extern crate rustc_driver;
extern crate rustc_hir;
extern crate rustc_interface;
extern crate rustc_middle;
extern crate rustc_span;

use rustc_driver::Compilation;
use rustc_hir::def::DefKind;
use rustc_hir::def_id::DefId;
use rustc_interface::interface;
use rustc_middle::mir::{
    self, AggregateKind, Body, Operand, Place, PlaceElem, Rvalue, StatementKind, TerminatorKind,
};
use rustc_middle::ty::{self, Instance, Ty, TyCtxt, TypingEnv};
use std::collections::{BTreeMap, BTreeSet, HashSet};
use std::fmt::Write;

const SCHEMA: u32 = 4;

fn esc(s: &str) -> String {
    let mut o = String::with_capacity(s.len() + 2);
    o.push('"');
    for c in s.chars() {
        match c {
            '"' => o.push_str("\\\""),
            '\\' => o.push_str("\\\\"),
            '\n' => o.push_str("\\n"),
            '\r' => o.push_str("\\r"),
            '\t' => o.push_str("\\t"),
            c if (c as u32) < 0x20 => {
                let _ = write!(o, "\\u{:04x}", c as u32);
            }
            c => o.push(c),
        }
    }
    o.push('"');
    o
}

struct Cx<'a, 'tcx> {
    tcx: TyCtxt<'tcx>,
    body: &'a Body<'tcx>,
    tenv: TypingEnv<'tcx>,
    adts: &'a mut HashSet<DefId>,
}

impl<'a, 'tcx> Cx<'a, 'tcx> {
    fn place(&mut self, p: &Place<'tcx>) -> String {
        let tcx = self.tcx;
        let mut s = format!("[{}", p.local.index());
        let mut pty = mir::PlaceTy::from_ty(self.body.local_decls[p.local].ty);
        for elem in p.projection.iter() {
            match elem {
                PlaceElem::Deref => s.push_str(",\"*\""),
                PlaceElem::Field(f, _) => {
                    let (owner, name) = match pty.ty.kind() {
                        ty::Adt(def, _) => {
                            self.adts.insert(def.did());
                            let v = match pty.variant_index {
                                Some(v) => v,
                                None => rustc_abi::FIRST_VARIANT,
                            };
                            let vd = def.variant(v);
                            let adt = tcx.def_path_str(def.did());
                            if def.is_enum() {
                                (format!("{}::{}", adt, vd.name), vd.fields[f].name.to_string())
                            } else {
                                (adt, vd.fields[f].name.to_string())
                            }
                        }
                        ty::Closure(did, _) => {
                            (format!("closure {}", tcx.def_path_str(*did)), format!("{}", f.index()))
                        }
                        _ => (String::new(), format!("{}", f.index())),
                    };
                    let _ = write!(s, ",[\"f\",{},{}]", esc(&owner), esc(&name));
                }
                PlaceElem::Downcast(_, v) => {
                    let name = match pty.ty.kind() {
                        ty::Adt(def, _) => {
                            self.adts.insert(def.did());
                            def.variant(v).name.to_string()
                        }
                        _ => format!("{}", v.index()),
                    };
                    let _ = write!(s, ",[\"v\",{}]", esc(&name));
                }
                PlaceElem::Index(l) => {
                    let _ = write!(s, ",[\"i\",{}]", l.index());
                }
                PlaceElem::ConstantIndex { offset, from_end, .. } => {
                    let _ = write!(s, ",[\"c\",{},{}]", offset, from_end);
                }
                PlaceElem::Subslice { from, to, from_end } => {
                    let _ = write!(s, ",[\"s\",{},{},{}]", from, to, from_end);
                }
                _ => s.push_str(",[\"?\"]"),
            }
            pty = pty.projection_ty(tcx, elem);
        }
        s.push(']');
        s
    }

    fn operand(&mut self, o: &Operand<'tcx>) -> String {
        match o {
            Operand::Copy(p) => format!("[\"c\",{}]", self.place(p)),
            Operand::Move(p) => format!("[\"m\",{}]", self.place(p)),
            Operand::Constant(c) => {
                let ty = c.const_.ty();
                let mut text = format!("{}", c.const_);
                let mut fnpath = String::from("null");
                if let ty::FnDef(did, _) = ty.kind() {
                    fnpath = esc(&self.tcx.def_path_str(*did));
                    text = String::from("fn");
                }
                if let mir::Const::Unevaluated(uv, _) = c.const_ {
                    if let Some(pi) = uv.promoted {
                        // promoted constant: append the constants of its body (string literals etc.)
                        let pbodies = self.tcx.promoted_mir(uv.def);
                        if let Some(pb) = pbodies.get(pi) {
                            let mut inner: Vec<String> = Vec::new();
                            for bb in pb.basic_blocks.iter() {
                                for st in &bb.statements {
                                    if let StatementKind::Assign(b) = &st.kind {
                                        collect_consts(&b.1, &mut inner);
                                    }
                                }
                            }
                            text = format!("promoted = {}", inner.join(" ; "));
                        }
                    }
                }
                let val = match ty.kind() {
                    ty::FnDef(..) => None,
                    _ => c.const_.try_eval_scalar_int(self.tcx, self.tenv),
                };
                let v = match val {
                    Some(si) => {
                        let size = si.size();
                        if size.bytes() == 0 {
                            String::from("null")
                        } else if ty.is_signed() {
                            format!("{}", si.to_int(size))
                        } else {
                            format!("{}", si.to_uint(size))
                        }
                    }
                    None => String::from("null"),
                };
                // string literal constants: keep the text (already printed by Display)
                format!("[\"k\",{},{},{},{}]", esc(&text), esc(&ty.to_string()), v, fnpath)
            }
            #[allow(unreachable_patterns)]
            _ => String::from("[\"?\"]"),
        }
    }

    fn rvalue(&mut self, rv: &Rvalue<'tcx>) -> String {
        let tcx = self.tcx;
        match rv {
            Rvalue::Use(o, ..) => format!("[\"use\",{}]", self.operand(o)),
            Rvalue::Ref(_, bk, p) => format!(
                "[\"ref\",{},{}]",
                matches!(bk, mir::BorrowKind::Mut { .. }),
                self.place(p)
            ),
            Rvalue::RawPtr(_, p) => format!("[\"addr\",{}]", self.place(p)),
            Rvalue::BinaryOp(op, b) => format!(
                "[\"bin\",{},{},{}]",
                esc(&format!("{:?}", op)),
                self.operand(&b.0),
                self.operand(&b.1)
            ),
            Rvalue::UnaryOp(op, o) => {
                format!("[\"un\",{},{}]", esc(&format!("{:?}", op)), self.operand(o))
            }
            Rvalue::Discriminant(p) => {
                let t = p.ty(&self.body.local_decls, tcx).ty;
                let adt = match t.kind() {
                    ty::Adt(def, _) => {
                        self.adts.insert(def.did());
                        tcx.def_path_str(def.did())
                    }
                    _ => t.to_string(),
                };
                format!("[\"discr\",{},{}]", self.place(p), esc(&adt))
            }
            Rvalue::Cast(k, o, t) => format!(
                "[\"cast\",{},{},{}]",
                esc(&format!("{:?}", k)),
                self.operand(o),
                esc(&t.to_string())
            ),
            Rvalue::Aggregate(k, ops) => {
                let (kind, name) = match &**k {
                    AggregateKind::Adt(did, v, _, _, _) => {
                        let def = tcx.adt_def(*did);
                        self.adts.insert(*did);
                        if def.is_enum() {
                            ("adt", format!("{}::{}", tcx.def_path_str(*did), def.variant(*v).name))
                        } else {
                            ("adt", tcx.def_path_str(*did))
                        }
                    }
                    AggregateKind::Closure(did, _) => ("closure", tcx.def_path_str(*did)),
                    AggregateKind::Coroutine(did, _) => ("coroutine", tcx.def_path_str(*did)),
                    AggregateKind::Tuple => ("tuple", String::new()),
                    AggregateKind::Array(_) => ("array", String::new()),
                    other => ("other", format!("{:?}", other)),
                };
                let a: Vec<String> = ops.iter().map(|o| self.operand(o)).collect();
                format!("[\"aggr\",{},{},[{}]]", esc(kind), esc(&name), a.join(","))
            }
            Rvalue::CopyForDeref(p) => format!("[\"use\",[\"c\",{}]]", self.place(p)),
            other => format!("[\"other\",{}]", esc(&format!("{:?}", other))),
        }
    }
}

// ADTs with a Drop impl that can run when a value of type `t` is dropped
// (over-approximation: walks fields and generic arguments).
fn glue<'tcx>(
    tcx: TyCtxt<'tcx>,
    t: Ty<'tcx>,
    seen: &mut BTreeSet<String>,
    out: &mut BTreeSet<String>,
    depth: u32,
) {
    let key = t.to_string();
    if !seen.insert(key) || depth > 12 {
        return;
    }
    match t.kind() {
        ty::Adt(def, args) => {
            if tcx.adt_destructor(def.did()).is_some() {
                out.insert(tcx.def_path_str(def.did()));
            }
            if def.is_manually_drop() {
                return;
            }
            for a in args.iter() {
                if let Some(t2) = a.as_type() {
                    glue(tcx, t2, seen, out, depth + 1);
                }
            }
            // only descend into the fields of local (h2) types: for foreign containers
            // the generic arguments above are the over-approximation.
            if def.did().is_local() {
                for v in def.variants() {
                    for f in v.fields.iter() {
                        let ft = f.ty(tcx, args);
                        glue(tcx, ft, seen, out, depth + 1);
                    }
                }
            }
        }
        ty::Tuple(ts) => {
            for t2 in ts.iter() {
                glue(tcx, t2, seen, out, depth + 1);
            }
        }
        ty::Array(t2, _) | ty::Slice(t2) => glue(tcx, *t2, seen, out, depth + 1),
        ty::Closure(_, args) => {
            for t2 in args.as_closure().upvar_tys().iter() {
                glue(tcx, t2, seen, out, depth + 1);
            }
        }
        ty::Dynamic(..) => {
            out.insert(String::from("<dyn>"));
        }
        ty::Param(p) => {
            out.insert(format!("<param {}>", p.name));
        }
        ty::Alias(..) => {
            out.insert(String::from("<alias>"));
        }
        ty::Coroutine(..) => {
            out.insert(String::from("<coroutine>"));
        }
        _ => {}
    }
}

fn macro_name(span: rustc_span::Span) -> Option<String> {
    if !span.from_expansion() {
        return None;
    }
    // outermost macro written at the use site inside h2
    let mut s = span;
    let mut name = None;
    let mut guard = 0;
    while s.from_expansion() && guard < 32 {
        let d = s.ctxt().outer_expn_data();
        name = Some(d.kind.descr());
        s = d.call_site;
        guard += 1;
    }
    name
}

struct Cb;

impl rustc_driver::Callbacks for Cb {
    fn after_analysis<'tcx>(&mut self, _c: &interface::Compiler, tcx: TyCtxt<'tcx>) -> Compilation {
        let krate = tcx.crate_name(rustc_span::def_id::LOCAL_CRATE);
        let want = std::env::var("H2FACTS_CRATE").unwrap_or_else(|_| String::from("h2"));
        if krate.as_str() != want {
            return Compilation::Continue;
        }
        let dst = match std::env::var("H2FACTS_OUT") {
            Ok(d) => d,
            Err(_) => return Compilation::Continue,
        };
        let sm = tcx.sess.source_map();
        let effvis = tcx.effective_visibilities(());
        let mut adts: HashSet<DefId> = HashSet::new();
        let mut out = String::with_capacity(16 << 20);
        let _ = write!(
            out,
            "{{\"schema\":{},\"crate\":{},\"debug_assertions\":{},\"functions\":[\n",
            SCHEMA,
            esc(krate.as_str()),
            tcx.sess.opts.debug_assertions
        );
        let mut first = true;
        let mut n_calls = 0usize;
        let mut n_res = 0usize;
        for ldid in tcx.hir_body_owners() {
            let did = ldid.to_def_id();
            let kind = tcx.def_kind(did);
            if !matches!(kind, DefKind::Fn | DefKind::AssocFn | DefKind::Closure) {
                continue;
            }
            let body = tcx.optimized_mir(did);
            let path = tcx.def_path_str(did);
            let tenv = TypingEnv::post_analysis(tcx, did);
            if !first {
                out.push_str(",\n");
            }
            first = false;
            let lo = sm.lookup_char_pos(body.span.lo());
            let hi = sm.lookup_char_pos(body.span.hi());
            let file = lo.file.name.prefer_local_unconditionally().to_string();
            let ret_ty = body.local_decls[mir::RETURN_PLACE].ty;
            let (vis, exported) = if matches!(kind, DefKind::Fn | DefKind::AssocFn) {
                let v = tcx.visibility(did);
                (if v.is_public() { "pub" } else { "restricted" }, effvis.is_reachable(ldid))
            } else {
                ("closure", false)
            };
            let parent = if matches!(kind, DefKind::Closure) {
                esc(&tcx.def_path_str(tcx.parent(did)))
            } else {
                String::from("null")
            };
            let _ = write!(
                out,
                "{{\"path\":{},\"kind\":{},\"file\":{},\"l0\":{},\"l1\":{},\"ret\":{},\"argc\":{},\"co\":{},\"vis\":{},\"exported\":{},\"parent\":{},\"exp\":{},\"locals\":[",
                esc(&path),
                esc(&format!("{:?}", kind)),
                esc(&file),
                lo.line,
                hi.line,
                esc(&ret_ty.to_string()),
                body.arg_count,
                body.coroutine.is_some(),
                esc(vis),
                exported,
                parent,
                body.span.from_expansion()
            );
            // local names from debug info
            let mut names: BTreeMap<usize, String> = BTreeMap::new();
            for vdi in &body.var_debug_info {
                if let mir::VarDebugInfoContents::Place(p) = &vdi.value {
                    if p.projection.is_empty() {
                        names.entry(p.local.index()).or_insert_with(|| vdi.name.to_string());
                    }
                }
            }
            for (i, ld) in body.local_decls.iter().enumerate() {
                if i > 0 {
                    out.push(',');
                }
                let nm = match names.get(&i) {
                    Some(n) => esc(n),
                    None => String::from("null"),
                };
                let _ = write!(out, "[{},{}]", esc(&ld.ty.to_string()), nm);
            }
            out.push_str("],\"blocks\":[");
            let mut cx = Cx { tcx, body, tenv, adts: &mut adts };
            for (bbi, data) in body.basic_blocks.iter_enumerated() {
                if bbi.index() > 0 {
                    out.push(',');
                }
                let _ = write!(out, "{{\"cu\":{},\"s\":[", data.is_cleanup);
                let mut fs = true;
                for st in &data.statements {
                    let line = sm.lookup_char_pos(st.source_info.span.source_callsite().lo()).line;
                    match &st.kind {
                        StatementKind::Assign(b) => {
                            if !fs {
                                out.push(',');
                            }
                            fs = false;
                            let p = cx.place(&b.0);
                            let r = cx.rvalue(&b.1);
                            let _ = write!(out, "[{},{},{}]", p, r, line);
                        }
                        StatementKind::SetDiscriminant { place, variant_index } => {
                            if !fs {
                                out.push(',');
                            }
                            fs = false;
                            let t = place.ty(&body.local_decls, tcx).ty;
                            let vname = match t.kind() {
                                ty::Adt(def, _) => def.variant(*variant_index).name.to_string(),
                                _ => format!("{}", variant_index.index()),
                            };
                            let p = cx.place(place);
                            let _ = write!(out, "[{},[\"setdiscr\",{}],{}]", p, esc(&vname), line);
                        }
                        _ => {}
                    }
                }
                out.push_str("],\"t\":");
                let term = data.terminator();
                let tspan = term.source_info.span;
                let mexp = match macro_name(tspan) {
                    Some(n) => esc(&n),
                    None => String::from("null"),
                };
                let cs = tspan.source_callsite();
                let loc = sm.lookup_char_pos(cs.lo());
                let tfile = loc.file.name.prefer_local_unconditionally().to_string();
                let line = loc.line;
                match &term.kind {
                    TerminatorKind::Call { func, args, destination, target, unwind, .. } => {
                        n_calls += 1;
                        let fty = func.ty(&body.local_decls, tcx);
                        let mut cls: Vec<String> = Vec::new();
                        let (callee, orig, gargs, resolved) = if let ty::FnDef(cdid, gargs) = fty.kind() {
                            let r = Instance::try_resolve(tcx, tenv, *cdid, gargs).ok().flatten();
                            let orig = tcx.def_path_str(*cdid);
                            let (p, ga, res) = match r {
                                Some(i) => (tcx.def_path_str(i.def_id()), i.args, true),
                                None => (orig.clone(), *gargs, false),
                            };
                            // a trait method call that "resolves" to the trait's own
                            // declaration (no body) is not resolved
                            let res = res
                                && !(tcx.trait_of_assoc(*cdid).is_some()
                                    && r.map(|i| i.def_id() == *cdid).unwrap_or(false)
                                    && !tcx.is_mir_available(*cdid));
                            let mut gs: Vec<String> = Vec::new();
                            for a in ga.iter() {
                                if let Some(t) = a.as_type() {
                                    gs.push(esc(&t.to_string()));
                                    for w in t.walk() {
                                        if let Some(wt) = w.as_type() {
                                            if let ty::Closure(cd, _) = wt.kind() {
                                                cls.push(esc(&tcx.def_path_str(*cd)));
                                            }
                                        }
                                    }
                                }
                            }
                            (p, orig, gs, res)
                        } else {
                            (format!("<indirect {}>", fty), String::new(), Vec::new(), false)
                        };
                        if resolved {
                            n_res += 1;
                        }
                        let a: Vec<String> = args.iter().map(|o| cx.operand(&o.node)).collect();
                        let tg = target.map(|t| t.index() as i64).unwrap_or(-1);
                        let uw = match unwind {
                            mir::UnwindAction::Cleanup(b) => b.index() as i64,
                            _ => -1,
                        };
                        let d = cx.place(destination);
                        let _ = write!(
                            out,
                            "{{\"k\":\"call\",\"f\":{},\"of\":{},\"res\":{},\"ga\":[{}],\"cl\":[{}],\"a\":[{}],\"d\":{},\"t\":{},\"u\":{},\"file\":{},\"ln\":{},\"exp\":{}}}",
                            esc(&callee),
                            if orig == callee { String::from("null") } else { esc(&orig) },
                            resolved,
                            gargs.join(","),
                            cls.join(","),
                            a.join(","),
                            d,
                            tg,
                            uw,
                            esc(&tfile),
                            line,
                            mexp
                        );
                    }
                    TerminatorKind::SwitchInt { discr, targets } => {
                        let t: Vec<String> =
                            targets.iter().map(|(v, b)| format!("[{},{}]", v, b.index())).collect();
                        let dty = discr.ty(&body.local_decls, tcx);
                        let o = cx.operand(discr);
                        let _ = write!(
                            out,
                            "{{\"k\":\"sw\",\"o\":{},\"ty\":{},\"ts\":[{}],\"else\":{},\"ln\":{},\"exp\":{}}}",
                            o,
                            esc(&dty.to_string()),
                            t.join(","),
                            targets.otherwise().index(),
                            line,
                            mexp
                        );
                    }
                    TerminatorKind::Drop { place, target, unwind, .. } => {
                        let t = place.ty(&body.local_decls, tcx).ty;
                        let mut seen = BTreeSet::new();
                        let mut g = BTreeSet::new();
                        glue(tcx, t, &mut seen, &mut g, 0);
                        let gl: Vec<String> = g.iter().map(|s| esc(s)).collect();
                        let uw = match unwind {
                            mir::UnwindAction::Cleanup(b) => b.index() as i64,
                            _ => -1,
                        };
                        let p = cx.place(place);
                        let _ = write!(
                            out,
                            "{{\"k\":\"drop\",\"p\":{},\"ty\":{},\"glue\":[{}],\"t\":{},\"u\":{},\"ln\":{}}}",
                            p,
                            esc(&t.to_string()),
                            gl.join(","),
                            target.index(),
                            uw,
                            line
                        );
                    }
                    TerminatorKind::Goto { target } => {
                        let _ = write!(out, "{{\"k\":\"goto\",\"t\":{}}}", target.index());
                    }
                    TerminatorKind::Return => {
                        let _ = write!(out, "{{\"k\":\"ret\",\"ln\":{}}}", line);
                    }
                    TerminatorKind::Assert { cond, expected, msg, target, .. } => {
                        let kindname = {
                            let s = format!("{:?}", msg);
                            s.split('(').next().unwrap_or("").to_string()
                        };
                        let c = cx.operand(cond);
                        let _ = write!(
                            out,
                            "{{\"k\":\"assert\",\"kind\":{},\"msg\":{},\"cond\":{},\"expected\":{},\"t\":{},\"file\":{},\"ln\":{},\"exp\":{}}}",
                            esc(&kindname),
                            esc(&format!("{:?}", msg)),
                            c,
                            expected,
                            target.index(),
                            esc(&tfile),
                            line,
                            mexp
                        );
                    }
                    TerminatorKind::Unreachable => {
                        out.push_str("{\"k\":\"unreachable\"}");
                    }
                    TerminatorKind::UnwindResume => {
                        out.push_str("{\"k\":\"resume\"}");
                    }
                    other => {
                        let succ: Vec<String> =
                            term.successors().map(|b| b.index().to_string()).collect();
                        let name = format!("{:?}", other);
                        let name = name.split(|c: char| !c.is_alphanumeric()).next().unwrap_or("").to_string();
                        let _ = write!(
                            out,
                            "{{\"k\":\"other\",\"d\":{},\"succ\":[{}],\"ln\":{}}}",
                            esc(&name),
                            succ.join(","),
                            line
                        );
                    }
                }
                out.push('}');
            }
            out.push_str("]}");
        }
        out.push_str("\n],\n\"consts\":[\n");
        // named constants and statics of the crate, evaluated
        let mut firstc = true;
        for ldid in tcx.hir_crate_items(()).definitions() {
            let did = ldid.to_def_id();
            let kind = tcx.def_kind(did);
            let is_const = matches!(kind, DefKind::Const { .. } | DefKind::AssocConst { .. });
            if !is_const {
                continue;
            }
            // skip generic contexts that cannot be evaluated polymorphically
            if path_skip(&tcx.def_path_str(did)) || tcx.generics_of(did).requires_monomorphization(tcx) {
                continue;
            }
            let ty = tcx.type_of(did).instantiate_identity().skip_norm_wip();
            let path = tcx.def_path_str(did);
            let mut val = String::from("null");
            let mut bytes = String::from("null");
            if let Ok(cv) = tcx.const_eval_poly(did) {
                match cv {
                    mir::ConstValue::Scalar(mir::interpret::Scalar::Int(si)) => {
                        let size = si.size();
                        if size.bytes() > 0 {
                            // newtype wrappers (Reason(u32), StreamId(u32)) are scalars too
                            val = if ty.is_signed() {
                                format!("{}", si.to_int(size))
                            } else {
                                format!("{}", si.to_uint(size))
                            };
                        }
                    }
                    mir::ConstValue::Indirect { alloc_id, .. } => {
                        if let ty::Array(..) = ty.kind() {
                            let alloc = tcx.global_alloc(alloc_id).unwrap_memory();
                            let inner = alloc.inner();
                            let len = inner.len();
                            if len <= (1 << 16) {
                                let b = inner.inspect_with_uninit_and_ptr_outside_interpreter(0..len);
                                let mut h = String::with_capacity(len * 2 + 2);
                                h.push('"');
                                for x in b {
                                    let _ = write!(h, "{:02x}", x);
                                }
                                h.push('"');
                                bytes = h;
                            }
                        }
                    }
                    _ => {}
                }
            }
            if !firstc {
                out.push_str(",\n");
            }
            firstc = false;
            let _ = write!(
                out,
                "{{\"path\":{},\"ty\":{},\"val\":{},\"bytes\":{}}}",
                esc(&path),
                esc(&ty.to_string()),
                val,
                bytes
            );
        }
        out.push_str("\n],\n\"adts\":{\n");
        // all local ADTs plus every foreign ADT that was switched on / projected into
        for ldid in tcx.hir_crate_items(()).definitions() {
            let did = ldid.to_def_id();
            if matches!(tcx.def_kind(did), DefKind::Struct | DefKind::Enum | DefKind::Union) {
                adts.insert(did);
            }
        }
        let mut firsta = true;
        let mut sorted: BTreeMap<String, DefId> = BTreeMap::new();
        for did in adts.iter() {
            sorted.insert(tcx.def_path_str(*did), *did);
        }
        for (_, did) in sorted.iter() {
            let def = tcx.adt_def(*did);
            if !firsta {
                out.push_str(",\n");
            }
            firsta = false;
            let _ = write!(
                out,
                "{}:{{\"kind\":{},\"local\":{},\"drop\":{},\"variants\":[",
                esc(&tcx.def_path_str(*did)),
                esc(if def.is_enum() { "enum" } else if def.is_union() { "union" } else { "struct" }),
                did.is_local(),
                tcx.adt_destructor(*did).is_some()
            );
            let mut fv = true;
            for (vi, v) in def.variants().iter_enumerated() {
                if !fv {
                    out.push(',');
                }
                fv = false;
                let dv = if def.is_enum() {
                    format!("{}", def.discriminant_for_variant(tcx, vi).val)
                } else {
                    String::from("0")
                };
                let _ = write!(out, "{{\"name\":{},\"discr\":{},\"fields\":[", esc(v.name.as_str()), dv);
                let mut ff = true;
                for f in v.fields.iter() {
                    if !ff {
                        out.push(',');
                    }
                    ff = false;
                    let fty = if did.is_local() {
                        tcx.type_of(f.did).instantiate_identity().skip_norm_wip().to_string()
                    } else {
                        String::new()
                    };
                    let _ = write!(out, "[{},{}]", esc(f.name.as_str()), esc(&fty));
                }
                out.push_str("]}");
            }
            out.push_str("]}");
        }
        out.push_str("\n},\n");
        // unsafe census (HIR)
        let mut uv = UnsafeV { tcx, found: Vec::new() };
        tcx.hir_visit_all_item_likes_in_crate(&mut uv);
        let us: Vec<String> = uv.found.iter().map(|s| esc(s)).collect();
        let _ = write!(
            out,
            "\"unsafe\":[{}],\"stats\":{{\"calls\":{},\"resolved\":{}}}}}\n",
            us.join(","),
            n_calls,
            n_res
        );
        // single write
        let tmp = format!("{}.tmp.{}", dst, std::process::id());
        std::fs::write(&tmp, out).expect("h2facts: cannot write facts");
        std::fs::rename(&tmp, &dst).expect("h2facts: cannot rename facts");
        eprintln!("H2FACTS written {}", dst);
        Compilation::Continue
    }
}

struct UnsafeV<'tcx> {
    tcx: TyCtxt<'tcx>,
    found: Vec<String>,
}

impl<'tcx> rustc_hir::intravisit::Visitor<'tcx> for UnsafeV<'tcx> {
    type NestedFilter = rustc_middle::hir::nested_filter::OnlyBodies;
    fn maybe_tcx(&mut self) -> Self::MaybeTyCtxt {
        self.tcx
    }
    fn visit_block(&mut self, b: &'tcx rustc_hir::Block<'tcx>) {
        if let rustc_hir::BlockCheckMode::UnsafeBlock(rustc_hir::UnsafeSource::UserProvided) = b.rules {
            let sm = self.tcx.sess.source_map();
            self.found.push(format!("block {}", sm.span_to_diagnostic_string(b.span)));
        }
        rustc_hir::intravisit::walk_block(self, b);
    }
    fn visit_item(&mut self, it: &'tcx rustc_hir::Item<'tcx>) {
        let sm = self.tcx.sess.source_map();
        match &it.kind {
            rustc_hir::ItemKind::Impl(imp) => {
                if let Some(tr) = imp.of_trait {
                    if matches!(tr.safety, rustc_hir::Safety::Unsafe) && !it.span.from_expansion() {
                        self.found.push(format!("unsafe impl {}", sm.span_to_diagnostic_string(it.span)));
                    }
                }
            }
            rustc_hir::ItemKind::Fn { sig, .. } => {
                if sig.header.is_unsafe() {
                    self.found.push(format!("unsafe fn {}", sm.span_to_diagnostic_string(it.span)));
                }
            }
            _ => {}
        }
        rustc_hir::intravisit::walk_item(self, it);
    }
}

fn main() {
    let mut args: Vec<String> = std::env::args().collect();
    if args.len() > 1 {
        args.remove(1);
    }
    rustc_driver::run_compiler(&args, &mut Cb);
}

fn collect_consts<'tcx>(rv: &Rvalue<'tcx>, out: &mut Vec<String>) {
    let mut push = |o: &Operand<'tcx>| {
        if let Operand::Constant(c) = o {
            out.push(format!("{}", c.const_));
        }
    };
    match rv {
        Rvalue::Use(o, ..) => push(o),
        Rvalue::Cast(_, o, _) => push(o),
        Rvalue::Aggregate(_, ops) => {
            for o in ops.iter() {
                push(o);
            }
        }
        Rvalue::BinaryOp(_, b) => {
            push(&b.0);
            push(&b.1);
        }
        _ => {}
    }
}

fn path_skip(p: &str) -> bool {
    p.contains("__CALLSITE")
}
