//! Type-level witnesses for C20.R2 (DESIGN.md §3.4): the public handles of h2 are `Send`
//! (and `Sync` where std's Mutex gives it) for `Send` parameters, and that this is *derived*
//! by the compiler from the fields, not asserted by an `unsafe impl`.
//!
//! `cargo check` on this crate is the positive half (quick tier).  The doctests are the
//! negative half (thorough tier, `cargo +nightly test --doc`): a handle over a `!Send`
//! buffer type must fail to compile with E0277, while its twin over a `Send` buffer compiles.

use bytes::{Buf, Bytes};
use std::io::Cursor;

pub fn is_send<T: Send>() {}
pub fn is_sync<T: Sync>() {}

/// A `Buf` that is not `Send` (holds an `Rc`).
pub struct RcBuf(pub std::rc::Rc<Vec<u8>>, pub usize);
impl Buf for RcBuf {
    fn remaining(&self) -> usize {
        self.0.len() - self.1
    }
    fn chunk(&self) -> &[u8] {
        &self.0[self.1..]
    }
    fn advance(&mut self, n: usize) {
        self.1 += n;
    }
}

/// The twin of [`RcBuf`] that is `Send`.
pub struct ArcBuf(pub std::sync::Arc<Vec<u8>>, pub usize);
impl Buf for ArcBuf {
    fn remaining(&self) -> usize {
        self.0.len() - self.1
    }
    fn chunk(&self) -> &[u8] {
        &self.0[self.1..]
    }
    fn advance(&mut self, n: usize) {
        self.1 += n;
    }
}

type Io = tokio::io::DuplexStream;

/// Positive obligations: every handle type is `Send` for `Send` parameters.
pub fn handles_are_send() {
    is_send::<h2::client::SendRequest<Bytes>>();
    is_send::<h2::client::ReadySendRequest<Bytes>>();
    is_send::<h2::client::ResponseFuture>();
    is_send::<h2::client::PushedResponseFuture>();
    is_send::<h2::client::PushPromises>();
    is_send::<h2::client::PushPromise>();
    is_send::<h2::client::Connection<Io, Bytes>>();
    is_send::<h2::server::Connection<Io, Bytes>>();
    is_send::<h2::server::SendResponse<Bytes>>();
    is_send::<h2::server::SendPushedResponse<Bytes>>();
    is_send::<h2::SendStream<Bytes>>();
    is_send::<h2::RecvStream>();
    is_send::<h2::FlowControl>();
    is_send::<h2::PingPong>();
    is_send::<h2::SendStream<ArcBuf>>();
    is_send::<h2::SendStream<Cursor<Vec<u8>>>>();
    // shared handles used through & from several threads
    is_sync::<h2::client::SendRequest<Bytes>>();
    is_sync::<h2::SendStream<Bytes>>();
    is_sync::<h2::RecvStream>();
    is_sync::<h2::FlowControl>();
    is_sync::<h2::client::ResponseFuture>();
}

/// The `Send` impl of `SendStream<B>` is derived: with a `!Send` buffer type it is not `Send`.
///
/// ```compile_fail,E0277
/// h2_witness::is_send::<h2::SendStream<h2_witness::RcBuf>>();
/// ```
///
/// The twin differs only in the buffer type and compiles:
///
/// ```
/// h2_witness::is_send::<h2::SendStream<h2_witness::ArcBuf>>();
/// ```
pub struct SendStreamSendIsDerived;

/// Same for the request handle.
///
/// ```compile_fail,E0277
/// h2_witness::is_send::<h2::client::SendRequest<h2_witness::RcBuf>>();
/// ```
///
/// ```
/// h2_witness::is_send::<h2::client::SendRequest<h2_witness::ArcBuf>>();
/// ```
pub struct SendRequestSendIsDerived;

/// And for the server response handle.
///
/// ```compile_fail,E0277
/// h2_witness::is_send::<h2::server::SendResponse<h2_witness::RcBuf>>();
/// ```
///
/// ```
/// h2_witness::is_send::<h2::server::SendResponse<h2_witness::ArcBuf>>();
/// ```
pub struct SendResponseSendIsDerived;
