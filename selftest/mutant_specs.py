# mutant specs: mutant(name, [properties], [expected key substrings], what, [(file, old, new)])
S = 'src/proto/streams/'

mutant('C20-lock-order-inversion', ['C20'], ['C20.R1|order'],
       'StreamRef::send_trailers takes the send-buffer lock before the stream-state lock',
       [(S + 'streams.rs',
         '''    pub fn send_trailers(&mut self, trailers: HeaderMap) -> Result<(), UserError> {
        let mut me = self.opaque.inner.lock().unwrap();
        let me = &mut *me;

        let stream = me.store.resolve(self.opaque.key);
        let actions = &mut me.actions;
        let mut send_buffer = self.send_buffer.inner.lock().unwrap();
        let send_buffer = &mut *send_buffer;
''',
         '''    pub fn send_trailers(&mut self, trailers: HeaderMap) -> Result<(), UserError> {
        let mut send_buffer = self.send_buffer.inner.lock().unwrap();
        let send_buffer = &mut *send_buffer;
        let mut me = self.opaque.inner.lock().unwrap();
        let me = &mut *me;

        let stream = me.store.resolve(self.opaque.key);
        let actions = &mut me.actions;
''')])

# ---------------------------------------------------------------- C03
mutant('C03-R1-unobserved-stream-not-credited', ['C03'], ['C03.R1|exit|charged'],
       'Recv::recv_data: the !stream.is_recv early return forgets release_connection_capacity (issue #648 regression)',
       [(S + 'recv.rs', '''            self.release_connection_capacity(sz, &mut None);
            return Ok(());
        }

        // Update stream level flow control''', '''            return Ok(());
        }

        // Update stream level flow control''')])

mutant('C03-R2-stream-error-not-credited', ['C03'], ['C03.R2|caller'],
       'Inner::recv_data: a stream error after the charge is no longer credited back (0.4.14 leak)',
       [(S + 'streams.rs', '''            if let Err(Error::Reset(..)) = res {
                actions
                    .recv
                    .release_connection_capacity(sz as WindowSize, &mut None);
            }
            actions.reset_on_recv_stream_err''', '''            let _ = sz;
            actions.reset_on_recv_stream_err''')])

mutant('C03-R3-data-after-goaway-not-accounted', ['C03'], ['C03.R3|exit|0'],
       'Inner::recv_data: DATA beyond the GOAWAY id is dropped without ignore_data (0.4.14 leak)',
       [(S + 'streams.rs', '''                    let sz = sz as WindowSize;
                    self.actions.recv.ignore_data(sz)?;

                    return Ok(());''', '''                    let _sz = sz as WindowSize;

                    return Ok(());''')])

mutant('C03-R4-release-capacity-skips-connection', ['C03'], ['C03.R4|writer'],
       'Recv::release_capacity decrements the stream in-flight ledger without crediting the connection',
       [(S + 'recv.rs', '''        self.release_connection_capacity(capacity, task);

        // Decrement in-flight data
        stream.in_flight_recv_data -= capacity;''', '''        // Decrement in-flight data
        stream.in_flight_recv_data -= capacity;''')])

mutant('C03-R5-credit-without-padding', ['C03'], ['C03.R2|amount'],
       'Inner::recv_data credits payload length instead of the flow-controlled length on a stream error (padding leak)',
       [(S + 'streams.rs', '''            let sz = frame.flow_controlled_len();
            let is_end_stream = frame.is_end_stream();
            let payload_len = frame.payload().len();
            let mut res''', '''            let sz = frame.payload().len();
            let is_end_stream = frame.is_end_stream();
            let payload_len = frame.payload().len();
            let mut res''')])

mutant('C03-R5-padding-not-released', ['C03'], ['C03.R5|padding'],
       'Recv::recv_data no longer auto-releases the padding overhead (0.4.13)',
       [(S + 'recv.rs', '''        let padding = (frame.flow_controlled_len() - frame.payload().len()) as WindowSize;
        if padding > 0 {''', '''        let padding = (frame.payload().len() - frame.payload().len()) as WindowSize;
        if padding > 0 {''')])

mutant('C03-R6-window-update-not-accounted', ['C03'], ['C03.R6|site'],
       'send_connection_window_update buffers WINDOW_UPDATE without inc_window: the same increment is advertised again',
       [(S + 'recv.rs', '''            // Update flow control
            self.flow
                .inc_window(incr)
                .expect("unexpected flow control state");
        }

        Ok(BufferStatus::Complete)''', '''        }

        Ok(BufferStatus::Complete)''')])

mutant('C03-R7-recvstream-drop-keeps-buffer', ['C03'], ['C03.R7|drop|RecvStream'],
       'Drop for RecvStream no longer clears the receive buffer (0.4.16 fix reverted)',
       [('src/share.rs', '''        self.inner.inner.clear_recv_buffer();
    }
}

// ===== impl FlowControl =====''', '''    }
}

// ===== impl FlowControl =====''')])

mutant('C03-R8-unchecked-window-add', ['C03', 'C02'], ['R8|raw', 'C02.R4|raw'],
       'Window::add uses raw + instead of checked_add',
       [(S + 'flow_control.rs', '''        if let Some(v) = self.0.checked_add(other as i32) {
            Ok(Self(v))
        } else {
            Err(Reason::FLOW_CONTROL_ERROR)
        }''', '''        Ok(Self(self.0 + other as i32))''')])

# ---------------------------------------------------------------- C10 / C11 / C12 tables
H = 'src/hpack/'
mutant('C11-R1-decode-table-entry', ['C11'], ['C11.R1|entry'],
       'one DECODE_TABLE leaf decodes to the wrong symbol',
       [(H + 'huffman/table.rs', '''    0x0530, 0x0530, 0x0530, 0x0530, 0x0530, 0x0530, 0x0530, 0x0530, 0x0531, 0x0531, 0x0531, 0x0531,
    0x0531, 0x0531, 0x0531, 0x0531, 0x0532,''', '''    0x0530, 0x0530, 0x0530, 0x0530, 0x0530, 0x0530, 0x0530, 0x0531, 0x0531, 0x0531, 0x0531, 0x0531,
    0x0531, 0x0531, 0x0531, 0x0531, 0x0532,''')])
mutant('C10-R5-encode-table-entry', ['C10'], ['C10.R5|row'],
       'one ENCODE_TABLE code has a wrong bit length',
       [(H + 'huffman/table.rs', '''    (13, 0x1ff8),
    (23, 0x7fffd8),''', '''    (13, 0x1ff8),
    (24, 0x7fffd8),''')])
mutant('C10-R1-static-index-off-by-one', ['C10'], ['C10.R1|index_static|accept-language'],
       'encoder indexes accept-language as static entry 18 (accept-ranges)',
       [(H + 'table.rs', 'header::ACCEPT_LANGUAGE => Some((17, false)),', 'header::ACCEPT_LANGUAGE => Some((18, false)),')])
mutant('C11-R3-get-static-wrong-value', ['C11', 'C10'], ['R3|get_static|7', 'C10.R1|get_static|7'],
       'decoder static entry 7 is :scheme http instead of https',
       [(H + 'decoder.rs', '7 => Header::Scheme(BytesStr::from_static("https")),', '7 => Header::Scheme(BytesStr::from_static("http")),')])
mutant('C12-R1-setting-id-writer', ['C12'], ['C12.R1|setting|encode|MaxHeaderListSize'],
       'Setting::encode writes MAX_HEADER_LIST_SIZE with id 7',
       [('src/frame/settings.rs', 'MaxHeaderListSize(v) => (6, v),', 'MaxHeaderListSize(v) => (7, v),')])
mutant('C12-R1-max-frame-size-range', ['C12'], ['C12.R1|range|max_frame_size'],
       'Settings::load accepts MAX_FRAME_SIZE below 2^14',
       [('src/frame/settings.rs', 'if DEFAULT_MAX_FRAME_SIZE <= val && val <= MAX_MAX_FRAME_SIZE {', 'if val <= MAX_MAX_FRAME_SIZE {')])
mutant('C12-R2-head-parse-offset', ['C12'], ['C12.R2|parse|flag'],
       'Head::parse reads the flags from offset 3',
       [('src/frame/head.rs', '            flag: header[4],', '            flag: header[3],')])
mutant('C12-R3-data-size-guard-dropped', ['C12'], ['C12.R3|data'],
       'Encoder::buffer no longer rejects DATA larger than max_frame_size',
       [('src/codec/framed_write.rs', '''                if len > self.max_frame_size() {
                    return Err(PayloadTooBig);
                }
''', '')])
mutant('C12-R4-frame-size-error-code', ['C12'], ['C12.R4|map_err'],
       'an over-long received frame is reported as PROTOCOL_ERROR instead of FRAME_SIZE_ERROR',
       [('src/codec/framed_read.rs', 'return Error::library_go_away(Reason::FRAME_SIZE_ERROR);', 'return Error::library_go_away(Reason::PROTOCOL_ERROR);')])

# ---------------------------------------------------------------- C08
mutant('C08-R1-pong-slot-not-cleared', ['C08'], ['C08.R1|drain|pending_pong'],
       'send_pending_pong reads the slot without taking it: the next PING trips assert!(pending_pong.is_none())',
       [('src/proto/ping_pong.rs', 'if let Some(pong) = self.pending_pong.take() {', 'if let Some(pong) = self.pending_pong.clone() {')])
mutant('C08-R1-poll-ready-skips-refusal', ['C08'], ['C08.R1|poll_ready'],
       'Connection::poll_ready no longer drains the pending refusal before the next frame is read',
       [('src/proto/connection.rs', '''        ready!(self.inner.streams.send_pending_refusal(cx, &mut self.codec))?;

        Poll::Ready(Ok(()))''', '''        Poll::Ready(Ok(()))''')])
mutant('C08-R1-poll-ready-ignores-pending', ['C08'], ['C08.R1|poll_ready|result-used|send_pending_pong'],
       'Connection::poll_ready ignores the Pending outcome of send_pending_pong',
       [('src/proto/connection.rs', 'ready!(self.inner.ping_pong.send_pending_pong(cx, &mut self.codec))?;',
         'let _ = self.inner.ping_pong.send_pending_pong(cx, &mut self.codec);')])
mutant('C08-R2-refusal-without-capacity-check', ['C08'], ['C08.R2|site|proto::streams::recv::Recv::send_pending_refusal'],
       'send_pending_refusal buffers RST_STREAM without has_send_capacity',
       [(S + 'recv.rs', '''        if let Some(stream_id) = self.refused {
            if !dst.has_send_capacity() {
                return Ok(BufferStatus::CodecFull);
            }
''', '''        if let Some(stream_id) = self.refused {
''')])
mutant('C08-R4-zero-write-busy-loop', ['C08'], ['C08.R4|flush|zero-write'],
       'FramedWrite::flush retries forever when the transport returns Ok(0) (0.4.16 fix reverted)',
       [('src/codec/framed_write.rs', '''                if n == 0 {
                    // No progress is possible; retrying would busy-loop.
                    tracing::trace!("write returned zero, but non-zero bytes remaining");
                    return Poll::Ready(Err(io::ErrorKind::WriteZero.into()));
                }
''', '''                let _ = n;
''')])

# ---------------------------------------------------------------- C14
mutant('C14-R2-apply-before-ack', ['C14'], ['C14.R2|apply-after-ack'],
       'the peer settings are applied before the codec was ready for the ACK (applied again on every retry, ACK may lag)',
       [('src/proto/settings.rs', '''        if let Some(settings) = self.remote.clone() {
            if !dst.poll_ready(cx)?.is_ready() {
                return Poll::Pending;
            }
''', '''        if let Some(settings) = self.remote.clone() {
            if let Some(val) = settings.max_frame_size() {
                dst.set_max_send_frame_size(val as usize);
            }
            if !dst.poll_ready(cx)?.is_ready() {
                return Poll::Pending;
            }
'''), ('src/proto/settings.rs', '''            if let Some(val) = settings.max_frame_size() {
                dst.set_max_send_frame_size(val as usize);
            }
        }

        self.remote = None;''', '''        }

        self.remote = None;''')])
mutant('C14-R4-local-settings-applied-on-send', ['C14'], ['C14.R4|who|apply_local_settings'],
       'local settings are enforced against the peer as soon as they are sent, not at its ACK',
       [('src/proto/settings.rs', '''                self.local = Local::WaitingAck(settings.clone());''', '''                streams.apply_local_settings(settings)?;
                self.local = Local::WaitingAck(settings.clone());''')])
mutant('C14-R5-stray-ack-tolerated', ['C14'], ['C14.R5|stray-ack'],
       'an unexpected SETTINGS ACK is ignored instead of being a connection error',
       [('src/proto/settings.rs', '''                    proto_err!(conn: "received unexpected settings ack");
                    Err(Error::library_go_away(Reason::PROTOCOL_ERROR))''', '''                    Ok(())''')])
mutant('C14-R6-pong-wrong-payload', ['C14'], ['C14.R6|send'],
       'the PONG carries a fixed payload instead of the one received',
       [('src/proto/ping_pong.rs', '''            dst.buffer(Ping::pong(pong).into())''', '''            let _ = pong;
            dst.buffer(Ping::pong(Ping::USER).into())''')])
mutant('C14-R3-max-frame-size-not-applied', ['C14'], ['C14.R2|apply|sites', 'C14.R3'],
       'the peer MAX_FRAME_SIZE is acknowledged but never applied to the encoder',
       [('src/proto/settings.rs', '''            if let Some(val) = settings.max_frame_size() {
                dst.set_max_send_frame_size(val as usize);
            }
''', '')])

# ---------------------------------------------------------------- C06
mutant('C06-R2-poll-capacity-no-registration', ['C06'], ['C06.R2|pending|proto::streams::send::Send::poll_capacity'],
       'Send::poll_capacity returns Pending without registering the task',
       [(S + 'send.rs', '''        if !stream.send_capacity_inc {
            stream.wait_send(cx);
            return Poll::Pending;''', '''        if !stream.send_capacity_inc {
            let _ = cx;
            return Poll::Pending;''')])
mutant('C06-R2-poll-trailers-no-registration', ['C06'], ['C06.R2|pending|proto::streams::recv::Recv::poll_trailers', 'C06.R3|putback|poll_trailers'],
       'Recv::poll_trailers puts a DATA event back and returns Pending without storing recv_task (0.4.16 missed wake-up)',
       [(S + 'recv.rs', '''                stream.pending_recv.push_front(&mut self.buffer, event);
                stream.recv_task = Some(cx.waker().clone());
                Poll::Pending''', '''                stream.pending_recv.push_front(&mut self.buffer, event);
                Poll::Pending''')])
mutant('C06-R3-recv-reset-no-notify-push', ['C06'], ['C06.R3|closer|proto::streams::recv::Recv::recv_reset'],
       'Recv::recv_reset no longer notifies the push task (0.4.7 class of omission)',
       [(S + 'recv.rs', '''        stream.state.recv_reset(frame, stream.is_pending_send);

        stream.notify_send();
        stream.notify_recv();
        stream.notify_push();''', '''        stream.state.recv_reset(frame, stream.is_pending_send);

        stream.notify_send();
        stream.notify_recv();''')])
mutant('C06-R3-data-delivered-without-notify', ['C06'], ['C06.R3|deliver|proto::streams::recv::Recv::recv_data'],
       'Recv::recv_data pushes the DATA event without notify_recv',
       [(S + 'recv.rs', '''        stream.pending_recv.push_back(&mut self.buffer, event);
        stream.notify_recv();

        Ok(())
    }

    pub fn ignore_data''', '''        stream.pending_recv.push_back(&mut self.buffer, event);

        Ok(())
    }

    pub fn ignore_data''')])
mutant('C06-R5-poll-pong-check-before-register', ['C06'], ['C06.R5|poll_pong|register-before-cas'],
       'UserPings::poll_pong checks the state before registering the waker (pong can be lost)',
       [('src/proto/ping_pong.rs', '''        self.0.pong_task.register(cx.waker());
        let prev = self
            .0
            .state
            .compare_exchange(
                USER_STATE_RECEIVED_PONG, // current
                USER_STATE_EMPTY,         // new
                Ordering::AcqRel,
                Ordering::Acquire,
            )
            .unwrap_or_else(|v| v);
''', '''        let prev = self
            .0
            .state
            .compare_exchange(
                USER_STATE_RECEIVED_PONG, // current
                USER_STATE_EMPTY,         // new
                Ordering::AcqRel,
                Ordering::Acquire,
            )
            .unwrap_or_else(|v| v);
        self.0.pong_task.register(cx.waker());
''')])
mutant('C06-R1b-schedule-send-no-wake', ['C06'], ['C06.R1b|wake-after|proto::streams::prioritize::Prioritize::schedule_send'],
       'Prioritize::schedule_send queues the stream but does not wake the connection',
       [(S + 'prioritize.rs', '''            self.pending_send.push(stream);

            // Notify the connection.
            if let Some(task) = task.take() {
                task.wake();
            }''', '''            self.pending_send.push(stream);
            let _ = task;''')])
mutant('C06-R4-park-after-unlock', ['C06', 'C20'], ['C06.R4|park'],
       'Streams::poll_complete stores the connection waker after re-taking the lock without re-checking the work list',
       [(S + 'streams.rs', '''                if status == BufferStatus::Complete {
                    me.actions.task = Some(cx.waker().clone());
                }

                status''', '''                status'''),
        (S + 'streams.rs', '''                let mut me = self.inner.lock().unwrap();
                me.reclaim_written_frame(&self.send_buffer, dst)''', '''                let mut me = self.inner.lock().unwrap();
                me.actions.task = Some(cx.waker().clone());
                me.reclaim_written_frame(&self.send_buffer, dst)''')])

# ---------------------------------------------------------------- C07
mutant('C07-R2-recv-eof-skips-send-half', ['C07'], ['C07.R2|recv_eof|send-closer'],
       'Inner::recv_eof no longer resets the send half of every stream: poll_capacity / poll_reset waiters hang after EOF',
       [(S + 'streams.rs', '''                actions.recv.recv_eof(stream);

                // This handles resetting send state associated with the
                // stream
                actions.send.handle_error(send_buffer, stream, counts);''', '''                actions.recv.recv_eof(stream);
                let _ = (&send_buffer, &counts);''')])
mutant('C07-R3-poll-capacity-parks-on-closed-stream', ['C07', 'C16'], ['C07.R3|park|proto::streams::send::Send::poll_capacity'],
       'Send::poll_capacity parks without checking that the stream can still send',
       [(S + 'send.rs', '''        if !stream.state.is_send_streaming() {
            return Poll::Ready(None);
        }

        if !stream.send_capacity_inc {''', '''        if !stream.send_capacity_inc {''')])
mutant('C07-R4-send-request-ignores-conn-error', ['C07'], ['C07.R4|entry|send_request'],
       'Streams::send_request no longer fails after the connection ended',
       [(S + 'streams.rs', '''        me.actions.ensure_no_conn_error()?;
        me.actions.send.ensure_next_stream_id()?;

        // The `pending` argument''', '''        me.actions.send.ensure_next_stream_id()?;

        // The `pending` argument''')])
mutant('C07-R5-connection-drop-silent', ['C07'], ['C07.R5|connection-drop'],
       'dropping the connection no longer tells the streams',
       [('src/proto/connection.rs', '''        let _ = self.inner.streams.recv_eof(true);''', '''''')])
mutant('C07-R1-go-away-from-user-silent', ['C07'], ['C07.R1|go_away_from_user'],
       'abrupt user shutdown does not notify the streams',
       [('src/proto/connection.rs', '''        // Notify all streams of reason we're abruptly closing.
        self.streams.handle_error(Error::user_go_away(e));''', '''''')])
mutant('C07-R6-reset-after-eos-drops-data', ['C07', 'C09'], ['C07.R6|after-reset', 'C09.R1|recv_reset'],
       'a reset after END_STREAM makes buffered data unreadable (0.4.16 fix reverted)',
       [(S + 'state.rs', '''                self.inner = Closed(if recv_end_stream {
                    Cause::ErrorAfterEndStream(error)
                } else {
                    Cause::Error(error)
                });''', '''                let _ = recv_end_stream;
                self.inner = Closed(Cause::Error(error));''')])

# ---------------------------------------------------------------- C02 / C16
mutant('C02-R1-ignores-stream-window', ['C02'], ['C02.R1|take|bounds'],
       'pop_frame no longer limits the DATA length to the stream\'s available window',
       [(S + 'prioritize.rs', '''                            let len =
                                cmp::min(len, stream_capacity.as_size() as usize) as WindowSize;''', '''                            let len = len as WindowSize;''')])
mutant('C02-R1-peer-window-check-dropped', ['C02'], ['C02.R1|take|peer-window'],
       'pop_frame no longer compares the length with the window the peer knows',
       [(S + 'prioritize.rs', '''                            if len > 0 && len > stream.send_flow.window_size() {
                                stream.pending_send.push_front(buffer, frame.into());
                                continue;
                            }
''', '')])
mutant('C02-R2-connection-window-not-charged', ['C02'], ['C02.R2|pair|send_data|conn'],
       'pop_frame does not charge the connection window for the bytes sent',
       [(S + 'prioritize.rs', '''                                    let _res = self.flow.send_data(len);
                                    debug_assert!(_res.is_ok());
''', '')])
mutant('C02-R3-zero-window-sends', ['C02'], ['C02.R3|zero-window'],
       'a non-empty DATA frame is processed although the stream window is zero',
       [(S + 'prioritize.rs', '''                                stream.pending_send.push_front(buffer, frame.into());

                                continue;
                            }

                            // Only send up to the max frame length''', '''                            }

                            // Only send up to the max frame length''')])
mutant('C02-R5-window-decrease-not-applied', ['C02'], ['C02.R5|delta|decrease'],
       'a lowered SETTINGS_INITIAL_WINDOW_SIZE is stored but not subtracted from open streams',
       [(S + 'send.rs', '''                        stream
                            .send_flow
                            .dec_send_window(dec)
                            .map_err(proto::Error::library_go_away)?;
''', '')])
mutant('C16-R1-reclaim-leaks-connection-window', ['C16'], ['C16.R1|take-back|proto::streams::prioritize::Prioritize::reclaim_reserved_capacity'],
       'reclaim_reserved_capacity takes capacity from the stream without handing it to the connection (0.4.14 leak)',
       [(S + 'prioritize.rs', '''                .expect("window size should be greater than reserved");

            self.assign_connection_capacity(reserved, stream, counts);''', '''                .expect("window size should be greater than reserved");
            let _ = counts;''')])
mutant('C16-R2-capacity-for-pending-open', ['C16'], ['C16.R2|grant|not-pending-open'],
       'streams waiting to be opened are granted connection capacity (0.4.13 starvation)',
       [(S + 'prioritize.rs', '''        if stream.is_pending_open {
            return;
        }

        let total_requested''', '''        let total_requested''')])
mutant('C16-R3-trailers-keep-capacity', ['C16'], ['C16.R3|reclaim|proto::streams::send::Send::send_trailers'],
       'send_trailers closes the send half without returning reserved capacity',
       [(S + 'send.rs', '''        // Release any excess capacity
        self.prioritize.reserve_capacity(0, stream, counts);
''', '')])
mutant('C16-R4-poll-capacity-zero', ['C16'], ['C16.R4|nonzero'],
       'poll_capacity can report Ready(Some(Ok(0))) (0.4.15 fix reverted)',
       [(S + 'send.rs', '''        if capacity == 0 {
            stream.wait_send(cx);
            return Poll::Pending;
        }

        Poll::Ready(Some(Ok(capacity)))''', '''        Poll::Ready(Some(Ok(capacity)))''')])

# ---------------------------------------------------------------- C05
mutant('C05-R3-pop-frame-skips-transition-after', ['C05', 'C19'], ['C05.R3|site|proto::streams::prioritize::Prioritize::pop_frame'],
       'pop_frame returns the popped frame without transition_after: a stream whose last frame was sent is never released',
       [(S + 'prioritize.rs', '''                    counts.transition_after(stream, is_pending_reset);

                    return Some(frame);''', '''                    let _ = is_pending_reset;
                    return Some(frame);''')])
mutant('C05-R3-clear-pending-open-skips-transition', ['C05'], ['C05.R3|site|proto::streams::prioritize::Prioritize::clear_pending_open'],
       'clear_pending_open pops streams at EOF without transition_after',
       [(S + 'prioritize.rs', '''        while let Some(stream) = self.pending_open.pop(store) {
            let is_pending_reset = stream.is_pending_reset_expiration();
            counts.transition_after(stream, is_pending_reset);
        }''', '''        while let Some(stream) = self.pending_open.pop(store) {
            let _ = (&stream, &counts);
        }''')])
mutant('C05-R2-double-count-on-interim', ['C05'], ['C05.R2|recv_headers|not-yet-counted'],
       'a pushed stream is counted again for every interim response (0.4.16 fix reverted)',
       [(S + 'recv.rs', '''        if is_initial && !stream.is_counted {''', '''        if is_initial {''')])
mutant('C05-R4-over-limit-stream-accepted', ['C05', 'C18'], ['R4|open|some-guarded', 'C18.R3|open'],
       'Recv::open returns Some(id) although the concurrency limit is reached (refusal recorded but stream still created)',
       [(S + 'recv.rs', '''            self.refused = Some(id);
            return Ok(None);''', '''            self.refused = Some(id);''')])

# ---------------------------------------------------------------- C04 / C09
mutant('C04-R1-headers-after-final-response', ['C04'], ['C04.R1|send_open'],
       'State::send_open accepts a second HEADERS on an open stream whose response head was already sent',
       [(S + 'state.rs', '''            Open {
                local: AwaitingHeaders,
                remote,
            } => {
                if eos {
                    HalfClosedLocal(remote)''', '''            Open { remote, .. } => {
                if eos {
                    HalfClosedLocal(remote)''')])
mutant('C04-R4-reset-drops-unsent-headers', ['C04', 'C17'], ['C04.R4|clear_queue|guard'],
       'send_reset clears the queue of a stream whose HEADERS are still unsent: RST_STREAM on an idle stream (0.4.15)',
       [(S + 'send.rs', '''        if !stream.is_pending_open {
            // Otherwise, drop any buffered DATA/HEADERS and only send the
            // reset.''', '''        {
            // Otherwise, drop any buffered DATA/HEADERS and only send the
            // reset.''')])
mutant('C04-R2-stream-id-step', ['C04'], ['C04.R2|next_id|value'],
       'StreamId::next_id returns an id of the wrong parity',
       [('src/frame/stream_id.rs', '''            Ok(StreamId(next))''', '''            Ok(StreamId(next - 1))''')])
mutant('C09-R1-recv-close-from-reserved', ['C09'], ['C09.R1|recv_close'],
       'State::recv_close accepts END_STREAM in half-closed(remote)',
       [(S + 'state.rs', '''            HalfClosedLocal(..) => {
                tracing::trace!("recv_close: HalfClosedLocal => Closed");''', '''            HalfClosedLocal(..) | HalfClosedRemote(..) => {
                tracing::trace!("recv_close: HalfClosedLocal => Closed");''')])
mutant('C09-R2-malformed-becomes-conn-error', ['C09', 'C13'], ['C09.R2|malformed'],
       'a malformed CONTINUATION header block tears down the connection instead of the stream',
       [('src/codec/framed_read.rs', '''                    proto_err!(stream: "malformed CONTINUATION frame; stream={:?}", id);
                    return Err(Error::library_reset(id, Reason::PROTOCOL_ERROR));''', '''                    proto_err!(stream: "malformed CONTINUATION frame; stream={:?}", id);
                    return Err(Error::library_go_away(Reason::PROTOCOL_ERROR));''')])
mutant('C09-R3-ping-on-stream-accepted', ['C09'], ['C09.R3|polarity|Ping'],
       'PING on a non-zero stream is accepted',
       [('src/frame/ping.rs', '''        if !head.stream_id().is_zero() {
            return Err(Error::InvalidStreamId);
        }
''', '''''')])
mutant('C09-R5-unknown-setting-rejected', ['C09'], ['C09.R5|unknown-setting'],
       'an unknown SETTINGS identifier is a connection error instead of being ignored',
       [('src/frame/settings.rs', '''                None => {}
            }
        }''', '''                None => return Err(Error::InvalidSettingValue),
            }
        }''')])
mutant('C09-R4-reset-on-pending-open-tolerated', ['C09'], ['C09.R4|pending-open-is-idle|recv_reset'],
       'RST_STREAM for a stream whose HEADERS are still unsent is processed instead of being a connection error (0.4.15)',
       [(S + 'streams.rs', '''        if stream.is_pending_open {
            proto_err!(conn: "recv_reset: received frame on idle stream {:?}", id);
            return Err(Error::library_go_away(Reason::PROTOCOL_ERROR));
        }
''', '''''')])

# ---------------------------------------------------------------- C13
mutant('C13-R2-send-filter-misses-upgrade', ['C13'], ['C13.R2|send|names'],
       'the send-side filter no longer refuses the upgrade header',
       [(S + 'send.rs', '''            || fields.contains_key(http::header::UPGRADE)
''', '''''')])
mutant('C13-R4-content-length-padded', ['C13'], ['C13.R4|data|amount'],
       'content-length is decremented by the padded length',
       [(S + 'recv.rs', '''        if stream.dec_content_length(frame.payload().len()).is_err() {''', '''        if stream.dec_content_length(frame.flow_controlled_len()).is_err() {''')])
mutant('C13-R4-short-body-accepted', ['C13'], ['C13.R4|data|eos-zero'],
       'a body ending short of its content-length is reported as a clean end',
       [(S + 'recv.rs', '''            if stream.ensure_content_length_zero().is_err() {
                proto_err!(stream:
                    "recv_data: content-length underflow; stream={:?}; len={:?}",
                    stream.id,
                    frame.payload().len(),
                );
                return Err(Error::library_reset(stream.id, Reason::PROTOCOL_ERROR));
            }
''', '''''')])
mutant('C13-R5-repeated-pseudo-accepted', ['C13'], ['C13.R5|load|repeat'],
       'a repeated pseudo-header field overwrites the first instead of being malformed',
       [('src/frame/headers.rs', '''                } else if self.pseudo.$field.is_some() {
                    tracing::trace!("load_hpack; header malformed -- repeated pseudo");
                    malformed = true;
                } else {''', '''                } else {''')])
mutant('C13-R1-status-in-request-accepted', ['C13'], ['C13.R1|request'],
       'a request carrying :status is delivered',
       [('src/server.rs', '''        if pseudo.status.is_some() {
            malformed!("malformed headers: :status field on request");
        }
''', '''''')])

# ---------------------------------------------------------------- C15 / C17 / C18 / C19 / C01
mutant('C15-R1-goaway-wrong-id', ['C15'], ['C15.R1|id|'],
       'go_away_now advertises StreamId::MAX instead of the last processed id (streams the peer thinks were processed are dropped)',
       [('src/proto/connection.rs', '''    fn go_away_now(&mut self, e: Reason) {
        let last_processed_id = self.streams.last_processed_id();''', '''    fn go_away_now(&mut self, e: Reason) {
        let last_processed_id = self.streams.last_processed_id().next_id().unwrap_or(StreamId::MAX);''')])
mutant('C15-R2-goaway-fails-remote-streams', ['C15'], ['C15.R2|only-local-above'],
       'a received GOAWAY also fails peer-initiated streams above the id (0.4.14 fix reverted)',
       [(S + 'streams.rs', '''            if stream.id > last_stream_id && peer.is_local_init(stream.id) {''', '''            if stream.id > last_stream_id {''')])
mutant('C15-R3-headers-after-goaway-processed', ['C15'], ['C15.R3|cutoff|recv_headers'],
       'HEADERS above the GOAWAY cut-off are processed',
       [(S + 'streams.rs', '''        if id > self.actions.recv.max_stream_id() {
            tracing::trace!(
                "id ({:?}) > max_stream_id ({:?}), ignoring HEADERS",
                id,
                self.actions.recv.max_stream_id()
            );
            return Ok(());
        }
''', '''''')])
mutant('C15-R5-our-reason-preferred', ['C15'], ['C15.R5'],
       'the connection result reports Ok although the peer sent an error GOAWAY',
       [('src/proto/connection.rs', '''            (Reason::NO_ERROR, Reason::NO_ERROR) => Ok(()),''', '''            (Reason::NO_ERROR, _) => Ok(()),''')])
mutant('C17-R2-drop-sends-no-error', ['C17'], ['C17.R2|maybe_cancel|no_error-guard'],
       'a dropped client stream is reset with NO_ERROR instead of CANCEL',
       [(S + 'streams.rs', '''        let reason = if counts.peer().is_server()
            && stream.state.is_send_closed()
            && stream.state.is_recv_streaming()''', '''        let reason = if stream.state.is_send_closed()
            && stream.state.is_recv_streaming()''')])
mutant('C17-R3-no-error-reset-discards-data', ['C17'], ['C17.R3|discard|not-no_error'],
       'a NO_ERROR scheduled reset discards the queued response body',
       [(S + 'prioritize.rs', '''                                if reason != Reason::NO_ERROR {
                                    stream.pending_send.push_front(buffer, frame.into());''', '''                                if reason != Reason::CANCEL || true {
                                    stream.pending_send.push_front(buffer, frame.into());''')])
mutant('C17-R1-double-reset', ['C17'], ['C17.R1|site|send_reset'],
       'send_reset no longer checks is_reset: a second explicit reset emits a second RST_STREAM',
       [(S + 'send.rs', '''        if is_reset {
            // Don't double reset
            tracing::trace!(
                " -> not sending RST_STREAM ({:?} is already reset)",
                stream_id
            );
            return;
        }
''', '''''')])
mutant('C18-R1-remote-reset-limit-ignored', ['C18'], ['C18.R1|inc|inc_num_remote_reset_streams'],
       'remotely reset pending-accept streams are counted without limit test',
       [(S + 'recv.rs', '''            if counts.can_inc_num_remote_reset_streams() {
                counts.inc_num_remote_reset_streams();
            } else {''', '''            if counts.max_remote_reset_streams() > 0 {
                counts.inc_num_remote_reset_streams();
            } else {''')])
mutant('C18-R2-continuation-limit-stale', ['C18'], ['C18.R2|continuation|setter|set_max_header_list_size'],
       'set_max_header_list_size no longer recomputes the CONTINUATION limit',
       [('src/codec/framed_read.rs', '''        self.max_header_list_size = val;
        // Update max CONTINUATION frames too, since its based on this
        self.max_continuation_frames = calc_max_continuation_frames(val, self.max_frame_size());''', '''        self.max_header_list_size = val;''')])
mutant('C18-R2-headermap-append-panics', ['C18'], ['C18.R2|headermap|try_append'],
       'HeaderBlock::load uses the panicking HeaderMap::append (0.4.15 fix reverted)',
       [('src/frame/headers.rs', '''                            if let Err(_) = self.fields.try_append(name, value) {
                                // HeaderMap capacity exceeded — treat as over-size
                                // so the stream is rejected downstream (RST_STREAM / 431)
                                // instead of panicking on the 24,577th unique header.
                                self.is_over_size = true;
                            }''', '''                            self.fields.append(name, value);''')])
mutant('C18-R1-budget-charged-for-end-stream', ['C18'], ['C18.R1|budget|not-end-stream'],
       'final DATA frames are charged against the small-frame budget (0.4.17 fix reverted)',
       [(S + 'streams.rs', '''            if res.is_ok() && !is_end_stream {''', '''            if res.is_ok() {''')])
mutant('C19-R1-released-ignores-window-update-queue', ['C19'], ['C19.R1|released|NextWindowUpdate'],
       'Stream::is_released no longer checks is_pending_window_update: a stream can be freed while linked in that queue',
       [(S + 'stream.rs', '''            !self.is_pending_accept && !self.is_pending_window_update &&''', '''            !self.is_pending_accept &&''')])
mutant('C19-R4-index-without-id-check', ['C19'], ['C19.R4|index|index_mut'],
       'IndexMut for Store no longer verifies the stream id of the slab entry (stale keys alias a new stream)',
       [(S + 'store.rs', '''            .get_mut(key.index.0 as usize)
            .filter(|s| s.id == key.stream_id)''', '''            .get_mut(key.index.0 as usize)''')])
mutant('C19-R5-clone-without-refs', ['C19'], ['C19.R5|refs|inc|clone'],
       'OpaqueStreamRef::clone does not increment Inner.refs: the client closes while a cloned handle is alive',
       [(S + 'streams.rs', '''        inner.refs += 1;

        OpaqueStreamRef {''', '''        OpaqueStreamRef {''')])
mutant('C19-R6-idle-client-never-closes', ['C19'], ['C19.R6'],
       'the idle client no longer sends GOAWAY when the last reference is gone',
       [('src/proto/connection.rs', '''        if !self.inner.streams.has_streams_or_other_references() {
            self.inner.as_dyn().go_away_now(Reason::NO_ERROR);
        }''', '''''')])
mutant('C01-R1-end-stream-lost-on-reclaim', ['C01'], ['C01.R1|reclaim'],
       'a reclaimed DATA tail loses its END_STREAM flag',
       [(S + 'prioritize.rs', '''            if eos {
                frame.set_end_stream(true);
            }
''', '''            let _ = eos;
''')])
mutant('C01-R2-data-requeued-at-back', ['C01'], ['C01.R2|append|pending_send|proto::streams::prioritize::Prioritize::pop_frame'],
       'a DATA frame that cannot be sent yet is put at the BACK of the stream queue (re-ordering)',
       [(S + 'prioritize.rs', '''                            if len > 0 && len > stream.send_flow.window_size() {
                                stream.pending_send.push_front(buffer, frame.into());''', '''                            if len > 0 && len > stream.send_flow.window_size() {
                                stream.pending_send.push_back(buffer, frame.into());''')])
mutant('C01-R3-poll-data-drops-trailers', ['C01'], ['C01.R3|reader|proto::streams::recv::Recv::poll_data'],
       'poll_data pops a trailers event and drops it instead of putting it back',
       [(S + 'recv.rs', '''                // Frame is trailer
                stream.pending_recv.push_front(&mut self.buffer, event);
''', '''                // Frame is trailer
                let _ = event;
''')])

# ---------------------------------------------------------------- C08.R3
mutant('C08-R3-reset-length-check-dropped', ['C08', 'C12'], ['C08.R3|unreviewed|frame::reset::Reset::load'],
       'Reset::load no longer checks the payload length: a short RST_STREAM panics the connection task',
       [('src/frame/reset.rs', '''        if payload.len() != 4 {
            return Err(Error::InvalidPayloadLength);
        }
''', '''''')])
mutant('C08-R3-goaway-length-check-weakened', ['C08'], ['C08.R3|unreviewed|frame::go_away::GoAway::load'],
       'GoAway::load accepts payloads of 4..8 bytes: indexing the error code panics',
       [('src/frame/go_away.rs', '''        if payload.len() < 8 {''', '''        if payload.len() < 4 {''')])
mutant('C08-R3-padding-check-off-by-one', ['C08'], ['C08.R3|unreviewed|frame::util::strip_padding'],
       'strip_padding accepts pad_len == payload_len: payload_len - pad_len - 1 underflows',
       [('src/frame/util.rs', '''    if pad_len >= payload_len {''', '''    if pad_len > payload_len {''')])
mutant('C08-R3-new-unwrap-on-peer-data', ['C08'], ['C08.R3|unreviewed|frame::window_update::WindowUpdate::load'],
       'WindowUpdate::load unwraps a conversion of peer data',
       [('src/frame/window_update.rs', '''        if size_increment == 0 {
            return Err(Error::InvalidWindowUpdateValue);
        }''', '''        let size_increment = std::num::NonZeroU32::new(size_increment).unwrap().get();''')])

# ---------------------------------------------------------------- C10 / C11 structural
mutant('C11-R4-literal-prefix-swapped', ['C11', 'C10'], ['decoder-prefix|decode_literal|flag'],
       'decode_literal reads indexed literals with a 4-bit prefix and the others with 6',
       [(H + 'decoder.rs', 'let prefix = if index { 6 } else { 4 };', 'let prefix = if index { 4 } else { 6 };')],)
mutant('C11-R4-representation-mask', ['C11', 'C10'], ['R4|repr|', 'C10.R2|repr|'],
       'Representation::load classifies 0001xxxx (never indexed) bytes as size updates',
       [(H + 'decoder.rs', 'const LITERAL_NEVER_INDEXED: u8 = 0b0001_0000;', 'const LITERAL_NEVER_INDEXED: u8 = 0b0011_0000;')])
mutant('C10-R2-size-update-prefix', ['C10'], ['C10.R2|encoder-prefix|encode_size_update'],
       'the encoder writes dynamic-table size updates with a 4-bit prefix',
       [(H + 'encoder.rs', 'encode_int(val, 5, 0b0010_0000, dst)', 'encode_int(val, 4, 0b0010_0000, dst)')])
mutant('C10-R3-size-update-after-fields', ['C10'], ['C10.R3|size-update|first'],
       'a table size reduction is signalled after the fields of the block',
       [(H + 'encoder.rs', '''        self.encode_size_updates(dst);

        let mut last_index = None;
''', '''        let mut last_index = None;
'''), (H + 'encoder.rs', '''                        dst,
                    );
                }
            }
        }
    }

    fn encode_size_updates''', '''                        dst,
                    );
                }
            }
        }
        self.encode_size_updates(dst);
    }

    fn encode_size_updates''')])
mutant('C10-R3-sensitive-value-indexed', ['C10'], ['C10.R2|sensitive|encode_not_indexed'],
       'sensitive header values are written as plain literals without indexing instead of never-indexed',
       [(H + 'encoder.rs', '''    if sensitive {
        encode_int(name, 4, 0b10000, dst);
    } else {''', '''    if sensitive && name == 0 {
        encode_int(name, 4, 0b10000, dst);
    } else {''')])
mutant('C11-R5-consume-before-decode', ['C11'], ['C11.R5|resume|decode_indexed'],
       'the Indexed arm consumes the input before the field was decoded: a short read loses bytes',
       [(H + 'decoder.rs', '''                    let entry = self.decode_indexed(src)?;
                    consume(src);''', '''                    consume(src);
                    let entry = self.decode_indexed(src)?;''')])
mutant('C11-R4-size-update-mid-block', ['C11'], ['C11.R4|size-update|field-clears-flag'],
       'a never-indexed literal does not end the window in which table size updates are allowed',
       [(H + 'decoder.rs', '''                    tracing::trace!(rem = src.remaining(), kind = %"LiteralNeverIndexed");
                    can_resize = false;''', '''                    tracing::trace!(rem = src.remaining(), kind = %"LiteralNeverIndexed");''')])
mutant('C11-R2-huffman-accepts-truncated-symbol', ['C11'], ['C11.R4|huffman|complete-symbol'],
       'huffman::decode returns Ok although a symbol is half decoded',
       [(H + 'huffman/mod.rs', '''    if table == 0 {
        Ok(buf.split())
    } else {
        Err(DecoderError::InvalidHuffmanCode)
    }''', '''    let _ = table;
    Ok(buf.split())''')])
mutant('C11-R6-eviction-without-accounting', ['C11'], ['C11.R6|table|evict|reserve'],
       'the decoder table evicts entries without decreasing its size',
       [(H + 'decoder.rs', '''            match self.entries.pop_back() {
                Some(last) => {
                    self.size -= last.len();
                }
                None => return,
            }
        }
    }''', '''            match self.entries.pop_back() {
                Some(_last) => {}
                None => return,
            }
        }
    }''')])

# ---------------------------------------------------------------- rules added from seeded changes (second batch)
mutant('C14-R7-pong-not-restored-under-backpressure', ['C14'], ['C14.R7|no-loss|pending_pong'],
       'send_pending_pong forgets the owed PONG when the codec is not ready',
       [('src/proto/ping_pong.rs', '''            if !dst.poll_ready(cx)?.is_ready() {
                self.pending_pong = Some(pong);
                return Poll::Pending;
            }

            dst.buffer(Ping::pong(pong).into())''', '''            if !dst.poll_ready(cx)?.is_ready() {
                let _ = pong;
                return Poll::Pending;
            }

            dst.buffer(Ping::pong(pong).into())''')])
mutant('C14-R7-settings-slot-taken-before-ready', ['C14'], ['C14.R7|no-loss|remote'],
       'Settings::poll_send empties the slot before the codec accepted the ACK',
       [('src/proto/settings.rs', '''        if let Some(settings) = self.remote.clone() {''', '''        if let Some(settings) = self.remote.take() {''')])

# ---------------------------------------------------------------- boundary census (RB): off-by-one at reviewed comparisons
mutant('RB-C05-recv-limit-off-by-one', ['C05'], ['C05.RB|boundary|counts::Counts::can_inc_num_recv_streams'],
       'one peer stream over the advertised limit is admitted',
       [(S + 'counts.rs', 'self.max_recv_streams > self.num_recv_streams', 'self.max_recv_streams >= self.num_recv_streams')])
mutant('RB-C03-stream-window-off-by-one', ['C03', 'C09'], ['RB|boundary|recv::Recv::recv_data'],
       'DATA that exactly fills the stream window is treated as a flow-control error',
       [(S + 'recv.rs', 'if stream.recv_flow.window_size() < sz {', 'if stream.recv_flow.window_size() <= sz {')])
mutant('RB-C15-cutoff-off-by-one', ['C15'], ['C15.RB|boundary|streams::Inner::recv_headers'],
       'HEADERS for the stream equal to the GOAWAY cut-off are ignored',
       [(S + 'streams.rs', '''        if id > self.actions.recv.max_stream_id() {
            tracing::trace!(
                "id ({:?}) > max_stream_id ({:?}), ignoring HEADERS",''', '''        if id >= self.actions.recv.max_stream_id() {
            tracing::trace!(
                "id ({:?}) > max_stream_id ({:?}), ignoring HEADERS",''')])
mutant('RB-C18-small-frame-threshold-mismatch', ['C18'], ['C18.RB|boundary|counts::Counts::release_data_frame'],
       'release_data_frame classifies a 256-byte frame differently from record_data_frame',
       [(S + 'counts.rs', '''    pub fn release_data_frame(&mut self, payload_len: usize) {
        if payload_len != 0 && payload_len < DEFAULT_DATA_FRAME_OVERHEAD_THRESHOLD {''', '''    pub fn release_data_frame(&mut self, payload_len: usize) {
        if payload_len != 0 && payload_len <= DEFAULT_DATA_FRAME_OVERHEAD_THRESHOLD {''')])
mutant('RB-C16-reclaim-reserved-off-by-one', ['C16'], ['C16.RB|boundary|prioritize::Prioritize::reclaim_reserved_capacity'],
       'reclaim_reserved_capacity runs with nothing to reclaim',
       [(S + 'prioritize.rs', 'if stream.send_flow.available().as_size() as usize > stream.buffered_send_data {', 'if stream.send_flow.available().as_size() as usize >= stream.buffered_send_data {')])
mutant('RB-C12-payload-limit-off-by-one', ['C12'], ['C12.RB|boundary|codec::framed_write::Encoder::buffer'],
       'a DATA payload of exactly max_frame_size is refused',
       [('src/codec/framed_write.rs', 'if len > self.max_frame_size() {', 'if len >= self.max_frame_size() {')])
mutant('RB-C11-size-update-off-by-one', ['C11', 'C10'], ['RB|boundary|hpack::decoder::Decoder::process_size_update'],
       'a table size update equal to the advertised maximum is rejected',
       [('src/hpack/decoder.rs', 'if new_size > self.last_max_update {', 'if new_size >= self.last_max_update {')])
mutant('RB-C10-prefix-fit-off-by-one', ['C10'], ['C10.RB|boundary|hpack::encoder::encode_int_one_byte'],
       'the value 2^N-1 is encoded in one byte (RFC 7541 5.1 requires a continuation)',
       [('src/hpack/encoder.rs', 'value < (1 << prefix_bits) - 1', 'value <= (1 << prefix_bits) - 1')])

# ---------------------------------------------------------------- amount census (RA): wrong-variable edits
mutant('RA-C03-credit-payload-instead-of-flow-controlled', ['C03'], ['C03.RA|amount|streams::Inner::recv_data::{closure#0}|recv::Recv::release_connection_capacity'],
       'a stream error after the charge credits back only the unpadded payload length',
       [(S + 'streams.rs', '''                    .release_connection_capacity(sz as WindowSize, &mut None);
            }
            actions.reset_on_recv_stream_err''', '''                    .release_connection_capacity(payload_len as WindowSize, &mut None);
            }
            actions.reset_on_recv_stream_err''')])
mutant('RA-C13-content-length-counts-padding', ['C13'], ['C13.RA|amount|recv::Recv::recv_data|stream::Stream::dec_content_length', 'C13.R4|data|amount'],
       'content-length is decremented by the flow-controlled length (padding included)',
       [(S + 'recv.rs', 'stream.dec_content_length(frame.payload().len())', 'stream.dec_content_length(frame.flow_controlled_len())')])
mutant('RA-C16-reclaim-reserved-returns-all', ['C16'], ['C16.RA|amount|prioritize::Prioritize::reclaim_reserved_capacity'],
       'reclaim_reserved_capacity hands back the capacity backing buffered DATA as well',
       [(S + 'prioritize.rs', '''            let reserved =
                stream.send_flow.available().as_size() - stream.buffered_send_data as WindowSize;''', '''            let reserved = stream.send_flow.available().as_size();''')])

# ---------------------------------------------------------------- error discipline (RD), direction words / namesakes (RL), Stream::new (RN)
mutant('RD-C09-recv-data-error-dropped', ['C09'], ['C09.RD|errdisc|proto::connection::DynConnection::recv_frame'],
       'the connection ignores what Streams::recv_data reports (a connection error is no longer acted on)',
       [('src/proto/connection.rs', 'self.streams.recv_data(frame)?;', 'let _ = self.streams.recv_data(frame);')])
mutant('RD-C03-settings-window-overflow-dropped', ['C03', 'C13'], ['RD|errdisc|proto::streams::recv::Recv::apply_local_settings'],
       'apply_local_settings: an overflowing window increase is swallowed with .ok()',
       [(S + 'recv.rs', '''                            .inc_window(inc)
                            .map_err(proto::Error::library_go_away)?;''', '''                            .inc_window(inc)
                            .map_err(proto::Error::library_go_away).ok();''')])
mutant('RD-C18-decode-frame-error-dropped', ['C18'], ['C18.RD|errdisc'],
       'Codec::buffer error from start_send is dropped',
       [('src/codec/mod.rs', 'Codec::buffer(&mut self, item)?;', 'let _ = Codec::buffer(&mut self, item);')])
mutant('RL-direction-current-max-send', ['C05'], ['C05.RL|direction|proto::streams::streams::Streams::current_max_send_streams'],
       'Streams::current_max_send_streams reports the receive-side limit',
       [(S + 'streams.rs', '''    pub fn current_max_send_streams(&self) -> usize {
        let me = self.inner.lock().unwrap();
        me.counts.max_send_streams()''', '''    pub fn current_max_send_streams(&self) -> usize {
        let me = self.inner.lock().unwrap();
        me.counts.max_recv_streams()''')])
mutant('RL-direction-available-recv-capacity', ['C03'], ['C03.RL|direction|proto::streams::streams::OpaqueStreamRef::available_recv_capacity'],
       'available_recv_capacity reads the send window',
       [(S + 'streams.rs', 'stream.recv_flow.available().into()', 'stream.send_flow.available().into()')])
mutant('RL-namesake-is-pending-open', ['C05'], ['C05.RL|namesake|proto::streams::streams::StreamRef::is_pending_open'],
       'StreamRef::is_pending_open answers is_pending_send',
       [(S + 'streams.rs', 'me.store.resolve(self.opaque.key).is_pending_open', 'me.store.resolve(self.opaque.key).is_pending_send')])
mutant('RN-stream-new-windows-crossed', ['C03', 'C02'], ['RN|stream-new|inc_window'],
       'Stream::new credits the send flow with the initial receive window',
       [(S + 'stream.rs', '''        recv_flow
            .inc_window(init_recv_window)''', '''        send_flow
            .inc_window(init_recv_window)'''),
        (S + 'stream.rs', '''        send_flow
            .inc_window(init_send_window)''', '''        recv_flow
            .inc_window(init_send_window)''')])

# ---------------------------------------------------------------- predicate census (RP), guard outcomes (RG polarity), flag tables
mutant('RP-C19-is-released-ref-count-inverted', ['C19'], ['C19.RP|predicate|stream::Stream::is_released'],
       'Stream::is_released holds while handles still exist',
       [(S + 'stream.rs', '''            self.ref_count == 0 &&
            // The stream is not in any queue''', '''            self.ref_count != 0 &&
            // The stream is not in any queue''')])
mutant('RP-C05-has-streams-and', ['C05', 'C19'], ['RP|predicate|counts::Counts::has_streams'],
       'Counts::has_streams requires streams in both directions',
       [(S + 'counts.rs', 'self.num_send_streams != 0 || self.num_recv_streams != 0', 'self.num_send_streams != 0 && self.num_recv_streams != 0')])
mutant('RP-C02-has-unavailable-boundary', ['C02', 'C16'], ['RP|predicate|flow_control::FlowControl::has_unavailable'],
       'has_unavailable is true when window == available',
       [(S + 'flow_control.rs', 'self.window_size > self.available', 'self.window_size >= self.available')])
mutant('RG-C14-settings-length-test-inverted', ['C14', 'C12'], ['RG|guard|frame::settings::Settings::load|err'],
       'Settings::load rejects payloads whose length IS a multiple of six',
       [('src/frame/settings.rs', 'if payload.len() % 6 != 0 {', 'if payload.len() % 6 == 0 {')])
mutant('RG-C09-window-update-zero-test-inverted', ['C09', 'C12'], ['RG|guard|frame::window_update::WindowUpdate::load|err'],
       'WINDOW_UPDATE with a non-zero increment is rejected, zero is accepted',
       [('src/frame/window_update.rs', 'if size_increment == 0 {', 'if size_increment != 0 {')])
mutant('R11-C12-end-headers-predicate-inverted', ['C12', 'C09'], ['flag|HeadersFlag::is_end_headers'],
       'HeadersFlag::is_end_headers is inverted',
       [('src/frame/headers.rs', '''    pub fn is_end_headers(&self) -> bool {
        self.0 & END_HEADERS == END_HEADERS
    }

    pub fn set_end_headers(&mut self) {
        self.0 |= END_HEADERS;
    }

    pub fn is_padded(&self) -> bool {
        self.0 & PADDED == PADDED
    }

    pub fn is_priority''', '''    pub fn is_end_headers(&self) -> bool {
        self.0 & END_HEADERS != END_HEADERS
    }

    pub fn set_end_headers(&mut self) {
        self.0 |= END_HEADERS;
    }

    pub fn is_padded(&self) -> bool {
        self.0 & PADDED == PADDED
    }

    pub fn is_priority''')])
mutant('R9-C04-server-initiated-parity', ['C04', 'C09'], ['stream-id|is_server_initiated'],
       'StreamId::is_server_initiated accepts odd identifiers',
       [('src/frame/stream_id.rs', 'id != 0 && id % 2 == 0', 'id != 0 && id % 2 != 0')])

# ---------------------------------------------------------------- F11 revert
mutant('F11-revert-recv-reset-ignores-scheduled-reset', ['C05', 'C19', 'C01', 'C09'], ['recv_reset|Closed(ScheduledLibraryReset(?))|queued=false'],
       'State::recv_reset ignores RST_STREAM for a stream whose own reset is only scheduled and that is not in pending_send (F11 before the fix)',
       [(S + 'state.rs', 'Closed(ref cause) if !queued && !matches!(cause, Cause::ScheduledLibraryReset(..)) => {}', 'Closed(..) if !queued => {}')])

mutant('C14-R6-ping-ack-polarity', ['C14'], ['C14.R6|load|ack-table'],
       'Ping::load takes every PING without ACK for an acknowledgement and vice versa',
       [('src/frame/ping.rs', 'let ack = head.flag() & ACK_FLAG != 0;', 'let ack = head.flag() & ACK_FLAG == 0;')])

# ---------------------------------------------------------------- late additions (fifth wave, campaign regressions)
mutant('C11-R6-oversized-insert-keeps-table', ['C11'], ['C11.R6|table|evict-until-fits|reserve'],
       'decoder Table::reserve returns early for an entry that can never fit: the table is no longer emptied (RFC 7541 section 4.4)',
       [('src/hpack/decoder.rs', '''    fn reserve(&mut self, size: usize) {
        while self.size + size > self.max_size {''', '''    fn reserve(&mut self, size: usize) {
        if size > self.max_size {
            return;
        }
        while self.size + size > self.max_size {''')])

mutant('C11-R4-prefix-equal-mask-is-complete', ['C11'], ['C11.R4|int|prefix-below-mask'],
       'decode_int takes a prefix equal to the all-ones mask for a complete value',
       [('src/hpack/decoder.rs', 'if ret < mask as usize {', 'if ret <= mask as usize {')])

mutant('RG-flip-content-length-limit', ['C13'], ['C13.RG|guard|frame::headers::parse_u64|err'],
       'parse_u64 rejects short digit strings and accepts the over-long ones: an inverted test whose two exits could be explained as "merged"',
       [('src/frame/headers.rs', 'if src.len() > 19 {', 'if !(src.len() > 19) {')])

mutant('RG-flip-empty-data-budget', ['C18'], ['C18.RG|guard|counts::Counts::record_data_frame|err'],
       'the empty-DATA budget refuses frames while it is NOT exhausted: an inverted test next to an ok_or combinator',
       [(S + 'counts.rs', 'if self.num_recv_empty_data_frames > MAX_RECV_EMPTY_DATA_FRAMES {', 'if !(self.num_recv_empty_data_frames > MAX_RECV_EMPTY_DATA_FRAMES) {')])

mutant('RG-one-of-four-breaks-inverted', ['C11'], ['C11.RG|guard|hpack::decoder::Decoder::decode|'],
       'one of the four `if f(entry).is_break() { break }` arms of Decoder::decode is turned around',
       [('src/hpack/decoder.rs', '''                    let entry = self.decode_indexed(src)?;
                    consume(src);
                    if f(entry).is_break() {''', '''                    let entry = self.decode_indexed(src)?;
                    consume(src);
                    if !f(entry).is_break() {''')])

mutant('C09-R14-preface-polarity', ['C09'], ['C09.R14|preface|mismatch-is-error'],
       'the server takes a matching client preface for a protocol error and reads on after a mismatch',
       [('src/server.rs', 'if &PREFACE[self.pos..self.pos + n] != buf.filled() {', 'if &PREFACE[self.pos..self.pos + n] == buf.filled() {')])
