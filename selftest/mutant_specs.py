# mutant specs: mutant(name, [properties], [expected key substrings], what, [(file, old, new)])
S = 'src/proto/streams/'

mutant('C20-lock-order-inversion', ['C20'], ['C20.R1|order'],
       'StreamRef::send_trailers takes the send-buffer lock before the stream-state lock',
       [(S + 'streams.rs',
         '''    pub fn send_trailers(&mut self, trailers: HeaderMap) -> Result<(), UserError> {
        let mut me = self.opaque.inner.lock().unwrap();
        let me = &mut *me;

        let stream = me.store.resolve(self.opaque.key);
        let actions = &mut me.actions;
        let mut send_buffer = self.send_buffer.inner.lock().unwrap();
        let send_buffer = &mut *send_buffer;
''',
         '''    pub fn send_trailers(&mut self, trailers: HeaderMap) -> Result<(), UserError> {
        let mut send_buffer = self.send_buffer.inner.lock().unwrap();
        let send_buffer = &mut *send_buffer;
        let mut me = self.opaque.inner.lock().unwrap();
        let me = &mut *me;

        let stream = me.store.resolve(self.opaque.key);
        let actions = &mut me.actions;
''')])

# ---------------------------------------------------------------- C03
mutant('C03-R1-unobserved-stream-not-credited', ['C03'], ['C03.R1|exit|charged'],
       'Recv::recv_data: the !stream.is_recv early return forgets release_connection_capacity (issue #648 regression)',
       [(S + 'recv.rs', '''            self.release_connection_capacity(sz, &mut None);
            return Ok(());
        }

        // Update stream level flow control''', '''            return Ok(());
        }

        // Update stream level flow control''')])

mutant('C03-R2-stream-error-not-credited', ['C03'], ['C03.R2|caller'],
       'Inner::recv_data: a stream error after the charge is no longer credited back (0.4.14 leak)',
       [(S + 'streams.rs', '''            if let Err(Error::Reset(..)) = res {
                actions
                    .recv
                    .release_connection_capacity(sz as WindowSize, &mut None);
            }
            actions.reset_on_recv_stream_err''', '''            let _ = sz;
            actions.reset_on_recv_stream_err''')])

mutant('C03-R3-data-after-goaway-not-accounted', ['C03'], ['C03.R3|exit|0'],
       'Inner::recv_data: DATA beyond the GOAWAY id is dropped without ignore_data (0.4.14 leak)',
       [(S + 'streams.rs', '''                    let sz = sz as WindowSize;
                    self.actions.recv.ignore_data(sz)?;

                    return Ok(());''', '''                    let _sz = sz as WindowSize;

                    return Ok(());''')])

mutant('C03-R4-release-capacity-skips-connection', ['C03'], ['C03.R4|writer'],
       'Recv::release_capacity decrements the stream in-flight ledger without crediting the connection',
       [(S + 'recv.rs', '''        self.release_connection_capacity(capacity, task);

        // Decrement in-flight data
        stream.in_flight_recv_data -= capacity;''', '''        // Decrement in-flight data
        stream.in_flight_recv_data -= capacity;''')])

mutant('C03-R5-credit-without-padding', ['C03'], ['C03.R2|amount'],
       'Inner::recv_data credits payload length instead of the flow-controlled length on a stream error (padding leak)',
       [(S + 'streams.rs', '''            let sz = frame.flow_controlled_len();
            let is_end_stream = frame.is_end_stream();
            let payload_len = frame.payload().len();
            let mut res''', '''            let sz = frame.payload().len();
            let is_end_stream = frame.is_end_stream();
            let payload_len = frame.payload().len();
            let mut res''')])

mutant('C03-R5-padding-not-released', ['C03'], ['C03.R5|padding'],
       'Recv::recv_data no longer auto-releases the padding overhead (0.4.13)',
       [(S + 'recv.rs', '''        let padding = (frame.flow_controlled_len() - frame.payload().len()) as WindowSize;
        if padding > 0 {''', '''        let padding = (frame.payload().len() - frame.payload().len()) as WindowSize;
        if padding > 0 {''')])

mutant('C03-R6-window-update-not-accounted', ['C03'], ['C03.R6|site'],
       'send_connection_window_update buffers WINDOW_UPDATE without inc_window: the same increment is advertised again',
       [(S + 'recv.rs', '''            // Update flow control
            self.flow
                .inc_window(incr)
                .expect("unexpected flow control state");
        }

        Ok(BufferStatus::Complete)''', '''        }

        Ok(BufferStatus::Complete)''')])

mutant('C03-R7-recvstream-drop-keeps-buffer', ['C03'], ['C03.R7|drop|RecvStream'],
       'Drop for RecvStream no longer clears the receive buffer (0.4.16 fix reverted)',
       [('src/share.rs', '''        self.inner.inner.clear_recv_buffer();
    }
}

// ===== impl FlowControl =====''', '''    }
}

// ===== impl FlowControl =====''')])

mutant('C03-R8-unchecked-window-add', ['C03', 'C02'], ['R8|raw', 'C02.R4|raw'],
       'Window::add uses raw + instead of checked_add',
       [(S + 'flow_control.rs', '''        if let Some(v) = self.0.checked_add(other as i32) {
            Ok(Self(v))
        } else {
            Err(Reason::FLOW_CONTROL_ERROR)
        }''', '''        Ok(Self(self.0 + other as i32))''')])
