#!/usr/bin/python3
"""Generate selftest/mutants/*.patch from replacement specs against /repo's pinned tree.

Each mutant is one small edit that still compiles (and, as far as the baseline suite
goes, still passes) and breaks the structural clause a rule decides.  The patches are
the committed artefacts; this script only saves writing unified diffs by hand.
"""
import difflib
import os
import sys

REPO = os.environ.get('H2_SRC', '/repo')
OUT = os.path.join(os.path.dirname(os.path.abspath(__file__)), 'mutants')

M = []


def mutant(name, props, expect, what, edits, also_ok=()):
    M.append((name, props, expect, what, edits, also_ok))


exec(open(os.path.join(os.path.dirname(os.path.abspath(__file__)), 'mutant_specs.py')).read())


def main():
    os.makedirs(OUT, exist_ok=True)
    only = sys.argv[1:]
    for (name, props, expect, what, edits, also_ok) in M:
        if only and not any(o in name for o in only):
            continue
        chunks = []
        byfile = {}
        for (file, old, new) in edits:
            src = byfile.get(file)
            if src is None:
                src = open(os.path.join(REPO, file)).read()
                byfile.setdefault(file + '@orig', src)
            if src.count(old) != 1:
                print('!! %s: pattern occurs %d times in %s: %r' % (name, src.count(old), file, old[:60]))
                break
            byfile[file] = src.replace(old, new)
        else:
            for file in [f for f in byfile if not f.endswith('@orig')]:
                a = byfile[file + '@orig'].splitlines(True)
                b = byfile[file].splitlines(True)
                chunks.append(''.join(difflib.unified_diff(a, b, 'a/' + file, 'b/' + file, n=3)))
            with open(os.path.join(OUT, name + '.patch'), 'w') as fh:
                fh.write('# property: %s\n# expect: %s\n' % (', '.join(props), ', '.join(expect)))
                if also_ok:
                    fh.write('# also-ok: %s\n' % ', '.join(also_ok))
                fh.write('# what: %s\n' % what)
                fh.write(''.join(chunks))
            print('wrote', name)


main()
