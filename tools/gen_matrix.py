#!/usr/bin/python3
"""Write selftest/MATRIX.md (from out/selftest/mutants.json + patch headers) and seeded/MATRIX.md (from seeded/*/meta.json + history.json)."""
import glob
import json
import os
import re

V = os.path.dirname(os.path.dirname(os.path.abspath(__file__)))


def header(p):
    m = {}
    for line in open(p):
        mm = re.match(r'#\s*(property|expect|what):\s*(.*)$', line)
        if mm:
            m[mm.group(1)] = mm.group(2).strip()
        elif not line.startswith('#'):
            break
    return m


res = {}
p = os.path.join(V, 'out', 'selftest', 'mutants.json')
if os.path.exists(p):
    res = json.load(open(p))
rows = []
for f in sorted(glob.glob(os.path.join(V, 'selftest', 'mutants', '*.patch'))):
    h = header(f)
    name = os.path.basename(f)
    rows.append('| %s | %s | %s | %s | %s |' % (name[:-6], h.get('property', ''), h.get('expect', '').replace('|', '\\|')[:80], h.get('what', '')[:140], res.get(name, 'not run')))
with open(os.path.join(V, 'selftest', 'MATRIX.md'), 'w') as fh:
    fh.write('# Mutant corpus: which rule reports which change\n\n')
    fh.write('`./check selftest mutants -j 12` applies each patch to a scratch copy of /repo under /var/tmp, runs the listed quick checks with H2_SRC pointing at it and requires exit 1 with the expected key. '
             'Status below is from the last full replay (`out/selftest/mutants.json`).\n\n')
    fh.write('%d mutants, %d detected.\n\n' % (len(rows), sum(1 for r in rows if r.endswith('DETECTED |'))))
    fh.write('| mutant | properties | expected key (prefix) | what the change does | status |\n|---|---|---|---|---|\n')
    fh.write('\n'.join(rows) + '\n')

hist = json.load(open(os.path.join(V, 'seeded', 'history.json'))) if os.path.exists(os.path.join(V, 'seeded', 'history.json')) else {}
rows = []
det = {}
p = os.path.join(V, 'out', 'selftest', 'seeded-detail.json')
if os.path.exists(p):
    det = json.load(open(p))
for d in sorted(glob.glob(os.path.join(V, 'seeded', '*', 'meta.json'))):
    m = json.load(open(d))
    dd = det.get(m['id'], {})
    own = sorted(set(k.split('|')[0] for k in dd.get(m['property'], [])))
    other = sorted(set(k.split('|')[0] for pr, ks in dd.items() if pr != m['property'] for k in ks))
    keys = own + (['(also: ' + ', '.join(other) + ')'] if other else [])
    if not own:
        keys = ['**not detected by %s**' % m['property']] + keys
    h = hist.get(m['id'], {})
    rows.append('| %s | %s | %s | %s | %s |' % (m['id'], m.get('title', '')[:110].replace('|', '/'), ', '.join(keys) or '**not detected**', h.get('initially', ''), h.get('then', '')))
with open(os.path.join(V, 'seeded', 'MATRIX.md'), 'w') as fh:
    fh.write('# Seeded changes (written by independent sub-agents from the property text only)\n\n')
    fh.write('Each directory holds `patch.diff`, the demonstration `demo.rs` (fails with the change, passes without; the unedited suite still passes with the change — confirmed by `tools/verify_seed.sh` in a scratch worktree), `notes.md` and `meta.json`. '
             '`./check selftest seeded` replays them. "reported by" is the last full replay over all twenty checks (`out/selftest/seeded-detail.json`): rules of the own property of the change first, rules of other properties in brackets. "initially" is what the checks said the first time the change was applied to /repo (`tools/try_seed.sh`); "then" is what was strengthened.\n\n')
    fh.write('%d changes, %d detected now.\n\n' % (len(rows), sum(1 for r in rows if 'not detected' not in r)))
    fh.write('| id | change | reported by (rules) | initially | then |\n|---|---|---|---|---|\n')
    fh.write('\n'.join(rows) + '\n')
print('matrices written')
