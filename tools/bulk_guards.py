#!/usr/bin/python3
# Table maintenance (run on the REVIEWED tree only): see DESIGN.md 8.6. Reads facts of H2_SRC (default /repo).
import sys, json, collections
sys.path.insert(0,'/verif')
from h2lint import run, core, boundaries
Fs={'dbg':run.facts_for('su-dbg'),'rel':run.facts_for('su-rel')}
F=Fs['dbg']
tab=json.load(open(boundaries.GUARDS))
have=set((e['fn'],e['action']) for e in tab)
FILEMAP={
 'src/proto/streams/prioritize.rs':['C02','C16','C06'],
 'src/proto/streams/recv.rs':['C03','C09','C07'],
 'src/proto/streams/send.rs':['C04','C17','C16'],
 'src/proto/streams/streams.rs':['C09','C19','C06','C07'],
 'src/proto/streams/counts.rs':['C05','C19'],
 'src/proto/streams/flow_control.rs':['C02','C03'],
 'src/proto/streams/stream.rs':['C06','C16','C19'],
 'src/proto/streams/store.rs':['C19','C01'],
 'src/proto/streams/buffer.rs':['C01'],
 'src/proto/streams/state.rs':['C09','C04'],
 'src/proto/streams/mod.rs':['C18'],
 'src/proto/connection.rs':['C07','C15','C06'],
 'src/proto/go_away.rs':['C15'],
 'src/proto/ping_pong.rs':['C14','C06'],
 'src/proto/settings.rs':['C14'],
 'src/proto/peer.rs':['C04','C09'],
 'src/codec/framed_write.rs':['C12','C08'],
 'src/codec/framed_read.rs':['C18','C12'],
 'src/codec/mod.rs':['C12'],
 'src/frame/headers.rs':['C12','C10','C13'],
 'src/frame/data.rs':['C12','C01'],
 'src/frame/go_away.rs':['C12','C15'],
 'src/frame/util.rs':['C12'],
 'src/frame/settings.rs':['C14','C12'],
 'src/frame/ping.rs':['C14','C12'],
 'src/frame/head.rs':['C12'],
 'src/frame/priority.rs':['C12'],
 'src/frame/reset.rs':['C12','C17'],
 'src/frame/window_update.rs':['C12','C02'],
 'src/frame/stream_id.rs':['C04'],
 'src/hpack/decoder.rs':['C11'],
 'src/hpack/encoder.rs':['C10'],
 'src/hpack/header.rs':['C10'],
 'src/client.rs':['C20','C19','C06'],
 'src/server.rs':['C20','C15','C06'],
 'src/share.rs':['C20','C16','C07'],
}
H2=('proto::','frame::','codec::','hpack::','client::','server::','share::')
def is_effect(callee):
    cf=F.fns.get(callee)
    if cf is None: return False
    try: t1=cf.local_ty(1)
    except Exception: return False
    return cf.argc>=1 and str(t1).startswith('&mut ')
new=[]
def add(name, action, props, why):
    if (name,action) in have: return
    have.add((name,action))
    s={}
    for prof,FF in Fs.items():
        ff=FF.fn(name)
        s[prof]=sorted(sorted(core.control_terms(FF,ff,b2)) for b2 in boundaries.action_sites(FF,ff,action)) if ff else []
    if not any(x for x in s['dbg']): return
    new.append({'fn':name,'action':action,'sites':s,'ignore':[],'props':props,'why':why,'required':False,'via_before':[],'bulk':True})
for name,f in sorted(F.fns.items()):
    if '::tests::' in name or '::test::' in name or not name.lstrip('<').startswith(H2) or name.endswith('::fmt'): continue
    props=FILEMAP.get(f.file)
    if not props: continue
    short=name.split('::')[-1] if 'closure' not in name else name.split('::')[-2]+'::{closure}'
    kinds_seen=collections.Counter(k for bi,k in boundaries.error_kind_sites(F,f))
    if len(kinds_seen)>=2:
        for k in sorted(kinds_seen):
            add(name,'errk:'+k,props,'%s raises %s exactly under the reviewed tests and outcomes'%(short,k))
    for bi,t in f.calls(lambda t: t['fn'].lstrip('<').startswith(H2)):
        if t.get('exp') or 'closure' in t['fn'] or not (is_effect(t['fn']) or t['d']==[0]): continue
        owner_m='::'.join(t['fn'].rsplit('::',2)[-2:]) if not t['fn'].startswith('<') else t['fn']
        ga=t['ga'][0].rsplit('::',1)[-1] if (t['ga'] and 'store::Queue' in t['fn']) else None
        add(name,'call:'+owner_m+(('<%s>'%ga) if ga else ''),props,'%s happens in %s exactly under the reviewed tests and outcomes'%(owner_m,short))
    for bi,t in f.calls(lambda t: t['fn'].endswith(('Waker::wake','Waker::wake_by_ref','AtomicWaker::wake','AtomicWaker::register'))):
        if t.get('exp'): continue
        owner_m='::'.join(t['fn'].rsplit('::',2)[-2:])
        add(name,'call:'+owner_m,props,'%s wakes / registers a task exactly under the reviewed tests and outcomes'%short)
    classes=set()
    for bi,si,pl,rv,ln in f.stmts():
        tgt=core.write_target(f,pl)
        if tgt and (tgt[0].startswith(H2) or tgt[0].startswith('closure ')):
            add(name,'write:%s.%s'%tgt,props,'%s writes %s exactly under the reviewed tests and outcomes'%(short,tgt[1]))
        if len(pl)==1 and pl[0]==0:
            rc=core._ret_class_rv(rv,f)
            if rc.count(':')==1 and rc.split(':')[0] in ('Ok','Some','Ready') and not rc.split(':')[1].startswith(('call','const')):
                classes.add(rc)
    if len(classes)>=2:
        for rc in sorted(classes):
            add(name,'ret:'+rc,props,'%s answers %s exactly under the reviewed tests and outcomes'%(short,rc))
    kinds=[]
    if f.ret.startswith('std::task::Poll<'): kinds=['Pending','Ready']
    elif f.ret.startswith('std::option::Option<'): kinds=['None','Some']
    for k in kinds:
        add(name,'ret:'+k,props,'%s answers %s exactly under the reviewed tests and outcomes'%(short,k))
c=collections.Counter(e['action'].split(':')[0] for e in new)
print(len(new), c)
if '--write' in sys.argv:
    json.dump(tab+new, open(boundaries.GUARDS,'w'), indent=1)
    print('total', len(tab)+len(new))
