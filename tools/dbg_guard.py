# developer aid (not registered): dbg_guard.py <fn-suffix> <action> -- prints the reviewed and found sites of one guard-census entry and which matching phase accepts them (H2_SRC selects the tree)
import sys, json; sys.path.insert(0,'/verif')
from h2lint import run, core, boundaries as b
F=run.facts_for('su-dbg')
g=json.load(open('/verif/h2lint/rules/guards.json'))
fn,act=sys.argv[1],sys.argv[2]
e=[e for e in g if e['fn'].endswith(fn) and e['action']==act][0]
f=F.fn(e['fn'])
got=sorted(core.control_terms(F,f,bi) for bi in b.action_sites(F,f,act))
want=sorted(sorted(x) for x in e['sites']['dbg'])
print('want'); [print('  ',w) for w in want]
print('got'); [print('  ',w) for w in got]
print('direct', b._sites_included(want,got)); print('flipped', b._flipped_site(want,got))
for st in b._merge_complementary(want): print('stage', b._sites_included(st,got), st)
print('split', b._sites_included(b._split_arms(want),got))
