#!/usr/bin/python3
# Table maintenance (run on the REVIEWED tree only): see DESIGN.md 8.6. Reads facts of H2_SRC (default /repo).
import sys, json
sys.path.insert(0,'/verif')
from h2lint import run, core, boundaries
tab=json.load(open(boundaries.GUARDS))
Fs={'dbg':run.facts_for('su-dbg'),'rel':run.facts_for('su-rel')}
ch=0
for e in tab:
    for prof,F in Fs.items():
        f=F.fn(e['fn'])
        if f is None: print('absent', e['fn']); continue
        sites=boundaries.action_sites(F,f,e['action'])
        new=sorted(sorted(core.control_terms(F,f,bi)) for bi in sites)
        old=sorted(sorted(x) for x in e['sites'][prof])
        strip=lambda ss: sorted(sorted(t.split('@')[0] for t in x) for x in ss)
        if strip(new)!=strip(old):
            print('DIFF beyond polarity', e['fn'], e['action'], prof); print(' old',old); print(' new',new)
        if new!=old: ch+=1
        e['sites'][prof]=new
    if 1:
        print(e['fn'].split('::')[-1], e['action'], e['sites']['dbg'])
json.dump(tab, open(boundaries.GUARDS,'w'), indent=1)
print('changed',ch)
