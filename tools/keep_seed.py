#!/usr/bin/python3
"""keep_seed.py <PROP> <variant> [srcdir]: store a verified seeded change under /verif/seeded/<PROP>-<variant>/
(patch.diff, demo.rs, notes.md, meta.json) after /var/tmp/seedverify/<PROP>-<variant>.json confirms it, and
record which checks report it (applies the patch to /repo, runs all quick checks, undoes it)."""
import json
import os
import re
import shutil
import subprocess
import sys

prop, var = sys.argv[1], sys.argv[2]
tag = '%s-%s' % (prop, var)
src = sys.argv[3] if len(sys.argv) > 3 else '/var/tmp/seed/%s/%s' % (prop, var)
ver = json.load(open('/var/tmp/seedverify/%s.json' % tag))
ok = ver.get('apply_rc') == 0 and ver.get('demo_before_rc') == 0 and ver.get('demo_after_rc') not in (0, None) and ver.get('suite_other_failures') == 0 and ver.get('suite_passed', 0) >= 649
if not ok:
    print('NOT VERIFIED', ver)
    sys.exit(1)
dst = '/verif/seeded/%s' % tag
os.makedirs(dst, exist_ok=True)
for f in ('patch.diff', 'demo.rs', 'notes.md'):
    if os.path.exists(os.path.join(src, f)):
        shutil.copyfile(os.path.join(src, f), os.path.join(dst, f))
out = ''
if os.environ.get('KEEP_TRY') == '1':
    out = subprocess.run(['/verif/tools/try_seed.sh', os.path.join(dst, 'patch.diff')], stdout=subprocess.PIPE, stderr=subprocess.STDOUT, text=True).stdout
elif os.path.exists('/var/tmp/try/%s.txt' % tag):
    out = open('/var/tmp/try/%s.txt' % tag).read()   # first run against /repo (tools/try_seed.sh), before any rule was added for it
keys = re.findall(r'^(C\d+):\s+rule \S+\s+key (\S.*)$', out, re.M)
notes = open(os.path.join(dst, 'notes.md')).read() if os.path.exists(os.path.join(dst, 'notes.md')) else ''
title = notes.splitlines()[0].lstrip('# ').strip() if notes else ''
m = re.search(r'(?is)##\s*what it needs[^\n]*\n(.*?)(\n## |\Z)', notes)
needs = ' '.join(m.group(1).split())[:600] if m else ''
meta = {
    'id': tag, 'property': prop, 'title': title,
    'needs_to_manifest': needs,
    'origin': 'written by an independent sub-agent that was given only the text of the property and its own scratch worktree of /repo',
    'confirmed_by': 'tools/verify_seed.sh in a scratch worktree under /var/tmp: demo passes on the unchanged tree, fails with the change; `cargo test --workspace --no-fail-fast --offline` with the change: %d passed, no failure other than the known clear_recv_buffer_caps_capacity_before_overflow' % ver['suite_passed'],
    'verification': ver,
    'also_check': sorted(set(k for k, _ in keys) - {prop}),
    'expect': [],
    'first_run_against_repo': [{'check': c, 'key': k} for c, k in keys],
}
json.dump(meta, open(os.path.join(dst, 'meta.json'), 'w'), indent=1)
print(tag, 'kept; detected by', sorted(set(c for c, _ in keys)) or 'NOTHING')
