#!/usr/bin/python3
"""Regenerate MANIFEST.json from the rule modules present in h2lint/rules/."""
import importlib
import json
import os
import sys

VERIF = os.path.dirname(os.path.dirname(os.path.abspath(__file__)))
sys.path.insert(0, VERIF)
sys.dont_write_bytecode = True

from h2lint import run  # noqa: E402
props = [json.loads(l) for l in open(os.path.join(VERIF, 'properties.jsonl'))]
checks = []
na = []
for p in props:
    pid = p['id']
    path = os.path.join(VERIF, 'h2lint', 'rules', pid + '.py')
    if not os.path.exists(path):
        na.append({'property_id': pid, 'reason': 'check not built yet (DESIGN.md section 4 describes the planned static rules)'})
        continue
    mod = importlib.import_module('h2lint.rules.' + pid)
    checks.append({
        'property_id': pid,
        'quick_cmd': './check %s --tier quick' % pid,
        'thorough_cmd': './check %s --tier thorough' % pid,
        'evidence_file': 'evidence/%s.json' % pid,
        'replay_cmd_template': './check explain {path}',
        'engine': 'h2lint',
        'level_claimed': {
            'category': 'other',
            'text': 'Static analysis over the compiler\'s MIR of the current tree; decides structural necessary conditions of the property on every path, not the behaviour itself. '
                    + run.full_explanation(mod, pid) + ' NOT DECIDED: ' + getattr(mod, 'NOT_DECIDED', ''),
            'design_ref': 'DESIGN.md section 4, ' + pid,
        },
        'level_note': 'Trusted base: rustc nightly MIR construction and Instance::try_resolve; driver/ (h2facts); the h2lint engine; hand-written / third-party reference tables under ref/. '
                      'Dependencies are trusted to meet their documented contracts; calls through the type parameters T (I/O) and B (Buf) are opaque. '
                      + ' '.join(getattr(mod, 'ASSUMPTIONS', [])),
        'technique': getattr(mod, 'TECHNIQUE', 'static analysis of rustc MIR (custom rustc_private fact extractor + rule engine): dataflow / dominance / call-graph / table-extraction rules'),
    })
m = {
    'version': 1,
    'setup_cmd': './check setup',
    'hooks': {
        'guard': 'none',
        'enable': 'no hooks: the checks read /repo\'s source through the compiler (cargo +nightly check with a rustc_private wrapper); nothing in h2 is instrumented',
        'baseline_off_cmd': 'cd /repo && cargo test --workspace --no-fail-fast --offline',
        'source_commits': [],
        'add_only': True,
    },
    'engines': [
        {'name': 'h2facts', 'path': 'driver/', 'serves_properties': [c['property_id'] for c in checks],
         'kind_free_text': 'rustc_private driver (nightly) injected as RUSTC_WORKSPACE_WRAPPER: dumps resolved, un-optimised MIR, ADT tables, evaluated constants and an unsafe census of crate h2 as JSON'},
        {'name': 'h2lint', 'path': 'h2lint/', 'serves_properties': [c['property_id'] for c in checks],
         'kind_free_text': 'Python rule engine over the facts: CFG reachability / edge dominance / control dependence with test outcomes, disjunctive finite-state dataflow, expression provenance, call-graph summaries, finite-domain abstract interpretation (state machine rows, 256-octet flag tables), truth-table extraction of boolean functions, use-chain analysis of returned Results, comparison with RFC reference tables and with reviewed instance tables (rules/*.json); the program is normalised first (jump threading of boolean temporaries, MIR inlining of functions absent from the reviewed tree, equivalent presentations of comparisons) so behaviour-preserving rewrites do not change verdicts'},
    ],
    'checks': checks,
    'notes': 'All checks are static: no h2 code is executed. Exit 0 = every decided clause holds (KNOWN-FINDING lines for recorded defects), 1 = VIOLATION, 2 = no verdict (tree does not compile). '
             'Known findings: known_findings.json. Mutants: selftest/mutants (./check selftest mutants). Seeded changes: seeded/.',
    'not_applicable': na,
}
json.dump(m, open(os.path.join(VERIF, 'MANIFEST.json'), 'w'), indent=1)
print('checks:', [c['property_id'] for c in checks], 'not yet:', [n['property_id'] for n in na])
