#!/usr/bin/python3
# Table maintenance (run on the REVIEWED tree only): path-count census entries for the whole crate. Reads facts of H2_SRC (default /repo).
import sys, json, os, collections
VERIF = os.path.dirname(os.path.dirname(os.path.abspath(__file__)))
sys.path.insert(0, VERIF)
from h2lint import run, core, boundaries
F = run.facts_for('su-dbg')
FILEMAP = {
 'src/proto/streams/prioritize.rs': ['C02', 'C16'], 'src/proto/streams/recv.rs': ['C03', 'C09'], 'src/proto/streams/send.rs': ['C04', 'C17'],
 'src/proto/streams/streams.rs': ['C09', 'C19'], 'src/proto/streams/counts.rs': ['C05'], 'src/proto/streams/flow_control.rs': ['C02', 'C03'],
 'src/proto/streams/stream.rs': ['C06', 'C16'], 'src/proto/streams/store.rs': ['C19', 'C01'], 'src/proto/streams/buffer.rs': ['C01'],
 'src/proto/streams/state.rs': ['C09', 'C04'], 'src/proto/streams/mod.rs': ['C18'], 'src/proto/connection.rs': ['C07', 'C15'],
 'src/proto/go_away.rs': ['C15'], 'src/proto/ping_pong.rs': ['C14'], 'src/proto/settings.rs': ['C14'], 'src/proto/peer.rs': ['C04', 'C13'],
 'src/proto/mod.rs': ['C18'], 'src/codec/framed_write.rs': ['C12'], 'src/codec/framed_read.rs': ['C18', 'C12'], 'src/codec/mod.rs': ['C12', 'C14'],
 'src/frame/headers.rs': ['C12', 'C13'], 'src/frame/data.rs': ['C12', 'C01'], 'src/frame/go_away.rs': ['C12', 'C15'], 'src/frame/util.rs': ['C12', 'C03'],
 'src/frame/settings.rs': ['C14', 'C12'], 'src/frame/ping.rs': ['C14', 'C12'], 'src/frame/head.rs': ['C12'], 'src/frame/priority.rs': ['C12'],
 'src/frame/reset.rs': ['C12', 'C17'], 'src/frame/window_update.rs': ['C12', 'C02'], 'src/frame/stream_id.rs': ['C04'], 'src/frame/mod.rs': ['C12'],
 'src/hpack/decoder.rs': ['C11'], 'src/hpack/encoder.rs': ['C10'], 'src/hpack/header.rs': ['C10'],
 'src/client.rs': ['C20', 'C18'], 'src/server.rs': ['C20', 'C18'], 'src/share.rs': ['C20', 'C16'], 'src/ext.rs': ['C13'],
}
H2 = boundaries._H2P
tab = []
for name, f in sorted(F.fns.items()):
    if '::tests::' in name or '::test::' in name or not name.lstrip('<').startswith(H2) or name.endswith('::fmt'):
        continue
    props = FILEMAP.get(f.file)
    if not props:
        continue
    short = name.split('::')[-1] if 'closure' not in name else name.split('::')[-2] + '::{closure}'
    for callee, blocks in sorted(boundaries.effect_calls(F, f).items()):
        mn, mx = boundaries.path_counts(f, blocks)
        if mx == 0:
            continue
        tab.append({'fn': name, 'what': 'call:' + callee, 'min': mn, 'max': mx, 'props': props, 'why': '%s runs %s on its way out' % (short, callee.rsplit('::', 2)[-2] + '::' + callee.rsplit('::', 1)[-1] if '::' in callee else callee)})
    writes = collections.defaultdict(set)
    for bi, si, pl, rv, ln in f.stmts():
        tgt = core.write_target(f, pl)
        if tgt and tgt[0].lstrip('<').startswith(H2):
            writes[tgt].add(bi)
    for (owner, field), blocks in sorted(writes.items()):
        mn, mx = boundaries.path_counts(f, sorted(blocks))
        if mx == 0:
            continue
        tab.append({'fn': name, 'what': 'write:%s.%s' % (owner, field), 'min': mn, 'max': mx, 'props': props, 'why': '%s stores %s on its way out' % (short, field)})
json.dump(tab, open(boundaries.COUNTS, 'w'), indent=0)
print(len(tab), collections.Counter(e['what'].split(':')[0] for e in tab))
