#!/usr/bin/python3
"""gen_cands.py <operator> <out.json>: candidate generator for tools/campaign.py (source-level mutation operators).

operators
  relop     relational operator replacement: < <-> <=, > <-> >=, == <-> !=            (off-by-one, inverted test)
  arith     + <-> -, += <-> -=, saturating_sub -> wrapping_sub, checked_add -> wrapping_add ...
  ctrl      delete a line that is exactly `return;` / `continue;` / `break;` / `return Ok(());` / `return Poll::Pending;`
  swallow   `expr?;` -> `let _ = expr;` / `.ok();`                                      (error dropped)
  negate    `if cond {` -> `if !(cond) {`                                              (single-line conditions)

Every candidate is [file, line, old text, new text].  Test modules, comments, doc comments, tracing / assert lines are skipped.
The clean snapshot is read from H2_SRC (default /var/tmp/clean)."""
import glob
import json
import os
import re
import sys

op, outp = sys.argv[1], sys.argv[2]
src = os.environ.get('H2_SRC', '/var/tmp/clean')
files = [f for f in sorted(glob.glob(src + '/src/**/*.rs', recursive=True)) if 'fuzz_bridge' not in f]
SKIP = ('//', 'tracing::', 'trace!', 'debug!', 'debug_assert', 'assert', 'proto_err!', 'log::', '#[', 'warn!', 'write!', 'panic!', 'unreachable!')
cands = []


def code_lines(p):
    lines = open(p).read().split('\n')
    end = len(lines)
    for i, l in enumerate(lines):
        if l.strip().startswith('#[cfg(test)]'):
            end = i
            break
    in_macro = 0
    for i, l in enumerate(lines[:end]):
        s = l.strip()
        if not s or s.startswith(SKIP):
            # multi-line tracing macro: skip until the closing `);`
            if s.startswith(('tracing::', 'proto_err!', 'debug_assert', 'assert')) and not s.rstrip().endswith(';'):
                in_macro = 1
            continue
        if in_macro:
            if s.endswith(');'):
                in_macro = 0
            continue
        yield i + 1, l


def strip_strings(l):
    return re.sub(r'"(\\.|[^"\\])*"', lambda m: '"' + ' ' * (len(m.group(0)) - 2) + '"', l)


for p in files:
    rel = os.path.relpath(p, src)
    for ln, l in code_lines(p):
        body = strip_strings(l.split('//')[0])
        if op == 'relop':
            # generics / arrows / shifts are not comparisons
            for m in re.finditer(r'(?<![<>=!\-])\s(<=|>=|==|!=|<|>)\s(?![<>=])', body):
                o = m.group(1)
                if o in ('<', '>') and re.search(r'(fn |impl|struct |enum |type |where |->|::<|: [A-Z]\w*<|dyn |Option<|Result<|Poll<|Vec<)', body) and not re.search(r'\b(if|while|return|let \w+ = .*[<>] )\b', body):
                    continue
                new = {'<': '<=', '<=': '<', '>': '>=', '>=': '>', '==': '!=', '!=': '=='}[o]
                a, b = m.span(1)
                cands.append([rel, ln, l.strip(), l[:a] + new + l[b:]])
        elif op == 'arith':
            for m in re.finditer(r'\s(\+=|-=|\+|-)\s', body):
                o = m.group(1)
                if o == '-' and body[m.end():].lstrip().startswith('>'):
                    continue
                if o in ('+', '-') and re.search(r'(impl|where |dyn |: \w+ \+|<\w+ \+)', body):
                    continue
                new = {'+=': '-=', '-=': '+=', '+': '-', '-': '+'}[o]
                a, b = m.span(1)
                cands.append([rel, ln, l.strip(), l[:a] + new + l[b:]])
            for a_, b_ in (('saturating_sub', 'wrapping_sub'), ('saturating_add', 'wrapping_add'), ('checked_add', 'overflowing_add'), ('checked_sub', 'overflowing_sub')):
                if '.' + a_ + '(' in body and b_.startswith('wrapping'):
                    cands.append([rel, ln, l.strip(), l.replace('.' + a_ + '(', '.' + b_ + '(', 1)])
        elif op == 'ctrl':
            if l.strip() in ('return;', 'continue;', 'break;', 'return Ok(());', 'return Poll::Pending;', 'return Poll::Ready(Ok(()));', 'return Ok(None);', 'return None;', 'return Poll::Ready(None);'):
                cands.append([rel, ln, l.strip(), ''])
        elif op == 'delstmt':
            # delete one simple statement (a call or an assignment on one line) in the files the first campaigns did not cover
            scope = ('src/frame/', 'src/proto/streams/buffer.rs', 'src/proto/streams/store.rs', 'src/codec/mod.rs', 'src/client.rs', 'src/server.rs',
                     'src/share.rs', 'src/proto/peer.rs', 'src/hpack/encoder.rs', 'src/proto/streams/flow_control.rs', 'src/proto/mod.rs')
            st = l.strip()
            if rel.startswith(scope) and st.endswith(';') and not st.startswith(('let ', 'return', 'use ', 'pub ', 'const ', 'type ', 'break', 'continue', '}', ')', ']', '.', '//', '#'))                     and (re.match(r'^[\w\.\*\[\]&]+(\(|\s*[\+\-\|&]?=\s)', st) or re.match(r'^[\w\.]+\.[\w]+\(.*\);$', st)) and st.count('(') == st.count(')'):
                cands.append([rel, ln, st, ''])
        elif op == 'negate':
            m = re.match(r'^(\s*(?:\} else )?if )(?!let )(.+)( \{\s*)$', l)
            if m and ' let ' not in m.group(2):
                c = m.group(2)
                new = c[1:] if c.startswith('!') and re.match(r'^![\w\.\(\)]+$', c) else '!(%s)' % c
                cands.append([rel, ln, l.strip(), m.group(1) + new + m.group(3)])
            m = re.match(r'^(\s*while )(?!let )(.+)( \{\s*)$', l)
            if m and ' let ' not in m.group(2):
                pass  # negating a loop condition rarely survives the tests
# an empty replacement means "delete the line": campaign.py takes [file, line, text] for that
cands = [c[:3] if c[3] == '' else c for c in cands]
json.dump(cands, open(outp, 'w'))
print(op, len(cands))
