#!/usr/bin/python3
# Table maintenance (run on the REVIEWED tree only): see DESIGN.md 8.6. Reads facts of H2_SRC (default /repo).
import sys, json
sys.path.insert(0,'/verif')
from h2lint import run, core, boundaries
F=run.facts_for('su-dbg')
H2=('proto::','frame::','codec::','hpack::','client::','server::','share::')
MAP=[
 ('Inner.refs', ['C19','C20'], 'the connection-wide handle count moves by one per handle created / dropped'),
 ('ReadPreface.pos', ['C08','C09'], 'the preface position advances by the bytes just compared'),
 ('Partial.continuation_frames_count', ['C18'], 'each CONTINUATION frame counts once against the limit'),
 ('DataFlags.0', ['C12'], 'flag octet updates set / clear exactly the named bit'),
 ('HeadersFlag.0', ['C12'], 'flag octet updates set exactly the named bit'),
 ('PushPromiseFlag.0', ['C12'], 'flag octet updates set exactly the named bit'),
 ('HeaderBlock.field_size', ['C18'], 'the header-list size grows by the decoded size of each field'),
 ('hpack::decoder::Table.size', ['C11'], 'decoder table size accounting: + on insert, - on eviction'),
 ('hpack::table::Table.size', ['C10'], 'encoder table size accounting'),
 ('hpack::table::Table.inserted', ['C10'], 'insertion counter'),
 ('Budget.available', ['C18'], 'the DATA-frame budget is replenished up to its maximum'),
 ('Counts.', ['C05','C18','C19'], 'stream / reset counters move by exactly one in the direction the function is named for'),
 ('Stream.buffered_send_data', ['C16','C02'], 'buffered bytes grow when DATA is queued and shrink by the bytes written'),
 ('Stream.requested_send_capacity', ['C16'], 'the outstanding request shrinks by the bytes written'),
 ('Stream.in_flight_recv_data', ['C03'], 'stream receive ledger: + the flow-controlled length on receipt, - what is released'),
 ('Recv.in_flight_data', ['C03'], 'connection receive ledger: + what is consumed from the window, - what is released'),
 ('Stream.ref_count', ['C19'], 'per-stream handle count'),
]
tab=[]
seen=set()
for name,f in sorted(F.fns.items()):
    if '::tests::' in name or '::test::' in name or not name.lstrip('<').startswith(H2): continue
    base=name.split('::{closure')[0]
    if base in seen: continue
    seen.add(base)
    for field,ups in sorted(boundaries.update_sites(F, base).items()):
        m=next(((p,w) for k,p,w in MAP if k in field), None)
        if m is None: print('unmapped', base, field, ups); continue
        tab.append({'fn':base,'field':field,'updates':sorted(ups),'props':m[0],'why':m[1]})
json.dump(tab,open(boundaries.UPDATES,'w'),indent=1)
print(len(tab))
props=sorted(set(p for e in tab for p in e['props'])); print(props)
for p in props:
    path='/verif/h2lint/rules/%s.py'%p
    s=open(path).read()
    if 'check_updates' in s: continue
    s=s.rstrip('\n')+"\n    from .. import boundaries as _b\n    _b.check_updates(ctx, '%s.RU', '%s')\n"%(p,p)
    open(path,'w').write(s)
