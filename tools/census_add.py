#!/usr/bin/python3
"""census_add.py — append a reviewed entry to one of the census tables, reading the current shape off the clean tree.

  census_add.py guard <fn> <action> <props,comma> <why> [--required]
  census_add.py show-guard <fn> <action>                     print the controlling terms of each site (both profiles)
  census_add.py show-cmp <fn-substring>                      print the comparisons (key, partition) of matching functions
  census_add.py boundary <fn> <key> <props> <why> [--required]
  census_add.py call <caller> <callee-suffix> <props> <why> [--ga X] [--mode all|some]

The tree read is H2_SRC (default /repo); entries are only ever added by hand through this tool after reading the code."""
import json
import os
import sys

VERIF = os.path.dirname(os.path.dirname(os.path.abspath(__file__)))
sys.path.insert(0, VERIF)
from h2lint import run, core, boundaries  # noqa: E402

cmd = sys.argv[1]
args = [a for a in sys.argv[2:] if not a.startswith('--')]
flags = sys.argv[2:]


def facts(cfg):
    return run.facts_for(cfg)


def guard_sites(fn, action):
    out = {}
    for prof, cfg in (('dbg', 'su-dbg'), ('rel', 'su-rel')):
        F = facts(cfg)
        f = F.fn(fn)
        if f is None:
            raise SystemExit('no such function: ' + fn)
        sites = boundaries.action_sites(F, f, action)
        out[prof] = sorted(sorted(core.control_terms(F, f, bi)) for bi in sites)
    return out


if cmd == 'show-guard':
    print(json.dumps(guard_sites(args[0], args[1]), indent=1))
elif cmd == 'guard':
    fn, action, props, why = args[:4]
    s = guard_sites(fn, action)
    if not s['dbg']:
        raise SystemExit('no site')
    tab = json.load(open(boundaries.GUARDS))
    if any(e['fn'] == fn and e['action'] == action for e in tab):
        raise SystemExit('entry exists')
    tab.append({'fn': fn, 'action': action, 'sites': s, 'ignore': [], 'props': props.split(','), 'why': why, 'required': '--required' in flags, 'via_before': []})
    json.dump(tab, open(boundaries.GUARDS, 'w'), indent=1)
    print('added', fn, action, json.dumps(s['dbg']))
elif cmd == 'show-cmp':
    F = facts('su-dbg')
    for name, f in sorted(F.fns.items()):
        if args[0] in name and '::tests::' not in name:
            for c in boundaries.comparisons(F, f):
                print(name, '|', c)
elif cmd == 'boundary':
    fn, key, props, why = args[:4]
    F = facts('su-dbg')
    parts = []
    for c in boundaries.comparisons(F, F.fn(fn)):
        if c[0] == key:
            parts.append(c[1])
    if not parts:
        raise SystemExit('no comparison with that key')
    tab = json.load(open(os.path.join(VERIF, 'h2lint', 'rules', 'boundaries.json')))
    if any(e['fn'] == fn and e['key'] == key for e in tab):
        raise SystemExit('entry exists')
    tab.append({'fn': fn, 'key': key, 'partitions': sorted(parts), 'props': props.split(','), 'why': why, 'required': '--required' in flags})
    json.dump(tab, open(os.path.join(VERIF, 'h2lint', 'rules', 'boundaries.json'), 'w'), indent=1)
    print('added', fn, key, parts)
elif cmd == 'call':
    caller, callee, props, why = args[:4]
    ga = flags[flags.index('--ga') + 1] if '--ga' in flags else None
    mode = flags[flags.index('--mode') + 1] if '--mode' in flags else 'some'
    p = os.path.join(VERIF, 'h2lint', 'rules', 'calls.json')
    tab = json.load(open(p))
    if any(e['caller'] == caller and e['callee'] == callee and e.get('ga') == ga for e in tab):
        raise SystemExit('entry exists')
    tab.append({'caller': caller, 'callee': callee, 'ga': ga, 'mode': mode, 'props': props.split(','), 'why': why})
    json.dump(tab, open(p, 'w'), indent=1)
    print('added call', caller, callee)
if cmd == 'amount':
    # census_add.py amount <caller> <callee full path> <props> <why> [--arg N]
    caller, callee, props, why = args[:4]
    idx = int(flags[flags.index('--arg') + 1]) if '--arg' in flags else 1
    F = facts('su-dbg')
    f = F.fn(caller)
    got = sorted(a for a, ln in boundaries.amount_sites(F, f, callee, idx))
    if not got:
        raise SystemExit('no such call')
    p = os.path.join(VERIF, 'h2lint', 'rules', 'amounts.json')
    tab = json.load(open(p))
    if any(e['caller'] == caller and e['callee'] == callee and e.get('arg', 1) == idx for e in tab):
        raise SystemExit('entry exists')
    e = {'caller': caller, 'callee': callee, 'atoms': got, 'props': props.split(','), 'why': why}
    if idx != 1:
        e['arg'] = idx
    tab.append(e)
    json.dump(tab, open(p, 'w'), indent=1)
    print('added amount', caller, callee, got)
