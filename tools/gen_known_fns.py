#!/usr/bin/python3
"""gen_known_fns.py: freeze the names of all h2 functions of the reviewed tree (all four configurations) into
h2lint/rules/known_fns.json.  A function that is not in this list is a *new helper*: call-site rules look through it."""
import json
import os
import sys

VERIF = os.path.dirname(os.path.dirname(os.path.abspath(__file__)))
sys.path.insert(0, VERIF)
from h2lint import run  # noqa: E402

names = set()
for cfg in run.THOROUGH_CONFIGS:
    F = run.facts_for(cfg)
    names |= set(n for n in F.fns if '{closure' not in n)
json.dump(sorted(names), open(os.path.join(VERIF, 'h2lint', 'rules', 'known_fns.json'), 'w'), indent=0)
print(len(names))
