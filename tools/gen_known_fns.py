#!/usr/bin/python3
"""gen_known_fns.py: freeze the names of all h2 functions of the reviewed tree (all four configurations) into
h2lint/rules/known_fns.json.  A function that is not in this list is a *new helper*: call-site rules look through it."""
import json
import os
import sys

VERIF = os.path.dirname(os.path.dirname(os.path.abspath(__file__)))
sys.path.insert(0, VERIF)
from h2lint import run  # noqa: E402

names = {}
for cfg in run.THOROUGH_CONFIGS:
    F = run.facts_for(cfg)
    for n, f in F.fns.items():
        if '{closure' not in n:
            # the signature lets a renamed function be recognised (core.Facts._pair_renames); the configurations say where it exists
            names.setdefault(n, [f.argc, f.ret, []])[2].append(cfg)
json.dump(dict(sorted(names.items())), open(os.path.join(VERIF, 'h2lint', 'rules', 'known_fns.json'), 'w'), indent=0)
print(len(names))
