#!/bin/bash
# developer aid (not registered): apply candidate <index> of a campaign candidate file to the scratch worktree /var/tmp/clean2, run all quick checks there, undo
# mut1.sh <cands.json> <index>: apply candidate #index to /var/tmp/clean2, run all quick checks, undo
cd /verif
python3 - "$1" "$2" <<'P'
import json,sys
c=json.load(open(sys.argv[1]))[int(sys.argv[2])]
f='/var/tmp/clean2/'+c[0]; L=open(f).read().split('\n')
span=c[4] if len(c)>4 else 1
L=L[:c[1]-1]+(c[3].split('\n') if len(c)>3 else [])+L[c[1]-1+span:]
open(f,'w').write('\n'.join(L)); print(c[0],c[1],c[2][:90])
P
H2_SRC=/var/tmp/clean2 VERIF_SLOT=-try VERIF_EVIDENCE_DIR=/verif/out/try-evidence ./check all 2>&1 | grep -E "NO VERDICT|^VIOLATION|^  rule " | cut -c1-170
git -C /var/tmp/clean2 checkout -- .
