#!/usr/bin/python3
"""campaign_fast.py <cands.json> <outdir> [-j N]: same contract as campaign.py, but every mutant is decided by ONE
`./check all` process (facts loaded once for the twenty quick checks) instead of twenty.  Candidates:
[file, line, text]            delete the line
[file, line, text, new]       replace the line by `new`
[file, line, text, new, span] replace `span` lines
The scratch copy is made from H2_SRC (use a clean snapshot, never /repo while a patch is applied there)."""
import concurrent.futures
import json
import os
import queue
import re
import shutil
import subprocess
import sys

VERIF = os.path.dirname(os.path.dirname(os.path.abspath(__file__)))
sys.path.insert(0, VERIF)
from h2lint import selftest, run  # noqa: E402

cands = json.load(open(sys.argv[1]))
out = sys.argv[2]
jobs = int(sys.argv[sys.argv.index('-j') + 1]) if '-j' in sys.argv else 8
os.makedirs(os.path.join(out, 'p'), exist_ok=True)
src = run.h2_src()


def make_patch(i, c):
    f, ln = c[0], c[1]
    lines = open(os.path.join(src, f)).read().split('\n')
    span = c[4] if len(c) > 4 else 1
    new = lines[:ln - 1] + (c[3].split('\n') if len(c) > 3 else []) + lines[ln - 1 + span:]
    a = os.path.join(out, 'p', '%03d.a' % i)
    b = os.path.join(out, 'p', '%03d.b' % i)
    open(a, 'w').write('\n'.join(lines))
    open(b, 'w').write('\n'.join(new))
    d = subprocess.run(['diff', '-u', '--label', 'a/' + f, '--label', 'b/' + f, a, b], stdout=subprocess.PIPE, text=True).stdout
    p = os.path.join(out, 'p', '%03d.diff' % i)
    open(p, 'w').write(d)
    os.remove(a)
    os.remove(b)
    return p


slots = queue.Queue()
for k in range(jobs):
    slots.put(os.environ.get('CAMP_SLOT', 'c') + '%d' % k)
resfile = os.path.join(out, 'results.json')
results = json.load(open(resfile)) if os.path.exists(resfile) else {}


def run_all(patch, slot):
    d = selftest.scratch_copy(src, str(slot))
    try:
        p = subprocess.run(['patch', '-p1', '-s', '-i', os.path.abspath(patch)], cwd=d, stdout=subprocess.PIPE, stderr=subprocess.STDOUT, text=True)
        if p.returncode != 0:
            return None, 'patch does not apply: ' + p.stdout
        env = dict(os.environ)
        env['H2_SRC'] = d
        env['VERIF_SLOT'] = '-slot%s' % slot
        env['VERIF_EVIDENCE_DIR'] = os.path.join(VERIF, 'out', 'selftest', 'ev%s' % slot)
        q = subprocess.run([os.path.join(VERIF, 'check'), 'all'], env=env, stdout=subprocess.PIPE, stderr=subprocess.STDOUT, text=True)
        return q, None
    finally:
        shutil.rmtree(d, ignore_errors=True)


def one(ic):
    i, c = ic
    key = '%s:%d#%d' % (c[0], c[1], i)
    if key in results:
        return key, results[key]
    p = make_patch(i, c)
    slot = slots.get()
    try:
        q, err = run_all(p, slot)
    finally:
        slots.put(slot)
    text = c[2] if len(c) <= 3 else c[2] + '  =>  ' + c[3].strip()
    if err:
        return key, {'text': text, 'status': 'ERROR', 'detail': err[:200]}
    if q.returncode == 2 or 'NO VERDICT' in q.stdout:
        return key, {'text': text, 'status': 'NO-VERDICT', 'by': {}}
    det = {}
    cur = None
    for line in q.stdout.splitlines():
        m = re.match(r'^VIOLATION property=(C\d\d) ', line)
        if m:
            cur = m.group(1)
            det.setdefault(cur, [])
            continue
        m = re.match(r'^\s+rule \S+\s+key (\S.*)$', line)
        if m and cur and len(det[cur]) < 3:
            det[cur].append(m.group(1))
    return key, {'text': text, 'status': 'DETECTED' if det else 'MISSED', 'by': det}


with concurrent.futures.ThreadPoolExecutor(max_workers=jobs) as ex:
    for key, r in ex.map(one, list(enumerate(cands))):
        results[key] = r
        print('%-45s %-10s %-60s %s' % (key, r['status'], r['text'][:60], ','.join(sorted(r.get('by', {})))), flush=True)
        json.dump(results, open(resfile, 'w'), indent=1)
n = len(results)
print('campaign: %d candidates, %d detected, %d do not compile, %d missed' % (
    n, sum(1 for r in results.values() if r['status'] == 'DETECTED'), sum(1 for r in results.values() if r['status'] == 'NO-VERDICT'), sum(1 for r in results.values() if r['status'] == 'MISSED')))
