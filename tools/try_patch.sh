#!/bin/bash
# try2.sh <patch.diff>: apply to /var/tmp/clean2, run all quick checks there, undo
P=$1
cd /verif
git -C /var/tmp/clean2 apply "$P" || { echo "patch does not apply"; exit 2; }
H2_SRC=/var/tmp/clean2 VERIF_SLOT=-try VERIF_EVIDENCE_DIR=/verif/out/try-evidence ./check all 2>&1 | grep -E "NO VERDICT|^VIOLATION|^  rule " 
git -C /var/tmp/clean2 checkout -- .
