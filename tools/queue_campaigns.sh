#!/bin/bash
# run several campaigns in sequence from one snapshot of /verif
snap=/var/tmp/vsnap-q
rm -rf $snap; mkdir -p $snap
rsync -a --exclude .cache --exclude .git --exclude out --exclude seeded --exclude evidence --exclude 'selftest/campaign' /verif/ $snap/
cd $snap
for name in "$@"; do
  mkdir -p /var/tmp/camp-$name
  H2_SRC=/var/tmp/clean VERIF_CACHE=/verif/.cache python3 tools/campaign_fast.py /var/tmp/campaign/cands_$name.json /var/tmp/camp-$name -j 10 > /var/tmp/camp-$name/final.txt 2>&1
done
