#!/usr/bin/python3
"""campaign.py <cands.json> <outdir> [-j N]: delete-one-call mutation campaign against the twenty quick checks.
Each candidate (file, line, text) is turned into a patch that deletes that line; the patch is applied to a scratch copy
(never to /repo), every quick check runs on it, and the outcome is recorded: detected-by / NO-VERDICT (does not compile) /
MISSED.  The missed list is triage input (which dropped calls no rule notices), not a verdict on any property."""
import concurrent.futures
import json
import os
import queue
import subprocess
import sys

sys.path.insert(0, os.path.dirname(os.path.dirname(os.path.abspath(__file__))))
from h2lint import selftest, run  # noqa: E402

cands = json.load(open(sys.argv[1]))
out = sys.argv[2]
jobs = int(sys.argv[sys.argv.index('-j') + 1]) if '-j' in sys.argv else 8
os.makedirs(os.path.join(out, 'p'), exist_ok=True)
src = run.h2_src()
props = ['C%02d' % k for k in range(1, 21)]


def make_patch(i, c):
    f, ln, text = c[0], c[1], c[2]
    lines = open(os.path.join(src, f)).read().split('\n')
    span = c[4] if len(c) > 4 else 1
    new = lines[:ln - 1] + (c[3].split('\n') if len(c) > 3 else []) + lines[ln - 1 + span:]
    a = os.path.join(out, 'p', '%03d.a' % i)
    b = os.path.join(out, 'p', '%03d.b' % i)
    open(a, 'w').write('\n'.join(lines))
    open(b, 'w').write('\n'.join(new))
    d = subprocess.run(['diff', '-u', '--label', 'a/' + f, '--label', 'b/' + f, a, b], stdout=subprocess.PIPE, text=True).stdout
    p = os.path.join(out, 'p', '%03d.diff' % i)
    open(p, 'w').write(d)
    os.remove(a)
    os.remove(b)
    return p


slots = queue.Queue()
for k in range(jobs):
    slots.put('c%d' % k)
resfile = os.path.join(out, 'results.json')
results = json.load(open(resfile)) if os.path.exists(resfile) else {}


def one(ic):
    i, c = ic
    key = '%s:%d%s' % (c[0], c[1], ('#%d' % i) if len(c) > 3 else '')
    if key in results:
        return key, results[key]
    p = make_patch(i, c)
    slot = slots.get()
    try:
        res = selftest.run_patch(p, props, slot)
    finally:
        slots.put(slot)
    if 'error' in res:
        return key, {'text': c[2], 'status': 'ERROR', 'detail': res['error'][:200]}
    det = {pr: res[pr]['keys'][:3] for pr in res if res[pr]['rc'] == 1}
    nov = [pr for pr in res if res[pr]['rc'] == 2]
    st = 'DETECTED' if det else ('NO-VERDICT' if nov else 'MISSED')
    return key, {'text': c[2] if len(c) <= 3 else c[2] + '  =>  ' + c[3].strip(), 'status': st, 'by': det}


with concurrent.futures.ThreadPoolExecutor(max_workers=jobs) as ex:
    for key, r in ex.map(one, list(enumerate(cands))):
        results[key] = r
        print('%-45s %-10s %-60s %s' % (key, r['status'], r['text'][:60], ','.join(sorted(r.get('by', {})))), flush=True)
        json.dump(results, open(resfile, 'w'), indent=1)
n = len(results)
print('campaign: %d candidates, %d detected, %d do not compile, %d missed' % (
    n, sum(1 for r in results.values() if r['status'] == 'DETECTED'), sum(1 for r in results.values() if r['status'] == 'NO-VERDICT'), sum(1 for r in results.values() if r['status'] == 'MISSED')))
