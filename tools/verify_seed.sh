#!/bin/bash
# verify_seed.sh <src-dir with patch.diff + demo.rs> <tag>
# Confirms, in a scratch worktree of /repo (outside /repo and /verif), that a seeded change
#  (1) lets the demonstration pass on the unchanged tree, (2) makes it fail with the change,
#  (3) still compiles and passes the repository's own suite (one known failing unit test excepted).
# Writes /var/tmp/seedverify/<tag>.json and removes the worktree with its build output.
set -u
SRC=$1; TAG=$2
WT=/var/tmp/sv-$TAG
OUT=/var/tmp/seedverify/$TAG
mkdir -p /var/tmp/seedverify
git -C /repo worktree remove --force $WT >/dev/null 2>&1
git -C /repo worktree add --detach $WT HEAD >/dev/null 2>&1 || { echo "{\"tag\":\"$TAG\",\"error\":\"worktree\"}" > $OUT.json; exit 1; }
cd $WT
export CARGO_NET_OFFLINE=true
DEMO=seed_demo_$(echo $TAG | tr 'A-Z-' 'a-z_')
cp $SRC/demo.rs tests/h2-tests/tests/$DEMO.rs
# if the demo is a unit test meant for src/, notes will say so; default: integration test
timeout 1500 cargo test --offline -p h2-tests --test $DEMO -- --test-threads 1 > $OUT.demo_before.log 2>&1; RB=$?
git apply $SRC/patch.diff > $OUT.apply.log 2>&1; RA=$?
timeout 1500 cargo test --offline -p h2-tests --test $DEMO -- --test-threads 1 > $OUT.demo_after.log 2>&1; RF=$?
rm tests/h2-tests/tests/$DEMO.rs
timeout 3000 cargo test --workspace --no-fail-fast --offline > $OUT.suite.log 2>&1
FAILED=$(grep -E "^test .* \.\.\. FAILED" $OUT.suite.log | grep -v clear_recv_buffer_caps_capacity_before_overflow | wc -l)
PASSED=$(grep -E "^test result:" $OUT.suite.log | sed -E 's/.* ([0-9]+) passed.*/\1/' | paste -sd+ | bc)
COMPILE=$(grep -c "^error" $OUT.suite.log)
echo "{\"tag\":\"$TAG\",\"apply_rc\":$RA,\"demo_before_rc\":$RB,\"demo_after_rc\":$RF,\"suite_other_failures\":$FAILED,\"suite_passed\":${PASSED:-0},\"compile_errors\":$COMPILE}" > $OUT.json
cd /
git -C /repo worktree remove --force $WT >/dev/null 2>&1
cat $OUT.json
