#!/bin/bash
# try_seed.sh <patch.diff> [PROP ...]   apply to /repo, run the quick checks, undo; prints the violation keys
P=$1; shift
PROPS=${@:-C01 C02 C03 C04 C05 C06 C07 C08 C09 C10 C11 C12 C13 C14 C15 C16 C17 C18 C19 C20}
cd /verif
git -C /repo apply "$P" || { echo "patch does not apply"; exit 2; }
export VERIF_EVIDENCE_DIR=/verif/out/try-evidence
for p in $PROPS; do
  ./check $p 2>&1 | grep -E "NO VERDICT|^  rule " | sed "s/^/$p: /"
done
git -C /repo checkout -- .
