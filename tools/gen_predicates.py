#!/usr/bin/python3
# Table maintenance (run on the REVIEWED tree only): see DESIGN.md 8.6. Reads facts of H2_SRC (default /repo).
import sys, json
sys.path.insert(0,'/verif')
from h2lint import run, core, boundaries
Fs={'dbg':run.facts_for('su-dbg'),'rel':run.facts_for('su-rel')}
F=Fs['dbg']
H2=('proto::','frame::','codec::','hpack::','client::','server::','share::')
MAP=[
 ('frame::stream_id::', ['C04','C09'], 'stream identifier classes of RFC 9113 5.1.1'),
 ('frame::settings::', ['C14','C12'], 'SETTINGS flag / boolean parameter decoding (non-zero = enabled)'),
 ('frame::headers::', ['C13','C12'], 'header-block predicates (informational status, safe-and-cacheable method, flags)'),
 ('frame::data::', ['C12','C01'], 'DATA flag predicates'),
 ('frame::', ['C12'], 'frame predicates'),
 ('hpack::decoder', ['C11'], 'HPACK decoder predicates'),
 ('hpack::', ['C10'], 'HPACK encoder / table predicates (index validity, sensitivity, skip-value-index)'),
 ('codec::', ['C12','C08'], 'codec capacity / progress predicates'),
 ('<codec::', ['C12'], 'codec predicates'),
 ('proto::go_away::', ['C15','C07'], 'shutdown decisions: close now / close when idle'),
 ('proto::connection::', ['C15','C19','C07'], 'connection liveness predicates'),
 ('proto::ping_pong::', ['C14','C06','C07'], 'ping state predicates'),
 ('proto::error::', ['C17','C09'], 'error initiator predicates'),
 ('proto::peer::', ['C04','C09'], 'which side initiated a stream id'),
 ('<proto::peer::', ['C04','C09'], 'which side initiated a stream id'),
 ('proto::settings::', ['C14'], 'settings state predicates'),
 ('proto::streams::counts::', ['C05','C18','C19'], 'concurrency / quota predicates: a counter may grow only while strictly below its limit'),
 ('proto::streams::flow_control::', ['C02','C03','C16'], 'window predicates'),
 ('proto::streams::state::', ['C09','C04','C01'], 'stream state predicates'),
 ('<proto::streams::stream::', ['C06','C19'], 'queue-membership flag of the namesake intrusive queue'),
 ('proto::streams::stream::', ['C19','C06','C05','C16'], 'per-stream release / readiness predicates'),
 ('proto::streams::streams::', ['C19','C09','C20'], 'stream-set predicates (forgotten streams, remaining references)'),
 ('proto::streams::store::', ['C19'], 'store lookups compare the slab entry id with the requested stream id'),
 ('<proto::streams::store::', ['C19'], 'store lookups compare the slab entry id with the requested stream id'),
 ('proto::streams::recv::', ['C09','C03','C18'], 'receive-side predicates'),
 ('proto::streams::send::', ['C04','C02'], 'send-side predicates'),
 ('proto::streams::prioritize::', ['C02','C16'], 'prioritize predicates'),
 ('proto::streams::buffer', ['C01'], 'buffer predicates'),
 ('client::', ['C13','C20'], 'client predicates'),
 ('server::', ['C13','C20'], 'server predicates'),
 ('share::', ['C01','C20'], 'handle predicates delegate to the stream'),
]
tab=[]
for name,f in sorted(F.fns.items()):
    if '::tests::' in name or '::test::' in name or not name.lstrip('<').startswith(H2): continue
    if f.ret!='bool' or name.endswith('::fmt') or '::eq' in name or '::ne' in name or 'assert_fields' in name or 'assert_valid_state' in name: continue
    m=next(((p,w) for pre,p,w in MAP if name.startswith(pre)), None)
    if m is None: print('unmapped',name); continue
    t={}
    for prof,FF in Fs.items():
        ff=FF.fn(name)
        got=boundaries.predicate_table(FF,ff) if ff else None
        if got is None: t=None; break
        t[prof]=[got[0],got[1]]
    if t is None: continue
    if not t['dbg'][0]: continue   # constant function
    tab.append({'fn':name,'tables':t,'props':m[0],'why':m[1]})
json.dump(tab,open(boundaries.PREDICATES,'w'),indent=1)
print(len(tab), sum(1 for e in tab if e['tables']['dbg']!=e['tables']['rel']))
