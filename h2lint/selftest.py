"""selftest — replay mutants / seeded changes on scratch copies (DESIGN.md §6).

  ./check selftest mutants [-j N] [name-substring ...]
  ./check selftest seeded  [-j N] [name-substring ...]
  ./check selftest benign  [-j N]                      behaviour-preserving refactors: all twenty checks must stay silent
  ./check selftest apply <patch> <PROP> [PROP...]     run checks against one patch, print output

Each patch is applied to a scratch copy of H2_SRC outside /repo and /verif
(${VERIF_SCRATCH:-/var/tmp}/h2verif.<pid>.<n>/), the listed properties' quick checks
are run with H2_SRC pointing at the copy, and the copy is deleted afterwards.
A mutant header looks like:
  # property: C03
  # expect: C03.R1            (substring of a violation key that must be reported)
  # also-ok: C16              (other properties that may fire as well)
"""
import concurrent.futures
import glob
import json
import os
import re
import shutil
import subprocess
import sys
import tempfile

from . import run

VERIF = run.VERIF


def scratch_copy(src, tag):
    base = os.environ.get('VERIF_SCRATCH', '/var/tmp')
    d = os.path.join(base, 'h2verif.%d.%s' % (os.getpid(), tag))
    if os.path.exists(d):
        shutil.rmtree(d)
    subprocess.check_call(['rsync', '-a', '--exclude', '/target', '--exclude', '/.git', '--exclude', '/fixtures', '--exclude', '/fuzz',
                           src.rstrip('/') + '/', d + '/'])
    return d


def parse_header(patch):
    meta = {'property': [], 'expect': [], 'also-ok': []}
    with open(patch) as fh:
        for line in fh:
            m = re.match(r'#\s*(property|expect|also-ok|what):\s*(.*)$', line)
            if m:
                meta.setdefault(m.group(1), [])
                meta[m.group(1)] += [x.strip() for x in m.group(2).split(',')] if m.group(1) != 'what' else [m.group(2)]
            elif not line.startswith('#'):
                break
    return meta


def run_patch(patch, props, slot, keep_output=False):
    src = run.h2_src()
    d = scratch_copy(src, str(slot))
    try:
        p = subprocess.run(['patch', '-p1', '-s', '-i', os.path.abspath(patch)], cwd=d, stdout=subprocess.PIPE, stderr=subprocess.STDOUT, text=True)
        if p.returncode != 0:
            return {'error': 'patch does not apply: ' + p.stdout}
        env = dict(os.environ)
        env['H2_SRC'] = d
        env['VERIF_SLOT'] = '-slot%s' % slot
        env['VERIF_EVIDENCE_DIR'] = os.path.join(VERIF, 'out', 'selftest', 'ev%s' % slot)
        res = {}
        for prop in props:
            q = subprocess.run([os.path.join(VERIF, 'check'), prop], env=env, stdout=subprocess.PIPE, stderr=subprocess.STDOUT, text=True)
            keys = re.findall(r'^\s+rule \S+\s+key (\S.*)$', q.stdout, re.M)
            res[prop] = {'rc': q.returncode, 'keys': keys, 'out': q.stdout if (keep_output or q.returncode == 2) else ''}
        return res
    finally:
        shutil.rmtree(d, ignore_errors=True)


def replay(kind, argv):
    jobs = 4
    if '-j' in argv:
        i = argv.index('-j')
        jobs = int(argv[i + 1])
        argv = argv[:i] + argv[i + 2:]
    if kind == 'mutants':
        patches = sorted(glob.glob(os.path.join(VERIF, 'selftest', 'mutants', '*.patch')))
    elif kind == 'benign':
        patches = sorted(glob.glob(os.path.join(VERIF, 'selftest', 'benign', '*.diff')))
    else:
        patches = sorted(glob.glob(os.path.join(VERIF, 'seeded', '*', 'patch.diff')))
    if argv:
        patches = [p for p in patches if any(a in p for a in argv)]
    results = {}
    detail = {}
    import queue
    slots = queue.Queue()
    for k in range(jobs):
        slots.put(k)

    def one(i_p):
        i, p = i_p
        if kind == 'mutants':
            meta = parse_header(p)
        elif kind == 'benign':
            meta = {'property': ['C%02d' % k for k in range(1, 21)], 'expect': [], 'also-ok': []}
        else:
            mj = json.load(open(os.path.join(os.path.dirname(p), 'meta.json')))
            allp = ['C%02d' % k for k in range(1, 21)]
            meta = {'property': [mj['property']] + [x for x in allp if x != mj['property']], 'expect': mj.get('expect', []), 'also-ok': [], 'own': mj['property']}
        props = meta['property']
        slot = slots.get()
        try:
            res = run_patch(p, props, slot)
        finally:
            slots.put(slot)
        return p, meta, res

    with concurrent.futures.ThreadPoolExecutor(max_workers=jobs) as ex:
        for p, meta, res in ex.map(one, list(enumerate(patches))):
            name = os.path.basename(p) if kind in ('mutants', 'benign') else os.path.basename(os.path.dirname(p))
            if kind == 'benign' and 'error' not in res:
                noisy = [pr for pr in res if res[pr]['rc'] != 0]
                results[name] = 'SILENT' if not noisy else 'FALSE-ALARM'
                print('%-60s %-12s %s' % (name, results[name], '; '.join('%s: %s' % (pr, ', '.join(k[:90] for k in res[pr]['keys'][:3])) for pr in noisy)))
                continue
            if 'error' in res:
                print('%-50s ERROR %s' % (name, res['error']))
                results[name] = 'error'
                continue
            detected = [pr for pr in res if res[pr]['rc'] == 1]
            allkeys = [k for pr in res for k in res[pr]['keys']]
            exp = meta.get('expect', [])
            exp_ok = all(any(e in k for k in allkeys) for e in exp) if exp else bool(detected)
            novd = [pr for pr in res if res[pr]['rc'] == 2]
            status = 'DETECTED' if (detected and exp_ok) else ('WRONG-RULE' if detected else ('NO-VERDICT' if novd else 'MISSED'))
            if meta.get('own') and status == 'DETECTED' and meta['own'] not in detected:
                status = 'OTHER-PROP'
            results[name] = status
            detail[name] = {pr: res[pr]['keys'] for pr in res if res[pr]['keys']}
            print('%-50s %-10s by=%s keys=%s' % (name, status, ','.join(detected), '; '.join(k[:100] for k in allkeys[:4])))
            for pr in novd:
                print(res[pr]['out'][-1500:])
    n = len(results)
    d = sum(1 for v in results.values() if v in ('DETECTED', 'SILENT'))
    print('%s: %d/%d %s' % (kind, d, n, 'silent' if kind == 'benign' else 'detected'))
    os.makedirs(os.path.join(VERIF, 'out', 'selftest'), exist_ok=True)
    with open(os.path.join(VERIF, 'out', 'selftest', kind + '.json'), 'w') as fh:
        json.dump(results, fh, indent=1)
    with open(os.path.join(VERIF, 'out', 'selftest', kind + '-detail.json'), 'w') as fh:
        json.dump(detail, fh, indent=1)
    return 0 if d == n else 3


def main(argv):
    if not argv:
        print(__doc__)
        return 2
    if argv[0] in ('mutants', 'seeded', 'benign'):
        return replay(argv[0], argv[1:])
    if argv[0] == 'apply':
        res = run_patch(argv[1], argv[2:], 'a', keep_output=True)
        if 'error' in res:
            print(res['error'])
            return 2
        for pr, r in res.items():
            print('== %s rc=%d' % (pr, r['rc']))
            print(r['out'])
        return 0
    print(__doc__)
    return 2
