"""lock-set analysis shared by C20.R1, C06.R4, C14.R2 (DESIGN.md C20.R1).

Lock classes are the generic argument of std::sync::Mutex<T>::lock.  A class is held
from the lock call until the drop of a place whose type mentions MutexGuard<'_, T>.
May-hold sets per block (union at joins); may-acquire summaries per function through
the call graph (calls, closures, Drop impls in drop glue).
"""
import collections
import re

from . import core

LOCK_FNS = {'std::sync::Mutex::lock': True, 'std::sync::Mutex::try_lock': False}


def lock_class(t):
    """(class name, blocking?) if terminator acquires a mutex"""
    if t['k'] == 'call' and t['fn'] in LOCK_FNS and t['ga']:
        return t['ga'][0], LOCK_FNS[t['fn']]
    return None


_guard_re = re.compile(r"MutexGuard<'_, ((?:[^<>]|<(?:[^<>]|<[^<>]*>)*>)*)>")


def guard_classes(ty):
    return set(_guard_re.findall(ty))


def short_class(c):
    return c.split('::')[-1] if '<' not in c else c.split('<')[0].split('::')[-1]


class LockFacts:
    def __init__(self, facts):
        self.facts = facts
        self.direct = collections.defaultdict(set)       # fn -> classes locked (blocking) directly
        self.sites = []                                  # (fn, bi, class, blocking)
        for name, f in facts.fns.items():
            for bi, t in f.calls():
                lc = lock_class(t)
                if lc:
                    self.sites.append((name, bi, lc[0], lc[1]))
                    if lc[1]:
                        self.direct[name].add(lc[0])
        # may-acquire summary
        may = {n: set(self.direct.get(n, ())) for n in facts.fns}
        changed = True
        cg = facts.cg
        while changed:
            changed = False
            for n in facts.fns:
                m = may[n]
                for c in cg.get(n, ()):
                    mc = may.get(c)
                    if mc and not mc <= m:
                        m |= mc
                        changed = True
        self.may = may
        self._held = {}

    def held(self, fn):
        """per block: set of classes that may be held at block entry; and at the
        terminator (after the block's own effect is *not* applied)"""
        r = self._held.get(fn.name)
        if r is not None:
            return r
        n = len(fn.blocks)
        IN = [None] * n
        IN[0] = frozenset()
        work = [0]
        while work:
            i = work.pop()
            t = fn.blocks[i]['t']
            held = set(IN[i])
            lc = lock_class(t)
            if lc:
                held.add(lc[0])
            elif t['k'] == 'drop':
                for g in guard_classes(t['ty']):
                    held.discard(g)
            elif t['k'] == 'call' and t['fn'] in ('std::mem::drop',) and t['a']:
                l = core.op_local(t['a'][0])
                if l is not None:
                    for g in guard_classes(fn.local_ty(l)):
                        held.discard(g)
            hs = frozenset(held)
            for s in fn.succ[i]:
                if IN[s] is None:
                    IN[s] = hs
                    work.append(s)
                elif not hs <= IN[s]:
                    IN[s] = IN[s] | hs
                    work.append(s)
        self._held[fn.name] = IN
        return IN

    def callee_may(self, t):
        """classes a call terminator may acquire: callee summary + closures passed"""
        m = set(self.may.get(t['fn'], ()))
        for c in t['cls']:
            m |= self.may.get(c, set())
        for a in t['a']:
            if a[0] == 'k' and a[4]:
                m |= self.may.get(core.norm(a[4]), set())
        return m

    def drop_may(self, t):
        m = set()
        for g in t['glue']:
            d = self.facts.drop_impls.get(core.norm(g))
            if d:
                m |= self.may.get(d, set())
        return m
