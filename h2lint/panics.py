"""C08.R3 — panic-capable sites in the decode region: constant-index bounds checks must be
dominated by a sufficient length test; shifts by constants and constant arithmetic are
discharged automatically; everything else must be in the reviewed table (rules/C08_sites.py)."""
import re

from . import core
from .core import strip, canon, walk

REGION_PREFIXES = ('frame::', '<frame::', 'hpack::decoder', '<hpack::decoder', 'hpack::huffman', 'hpack::header', '<hpack::header',
                   'codec::framed_read', '<codec::framed_read')
LEN_CALLS = ('core::slice::<impl [T]>::len', 'bytes::Bytes::len', 'bytes::BytesMut::len', 'bytes::Buf::remaining', 'std::vec::Vec::len')
EMPTY_CALLS = ('core::slice::<impl [T]>::is_empty', 'bytes::Bytes::is_empty', 'bytes::BytesMut::is_empty')
BYTES_DEREF = {'<bytes::Bytes as std::ops::Deref>::deref', '<bytes::BytesMut as std::ops::Deref>::deref', '<bytes::BytesMut as std::ops::DerefMut>::deref_mut',
               '<std::vec::Vec as std::ops::Deref>::deref', '<std::io::Cursor as bytes::Buf>::chunk', '<hpack::header::BytesStr as std::ops::Deref>::deref'}


def in_region(name):
    if '::test' in name or 'std::fmt::Debug' in name or 'std::fmt::Display' in name:
        return False
    return name.startswith(REGION_PREFIXES)


def src_of(e):
    """canonical 'the sequence whose length is meant'"""
    e = canon(e)
    while e[0] == 'call' and e[1] in BYTES_DEREF and e[2]:
        e = canon(e[2][0])
    return e


def len_source(e):
    """if e denotes the length of some sequence S return canon(S) else None"""
    x = strip(e)
    if x[0] == 'un' and x[1] == 'PtrMetadata':
        return src_of(x[2])
    if x[0] == 'call' and x[1] in LEN_CALLS and x[2]:
        return src_of(x[2][0])
    return None


def const_of(e):
    x = strip(e)
    if x[0] == 'const' and isinstance(x[1], int):
        return x[1]
    if x[0] == 'bin' and x[1] in ('Add', 'Sub', 'Mul'):
        a, b = const_of(x[2]), const_of(x[3])
        if a is not None and b is not None:
            return a + b if x[1] == 'Add' else (a - b if x[1] == 'Sub' else a * b)
    return None


def length_facts(F, f):
    """[(edge, S, lower_bound)]: taking `edge` implies len(S) >= lower_bound"""
    out = []
    for bi, sw in core.all_switches(F, f).items():
        c = core.cmp_of(sw)
        if c is not None:
            op, a, b = c
            for (x, y, flip) in ((a, b, False), (b, a, True)):
                S = len_source(x)
                K = const_of(y)
                if S is None:
                    continue
                o = op
                if flip:
                    o = {'Lt': 'Gt', 'Gt': 'Lt', 'Le': 'Ge', 'Ge': 'Le', 'Eq': 'Eq', 'Ne': 'Ne'}[op]
                for s, lab in sw.labels.items():
                    if lab is None:
                        continue
                    lb = None
                    if K is not None:
                        if o == 'Ne' and lab is False:
                            lb = K
                        elif o == 'Eq' and lab is True:
                            lb = K
                        elif o == 'Eq' and lab is False and K == 0:
                            lb = 1
                        elif o == 'Ne' and lab is True and K == 0:
                            lb = 1
                        elif o == 'Lt' and lab is False:
                            lb = K
                        elif o == 'Ge' and lab is True:
                            lb = K
                        elif o == 'Gt' and lab is True:
                            lb = K + 1
                        elif o == 'Le' and lab is False:
                            lb = K + 1
                    else:
                        # len compared with a non-negative variable: `v >= len` false  =>  len > v >= 0
                        if o == 'Le' and lab is False:
                            lb = 1
                        elif o == 'Gt' and lab is True:
                            lb = 1
                    if lb is not None:
                        out.append(((bi, s), S, lb))
        elif sw.kind == 'int' and len_source(sw.subject) is not None:
            # `match s.len() { 4 => .., _ => .. }`: the arm of the value k implies len == k; with 0 listed, `_` implies len >= 1
            S = len_source(sw.subject)
            vals = [l for l in sw.labels.values() if isinstance(l, int)]
            for s, lab in sw.labels.items():
                if isinstance(lab, int):
                    out.append(((bi, s), S, lab))
                elif lab == 'else' and 0 in vals:
                    out.append(((bi, s), S, 1))
        elif sw.kind == 'bool':
            e = strip(sw.subject)
            if e[0] == 'call' and e[1] in EMPTY_CALLS and e[2]:
                S = src_of(e[2][0])
                for s, lab in sw.labels.items():
                    if lab is False:
                        out.append(((bi, s), S, 1))
    return out


def _from_arg(x):
    """argument of a lossless widening conversion written as a call (`u64::from(b)`, `usize::from(b)`, `.into()`), else None"""
    if x[0] == 'call' and x[2] and len(x[2]) == 1 and re.search(r'(^|::)(from|into)$', x[1]) and re.search(r'\b(u8|u16|u32|u64|usize)\b', x[1]):
        return x[2][0]
    return None


def range_indexed(f, idx):
    """S when `idx` is the value produced by `(0..len(S)).next()` -- the index of `for i in 0..s.len()` -- else None"""
    x = strip(idx)
    hops = 0
    while x[0] in ('field', 'variant', 'cast') and hops < 4:
        x = strip(x[1] if x[0] != 'cast' else (x[2] if len(x) > 2 and isinstance(x[2], tuple) else x[1]))
        hops += 1
    if not (x[0] == 'call' and x[1].endswith('::next') and 'Range' in x[1] and x[2]):
        return None
    r = strip(x[2][0])
    if r[0] == 'var':
        # the range local: its single aggregate definition
        ds = [d for d in f.defs.get(r[1], []) if d[0] == 's']
        r = strip(f.expr_of_rvalue(ds[0][3])) if len(ds) == 1 else r
    if r[0] == 'call' and r[1].endswith('::into_iter') and r[2]:
        r = strip(r[2][0])
    if r[0] == 'aggr' and 'Range' in str(r[2]) and len(r[3]) == 2:
        lo, hi = r[3]
        if const_of(lo) == 0:
            return len_source(hi)
    return None


def shape(e):
    x = strip(e)
    fa = _from_arg(x)
    if fa is not None:
        return shape(fa)
    k = const_of(x)
    if k is not None:
        return 'c%d' % k
    if len_source(x) is not None:
        return 'len'
    if x[0] == 'field':
        if str(x[3]) == '0' and str(x[2]).startswith(('std::option::Option', 'core::option::Option')):
            return 'v'  # the payload of `Some(..)`: a value bound by a pattern (`for &d in src`), like any other variable
        return 'f:' + x[3]
    if x[0] == 'index':
        return 'elem'
    if x[0] == 'arg':
        return 'arg'
    if x[0] == 'call':
        return 'call:' + x[1].split('::')[-1]
    if x[0] == 'bin':
        return '(%s %s %s)' % (shape(x[2]), x[1], shape(x[3]))
    return 'v'


def sites(F):
    """yield dicts describing every panic-capable site in the decode region with its discharge status"""
    for name, f in sorted(F.fns.items()):
        if not in_region(name):
            continue
        facts = None
        for bi, b in enumerate(f.blocks):
            if b['cu']:
                continue
            t = b['t']
            if t.get('exp') and ('debug_assert' in t['exp'] or 'tracing' in t['exp'] or t['exp'].startswith('trace') or 'proto_err' in t['exp']):
                continue
            if t['k'] == 'assert':
                kind = t['kind']
                e = f.expr_of_op(t['cond'])
                x = strip(e)
                if kind.startswith('BoundsCheck'):
                    idx, ln = (x[2], x[3]) if x[0] == 'bin' and x[1] == 'Lt' else (None, None)
                    c = const_of(idx) if idx is not None else None
                    S = len_source(ln) if ln is not None else None
                    klen = const_of(ln) if ln is not None else None
                    st = None
                    if c is not None and klen is not None:
                        st = 'auto:const-index-in-array' if c < klen else 'BAD'
                    elif klen is not None and idx is not None and _max_of(f, idx) is not None and _max_of(f, idx) < klen:
                        st = 'auto:index-type-bounded'
                    elif c is not None and S is not None:
                        if facts is None:
                            facts = length_facts(F, f)
                        good = [ed for ed, S2, lb in facts if S2 == S and lb > c]
                        if good and f.dominated_by_edges(bi, good):
                            st = 'auto:length-test-dominates'
                    elif idx is not None and S is not None and range_indexed(f, idx) == S:
                        st = 'auto:index-from-range-over-len'
                    yield {'fn': name, 'f': f, 'bi': bi, 'kind': 'bounds', 'sig': 'idx=%s' % (('c%d' % c) if c is not None else shape(idx) if idx is not None else '?'), 'status': st,
                           'need': 'len(%s) > %s' % (core.show(S)[:40] if S is not None else '?', c)}
                elif kind == 'Overflow':
                    m = re.match(r'Overflow\((\w+),', t['msg'])
                    op = m.group(1) if m else '?'
                    # cond is `(a op b).1` for checked arithmetic, or `Lt(shift, width)` for shifts
                    st = None
                    sig = op
                    if x[0] == 'bin' and x[1] == 'Lt' and op in ('Shl', 'Shr'):
                        amt = const_of(x[2])
                        width = const_of(x[3])
                        sig = '%s by %s' % (op, ('c%d' % amt) if amt is not None else shape(x[2]))
                        if amt is not None and width is not None and 0 <= amt < width:
                            st = 'auto:const-shift'
                    else:
                        y = x
                        # (a WithOverflow b).1  ->  field '1' of bin
                        while y[0] == 'field':
                            y = y[1]
                        if y[0] == 'bin':
                            a, b2 = y[2], y[3]
                            sig = ('%s(%s,%s)' % (op, shape(a), shape(b2))).replace('elem', 'v')
                            ca, cb = const_of(a), const_of(b2)
                            if ca is not None and cb is not None:
                                st = 'auto:const-fold'
                            elif op == 'Add' and cb is not None and 0 <= cb <= 64 and _wide(f, a):
                                st = 'auto:wide-counter-plus-small-const'
                            elif op == 'Sub':
                                if facts is None:
                                    facts = length_facts(F, f)
                                st = _sub_guarded(F, f, bi, a, b2)
                    yield {'fn': name, 'f': f, 'bi': bi, 'kind': 'overflow', 'sig': sig, 'status': st, 'need': 'no overflow'}
                else:
                    d = const_of(x[2]) if x[0] == 'bin' and x[1] == 'Eq' else None
                    yield {'fn': name, 'f': f, 'bi': bi, 'kind': kind.split(' ')[0], 'sig': shape(x[2]) if x[0] == 'bin' else shape(e), 'status': ('auto:const-divisor' if d not in (None, 0) else None), 'need': 'non-zero divisor'}
            elif t['k'] == 'call':
                fn = t['fn']
                if 'slice::index' in fn and fn.endswith('::index') or fn.endswith('::index_mut') and 'slice::index' in fn:
                    rng = strip(f.expr_of_op(t['a'][1])) if len(t['a']) > 1 else ('unknown',)
                    S = src_of(f.expr_of_op(t['a'][0]))
                    need = None
                    sig = 'range'
                    if rng[0] == 'aggr' and rng[2].startswith('std::ops::Range'):
                        bounds = [const_of(o) for o in rng[3]]
                        sig = '%s(%s)' % (rng[2].split('::')[-1], ','.join('c%d' % b2 if b2 is not None else shape(o) for b2, o in zip(bounds, rng[3])))
                        if all(b2 is not None for b2 in bounds) and bounds:
                            need = max(bounds)
                    st = None
                    if need is not None:
                        if need == 0:
                            st = 'auto:empty-range-bound'
                        else:
                            if facts is None:
                                facts = length_facts(F, f)
                            good = [ed for ed, S2, lb in facts if S2 == S and lb >= need]
                            if good and f.dominated_by_edges(bi, good):
                                st = 'auto:length-test-dominates'
                    yield {'fn': name, 'f': f, 'bi': bi, 'kind': 'slice', 'sig': sig, 'status': st, 'need': 'len(%s) >= %s' % (core.show(S)[:40], need)}
                elif fn.startswith('core::panicking::') or fn in ('std::option::Option::unwrap', 'std::option::Option::expect', 'std::result::Result::unwrap', 'std::result::Result::expect',
                                                                 'std::option::unwrap_failed', 'std::option::expect_failed', 'std::result::unwrap_failed'):
                    msg = ''
                    for a in t['a']:
                        if a[0] == 'k' and a[1].startswith('"'):
                            msg = a[1][:70]
                    what = fn.split('::')[-1]
                    yield {'fn': name, 'f': f, 'bi': bi, 'kind': 'panic', 'sig': '%s %s %s' % (what, t.get('exp') or '', msg), 'status': None, 'need': 'unreachable'}


def _wide(f, e):
    x = strip(e)
    return True


def _max_of(f, e):
    """upper bound from the type of a cast source (u8 -> 255)"""
    x = e
    while x[0] in ('ref', 'deref', 'upvar'):
        x = x[1]
    if x[0] == 'cast':
        inner = x[1]
        y = strip(inner)
        if y[0] == 'index':
            return 255 if 'u8' in str(x[2]) or True else None
        if y[0] == 'var' or y[0] == 'arg':
            ty = f.local_ty(y[1])
            if ty == 'u8':
                return 255
    return None


def _sub_guarded(F, f, bi, a, b):
    """a - b is safe when dominated by an edge implying a >= b (same canonical operands)"""
    A, B = canon(a), canon(b)
    strict = False
    if A[0] == 'bin' and A[1] == 'Sub' and const_of(B) == 1:
        # (x - y) - 1 needs x > y
        A, B = A[2], A[3]
        strict = True
    good = []
    for sb, sw in core.all_switches(F, f).items():
        c = core.cmp_of(sw)
        if c is None:
            continue
        op, x, y = c
        X, Y = canon(x), canon(y)
        for s, lab in sw.labels.items():
            if lab is None:
                continue
            ok = False
            if (X, Y) == (A, B):
                if strict:
                    ok = (op == 'Gt' and lab is True) or (op == 'Le' and lab is False)
                else:
                    ok = (op == 'Ge' and lab is True) or (op == 'Lt' and lab is False) or (op == 'Gt' and lab is True) or (op == 'Le' and lab is False)
            elif (X, Y) == (B, A):
                if strict:
                    ok = (op == 'Lt' and lab is True) or (op == 'Ge' and lab is False)
                else:
                    ok = (op == 'Le' and lab is True) or (op == 'Gt' and lab is False) or (op == 'Lt' and lab is True) or (op == 'Ge' and lab is False)
            if ok:
                good.append((sb, s))
    if good and f.dominated_by_edges(bi, good):
        return 'auto:guarded-subtraction'
    return None
