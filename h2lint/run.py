"""h2lint.run — extraction cache, rule context, evidence and reporting (DESIGN.md §3.5-3.7)."""
import fcntl
import glob
import hashlib
import importlib
import json
import os
import shutil
import subprocess
import sys
import time
import traceback

from . import core

VERIF = os.path.dirname(os.path.dirname(os.path.abspath(__file__)))
CACHE = os.environ.get('VERIF_CACHE', os.path.join(VERIF, '.cache'))
DRIVER = os.path.join(VERIF, 'driver', 'target', 'debug', 'h2facts')

CONFIGS = {
    # name: (features, release?)
    'su-dbg': ('stream,unstable', False),
    'def-dbg': ('', False),
    'su-rel': ('stream,unstable', True),
    'def-rel': ('', True),
}
QUICK_CONFIGS = ['su-dbg']
THOROUGH_CONFIGS = ['su-dbg', 'def-dbg', 'su-rel', 'def-rel']


def h2_src():
    return os.path.abspath(os.environ.get('H2_SRC', '/repo'))


def _sha_file(h, p):
    with open(p, 'rb') as fh:
        h.update(p.encode())
        h.update(b'\0')
        h.update(fh.read())
        h.update(b'\0')


def tree_hash(src):
    h = hashlib.sha256()
    files = []
    for root, dirs, fs in os.walk(os.path.join(src, 'src')):
        dirs.sort()
        for f in sorted(fs):
            files.append(os.path.join(root, f))
    for f in ['Cargo.toml', 'Cargo.lock']:
        p = os.path.join(src, f)
        if os.path.exists(p):
            files.append(p)
    for p in sorted(glob.glob(os.path.join(src, '*', 'Cargo.toml')) + glob.glob(os.path.join(src, '*', '*', 'Cargo.toml'))):
        files.append(p)
    for p in files:
        # hash relative names so that scratch copies of the same tree share facts
        with open(p, 'rb') as fh:
            h.update(os.path.relpath(p, src).encode())
            h.update(b'\0')
            h.update(fh.read())
            h.update(b'\0')
    if os.path.exists(DRIVER):
        with open(DRIVER, 'rb') as fh:
            h.update(hashlib.sha256(fh.read()).digest())
    return h.hexdigest()[:24]


_sysroot = None


def sysroot():
    global _sysroot
    if _sysroot is None:
        _sysroot = subprocess.check_output(['rustc', '+nightly', '--print', 'sysroot'], text=True).strip()
    return _sysroot


class NoVerdict(Exception):
    """the checker could not run (tree does not compile, driver missing): exit 2"""


def extract(config, src=None, thash=None, quiet=True):
    """return path of the fact file for (tree, config), extracting if needed"""
    src = src or h2_src()
    thash = thash or tree_hash(src)
    os.makedirs(os.path.join(CACHE, 'facts'), exist_ok=True)
    out = os.path.join(CACHE, 'facts', '%s-%s.json' % (thash, config))
    if os.path.exists(out):
        return out
    if not os.path.exists(DRIVER):
        raise NoVerdict('driver not built: run setup (./check setup)')
    feats, release = CONFIGS[config]
    slot = os.environ.get('VERIF_SLOT', '')
    tdir = os.path.join(CACHE, 'target' + slot, config)
    os.makedirs(tdir, exist_ok=True)
    lock = open(os.path.join(tdir, '.h2lint.lock'), 'w')
    fcntl.flock(lock, fcntl.LOCK_EX)
    try:
        if os.path.exists(out):
            return out
        prof = 'release' if release else 'debug'
        # cargo skips the wrapper when h2 looks fresh: drop h2's own fingerprints
        for d in glob.glob(os.path.join(tdir, prof, '.fingerprint', 'h2-*')):
            shutil.rmtree(d, ignore_errors=True)
        env = dict(os.environ)
        env['LD_LIBRARY_PATH'] = os.path.join(sysroot(), 'lib') + (':' + env['LD_LIBRARY_PATH'] if env.get('LD_LIBRARY_PATH') else '')
        env['RUSTFLAGS'] = '-Zmir-opt-level=0 -Awarnings'
        env['RUSTC_WORKSPACE_WRAPPER'] = DRIVER
        env['H2FACTS_OUT'] = out
        env['H2FACTS_CRATE'] = 'h2'
        env['CARGO_TARGET_DIR'] = tdir
        env['CARGO_NET_OFFLINE'] = 'true'
        env.pop('RUSTC_WRAPPER', None)
        cmd = ['cargo', '+nightly', 'check', '--offline', '-p', 'h2', '--lib']
        if feats:
            cmd += ['--features', feats]
        if release:
            cmd += ['--release']
        t0 = time.time()
        p = subprocess.run(cmd, cwd=src, env=env, stdout=subprocess.PIPE, stderr=subprocess.STDOUT, text=True)
        if p.returncode != 0 or not os.path.exists(out):
            tail = '\n'.join(p.stdout.splitlines()[-40:])
            raise NoVerdict('extraction failed for config %s (cargo exit %d):\n%s' % (config, p.returncode, tail))
        if not quiet:
            print('extracted %s in %.1fs' % (config, time.time() - t0))
        return out
    finally:
        fcntl.flock(lock, fcntl.LOCK_UN)
        lock.close()


_facts_cache = {}


def facts_for(config, src=None, thash=None):
    path = extract(config, src, thash)
    if path not in _facts_cache:
        _facts_cache[path] = core.load(path, config)
    return _facts_cache[path]


# --------------------------------------------------------------------------- rule context


class Result:
    def __init__(self, rule, key, ok, where, detail, witness=None, config=''):
        self.rule = rule
        self.key = key
        self.ok = ok
        self.where = where
        self.detail = detail
        self.witness = witness or []
        self.config = config

    @property
    def fullkey(self):
        return '%s|%s' % (self.rule, self.key)


class Rule:
    def __init__(self, ctx, rid, template, text):
        self.ctx = ctx
        self.id = rid
        self.template = template
        self.text = text
        self.results = []
        self.notes = []
        self.exceptions_used = []
        self.stats = {}

    # outcome recording
    def ok(self, key, where='', detail=''):
        self.results.append(Result(self.id, key, True, where, detail, config=self.ctx.facts.config))

    def bad(self, key, where='', detail='', witness=None):
        self.results.append(Result(self.id, key, False, where, detail, witness, config=self.ctx.facts.config))

    def check(self, cond, key, where='', detail='', witness=None):
        if cond:
            self.ok(key, where, detail)
        else:
            self.bad(key, where, detail, witness)
        return bool(cond)

    def exception(self, key, reason):
        self.exceptions_used.append({'key': key, 'reason': reason})

    def note(self, s):
        self.notes.append(s)

    def stat(self, k, v):
        self.stats[k] = self.stats.get(k, 0) + v

    # fail-closed helpers
    def fn(self, name):
        f = self.ctx.facts.fn(name)
        if f is None:
            self.bad('anchor|' + name, '', 'anchor function %s not found in the analysed crate: the rule cannot be evaluated (fail closed)' % name)
        return f

    def floor(self, found, floor, what):
        self.check(found >= floor, 'floor|' + what, '', '%s: found %d, floor %d%s' % (what, found, floor, '' if found >= floor else ' — fewer instances than confirmed by hand: the rule would pass vacuously (fail closed)'))

    def guard(self, fn_callable, key):
        """run a piece of rule logic; internal errors fail closed"""
        try:
            return fn_callable()
        except core.Cap as e:
            self.bad('cap|' + key, '', 'dataflow state cap exceeded (%s): fail closed' % e)
        except Exception as e:  # noqa
            self.bad('internal|' + key, '', 'rule could not be evaluated (%s: %s): fail closed\n%s' % (type(e).__name__, e, traceback.format_exc(limit=4)))
        return None


class Ctx:
    def __init__(self, prop, tier, facts, all_facts):
        self.prop = prop
        self.tier = tier
        self.facts = facts
        self.all_facts = all_facts
        self.rules = []
        self.assumptions = []

    def rule(self, rid, template, text):
        r = Rule(self, rid, template, text)
        self.rules.append(r)
        return r

    def assume(self, s):
        if s not in self.assumptions:
            self.assumptions.append(s)


ADDED = {
    'C01': "Added from seeded changes: (R5) with Encoder.next occupied Encoder::has_capacity returns false on every path, so header blocks stay contiguous and a staged remainder is never overwritten; (R7) clearing a stream's queue drops only that stream's in-flight DATA; (R8) the 30 rows of State::recv_reset (end-of-stream is reported only after END_STREAM); (R9) range provenance of the frame buffer in decode_frame: every loader and the CONTINUATION reassembly receive bytes[9..].",
    'C02': "Added: (R5b) the streams skipped by a window decrease are those skipped by an increase (send-closed AND nothing buffered); (R6) window updates derive from the signed field; (R7) truth tables of is_send_closed / is_send_streaming over the 15 states.",
    'C03': "Added: (R9) a stream popped from pending_window_updates always passes the release step; (R10) a release that queues a stream WINDOW_UPDATE wakes the connection task.",
    'C04': "Added: (R4b) promotion from pending_open only behind has_send_capacity; (R6, typestate) the State::is_* tests guarding a stream WINDOW_UPDATE build site admit no closed state over the 15 reference states; (R7) one idle boundary id < next / id >= next and next_stream_id advances to id.next_id(); (R8) block contiguity (= C01.R5).",
    'C05': "Added: (R5) every stream popped from pending_open is counted; (R6) queue_open exactly under is_local_init && !is_pending_push; (R7) the refusal slot is emptied only after the RST_STREAM(REFUSED_STREAM) was buffered. (R9) a received RST_STREAM releases the slot from every state: State::recv_reset over the 15 reference states x {queued, not} leaves no scheduled-only reset behind (F11).",
    'C06': "Added: path-sensitive forms of the ping registration and closer notification rules (every exit registers / notifies). (R8 = C05.R3) a stream popped from a work queue is processed or re-queued on every path.",
    'C07': "Added: (R2) every non-error exit of recv_eof / handle_error / recv_go_away passed the per-stream walk and the walk notifies every stream on every path; (R6) 30 rows: a connection error / EOF closes every live state and leaves closed ones (a cleanly ended stream still delivers); (R8) Drop for UserPingsRx publishes CLOSED before waking.",
    'C08': "Added: (R6, TSTATE) for 15 states x own-RST-queued, a stream that State::recv_reset turns into a remote reset was counted by Recv::recv_reset, so assert!(num_remote_reset_streams > 0) is unreachable; (R7) SETTINGS_MAX_FRAME_SIZE below 2^14 is refused (ordering regions at the store); (R8) owed-reply slots are never emptied without the reply; (R9) reset ids are retired; (R10) the client's only self-wake is edge-triggered; (R11) preface reads are bounded by the bytes still missing.",
    'C09': "Added: (R8) one idle boundary for all comparisons of an id with next_stream_id; (R9) every connection error queues a GOAWAY with its code and fails the streams; the only short-cuts (handle_go_away, go_away_now) compare reason and last-stream-id with the GOAWAY in flight.",
    'C10': "Added: (R6) Encoder::update_max_size evaluated for every weak ordering of (new, pending, table max): final = requested, minimum first; (R7/R8) both dynamic tables store iff size+len <= max and evict exactly while > max, accounting paired; (R9) entry size = 32 + pseudo-name length + value; (R10) every representation arm consumes what it decoded.",
    'C11': "Added: (R6) eviction / store boundaries as ordering regions; (R7) entry-size table.",
    'C12': "Added: (R3) header-block write limit is exactly max_frame_size + 9; (R6) the final flush is marked done only on the Ready(Ok) edge of flush(); (R7) payload range provenance in decode_frame; (R8) the reader's limits follow the acknowledged local SETTINGS parameter by parameter (delta semantics).",
    'C13': "Added: (R4) recv_headers explored under {END_STREAM, content-length > 0, :status absent}: every exit is an error; (R5) the regular-field-seen flag guards all six pseudo stores and is carried across CONTINUATION frames. (R8) the predicate that admits interim (1xx) HEADERS, State::is_send_awaiting_headers, agrees with the reference on all 15 states.",
    'C14': "Added: (R7) no-loss discipline of the owed SETTINGS-ack / PONG slots under write back-pressure; (R8) the window delta reaches the same streams for increase and decrease; (R9) a PING ack consumes only the PING it echoes; (R4) local limits are applied as a delta. (R6) Ping.ack, evaluated as an expression over all 256 flag octets, is (flags & 0x1 != 0).",
    'C15': "Added: (R4b) only the matching ack consumes the shutdown PING; (R6) the final GOAWAY is flushed before the transport is shut down.",
    'C16': "Added: (R7) every clear_queue is followed by reclaim_all_capacity on every path (returns and loop back-edges).",
    'C17': "Added: (R7) clearing a stream's queue drops only that stream's in-flight DATA frame.",
    'C18': "Added: budget charged with the unpadded payload; header-list size accumulated across CONTINUATION frames; (R7) the write-buffer gate measures capacity() - len(); (R8) no-loss of owed replies. (R7) the sum the write-buffer gate compares is +capacity(buf) - len(buf) - min_buffer_capacity, however the comparison is written.",
    'C19': "Added: (R6) client::Connection::poll re-checks has_streams_or_other_references after polling; (R8) the last reference of a closed stream wakes the connection whatever queues still hold it. (R11 = C05.R9) no scheduled-only reset survives a received RST_STREAM; (R12 = C16.R7) the window behind discarded DATA returns to the connection.",
    'C20': "Added: (R6/R7) handles dropped on another thread during a poll are noticed (post-poll re-check, last-reference wake). (R10 = C06.R1b) every handle operation that queues work for the connection wakes its task - the only signal that crosses threads. (RD) no Result of an h2 call is dropped in the handle layer.",
}


def census_sentence(prop):
    """what the four frozen-instance tables contribute to this property (counts from the committed tables)"""
    out = []
    base = os.path.join(VERIF, 'h2lint', 'rules')
    for fname, rid, what in (('boundaries.json', 'RB', 'ordering comparisons split at the reviewed side of equality'),
                             ('amounts.json', 'RA', 'flow-control / budget calls receive the amount derived from the reviewed source'),
                             ('calls.json', 'RC', 'reviewed steps are still taken on every non-error path or at all, directly or through helpers'),
                             ('guards.json', 'RG', 'reviewed actions (error exits, calls of mutating h2 methods, field writes, Pending / None answers) execute under the reviewed tests *and outcomes* (control dependence; outcomes written independently of spelling: T/F, eq/ne/lt/le/gt/ge on canonically ordered operands, match arms)'),
                             ('writes.json', 'RW', 'reviewed bookkeeping assignments are still performed'),
                             ('codes.json', 'RE', 'reviewed error sites still pass their reviewed HTTP/2 error code'),
                             ('inits.json', 'RI', 'reviewed configuration / limit fields are initialised from their reviewed source'),
                             ('predicates.json', 'RP', 'boolean functions compute the reviewed truth table over their atoms (extracted from MIR; calls / fields two-valued, comparisons lt/eq/gt, matches per arm), however they are written'),
                             ('updates.json', 'RU', 'in-place updates of counters / ledgers / flag octets keep their operator (+= stays +=) and the source of their amount'),
                             ('counts.json', 'RQ', 'effects (calls taking `&mut`, buffer writes, wakers, callbacks, field writes) still occur at least as often on an entry-to-return path as reviewed - minimum and maximum over all paths of the normalised MIR, back edges ignored (a deleted or newly conditional statement lowers one; restructuring keeps both)')):
        try:
            with open(os.path.join(base, fname)) as fh:
                n = sum(1 for e in json.load(fh) if prop in e['props'])
        except Exception:
            n = 0
        if n:
            out.append('%s.%s: %d %s' % (prop, rid, n, what))
    try:
        from . import errdisc
        if prop in errdisc.SCOPE:
            out.append('%s.RD: error discipline over %s - the Result of every h2 call is propagated, matched, returned or passed on, never dropped (use chains of the returned local in MIR; one accepted discard, in Drop)' % (prop, ', '.join(x.replace('src/', '') for x in errdisc.SCOPE[prop])))
    except Exception:
        pass
    if prop in ('C02', 'C03', 'C05', 'C06', 'C16'):
        out.append('%s.RL: send/receive layering, namesake accessors and direction words (a `&self` accessor named after one direction never reads the other direction\'s field or method)' % prop)
    if not out:
        return ''
    return ' Census rules (reviewed instances frozen with one reason each, keyed by function / resolved callee / operand roots, never by text): ' + '; '.join(out) + '.'


def full_explanation(mod, prop):
    return (getattr(mod, 'EXPLANATION', '') + ' ' + ADDED.get(prop, '')).strip() + census_sentence(prop)


def load_known():
    p = os.path.join(VERIF, 'known_findings.json')
    if not os.path.exists(p):
        return []
    with open(p) as fh:
        return json.load(fh)['findings']


LEVEL_TEXT = {}


def run_property(prop, tier='quick', out=sys.stdout):
    t0 = time.time()
    seed = int(os.environ.get('VERIF_SEED', '0') or 0)
    src = h2_src()
    thash = tree_hash(src)
    configs = QUICK_CONFIGS if tier == 'quick' else THOROUGH_CONFIGS
    mod = importlib.import_module('h2lint.rules.' + prop)
    all_facts = {}
    for c in configs:
        all_facts[c] = facts_for(c, src, thash)
    ctxs = []
    for c in configs:
        ctx = Ctx(prop, tier, all_facts[c], all_facts)
        try:
            mod.run(ctx)
        except Exception as e:  # a crash of a property module is a checker failure → fail closed
            r = ctx.rule(prop + '.R0', 'INTERNAL', 'checker integrity')
            r.bad('internal|module', '', 'property module crashed: %s\n%s' % (e, traceback.format_exc(limit=6)))
        ctxs.append(ctx)
    extra = {}
    if tier == 'thorough' and hasattr(mod, 'thorough'):
        extra = mod.thorough(ctxs[0]) or {}

    known = [k for k in load_known() if k['property'] == prop or prop in k.get('also', [])]
    open_keys = {k['key']: k for k in known if k.get('status') == 'open'}

    # merge results over configs
    merged = {}
    for ctx in ctxs:
        for r in ctx.rules:
            for res in r.results:
                k = res.fullkey
                m = merged.get(k)
                if m is None:
                    merged[k] = {'res': res, 'configs_ok': [], 'configs_bad': []}
                    m = merged[k]
                (m['configs_ok'] if res.ok else m['configs_bad']).append(res.config)
                if not res.ok and m['res'].ok:
                    m['res'] = res
    violations = []
    known_hits = []
    for k, m in merged.items():
        if m['configs_bad']:
            if k in open_keys:
                known_hits.append((open_keys[k], m))
            else:
                violations.append((k, m))

    wdir = os.path.join(VERIF, 'out', 'witness' + os.environ.get('VERIF_SLOT', ''))
    os.makedirs(wdir, exist_ok=True)
    for old in glob.glob(os.path.join(wdir, prop + '-*.json')):
        os.remove(old)
    n_ob = len(merged)
    n_ok = sum(1 for m in merged.values() if not m['configs_bad'])

    for kf, m in known_hits:
        print('KNOWN-FINDING: property=%s %s [%s]' % (prop, kf['what'], kf['key']), file=out)
    for i, (k, m) in enumerate(violations, 1):
        res = m['res']
        wp = os.path.join('out', 'witness' + os.environ.get('VERIF_SLOT', ''), '%s-%d.json' % (prop, i))
        with open(os.path.join(VERIF, wp), 'w') as fh:
            json.dump({'property': prop, 'rule': res.rule, 'key': k, 'where': res.where, 'detail': res.detail,
                       'witness': res.witness, 'configs': m['configs_bad'], 'tree': thash, 'src': src}, fh, indent=1)
        print('VIOLATION property=%s replay=%s' % (prop, wp), file=out)
        print('  rule %s  key %s' % (res.rule, k), file=out)
        if res.where:
            print('  at   %s' % res.where, file=out)
        for line in str(res.detail).splitlines():
            print('  %s' % line, file=out)
        for w in res.witness[:12]:
            print('    via %s' % (w,), file=out)

    # evidence
    rules_ev = []
    samples = []
    ctx0 = ctxs[0]
    for r in ctx0.rules:
        rr = [x for x in r.results]
        rules_ev.append({
            'rule': r.id, 'template': r.template, 'text': r.text,
            'obligations': len(rr), 'discharged': sum(1 for x in rr if x.ok),
            'exceptions_used': r.exceptions_used, 'notes': r.notes, 'stats': r.stats,
            'instances': [{'key': x.key, 'ok': x.ok, 'where': x.where, 'detail': x.detail[:300]} for x in rr[:400]],
        })
        for x in rr[:3]:
            samples.append({'rule': r.id, 'instance': x.key, 'where': x.where, 'holds': x.ok, 'detail': x.detail[:200]})
    f0 = ctx0.facts
    ev = {
        'property_id': prop,
        'tier': tier,
        'seed': seed,
        'level': 'other',
        'coverage': {
            'explanation': full_explanation(mod, prop),
            'obligations': n_ob,
            'discharged': n_ok,
            'evaluations': n_ob,
            'distinct_nontrivial': len(merged),
            'rule': 'one obligation per (rule, instance) discovered in the MIR of the current tree; an instance is a call site, function exit, table row or field write named by the rule; distinct by structural key',
            'samples': samples[:40],
            'checker_cmd': './check %s --tier %s' % (prop, tier),
            'trusted_base': ['rustc nightly MIR construction and Instance::try_resolve', 'driver/ (h2facts)', 'h2lint engine (incl. its program normalisation: jump threading of boolean temporaries, MIR inlining of functions absent from rules/known_fns.json, equivalent presentations of comparisons)', 'ref/*.json reference tables', 'rules/*.json reviewed instance tables'],
            'exhaustive': bool(getattr(mod, 'EXHAUSTIVE', False)),
            'configs': configs,
            'tree_hash': thash,
            'source': src,
            'analysed': {'bodies': len(f0.fns), 'call_sites': f0.stats['calls'], 'resolved_calls': f0.stats['resolved'],
                         'new_helpers_not_inlined': sorted(getattr(f0, 'new_fns', ()))[:20]},
            'rules': rules_ev,
            'known_findings_matched': [kf['key'] for kf, _ in known_hits],
            'not_decided': getattr(mod, 'NOT_DECIDED', ''),
        },
        'assumptions': ctx0.assumptions + list(getattr(mod, 'ASSUMPTIONS', [])),
        'wall_s': round(time.time() - t0, 3),
        'violations': len(violations),
    }
    ev['coverage'].update(extra)
    evdir = os.environ.get('VERIF_EVIDENCE_DIR') or os.path.join(VERIF, 'evidence')
    os.makedirs(evdir, exist_ok=True)
    with open(os.path.join(evdir, prop + '.json'), 'w') as fh:
        json.dump(ev, fh, indent=1)
    print('%s %s: configs=%s bodies=%d calls=%d rules=%d obligations=%d discharged=%d known=%d violations=%d (%.1fs)' % (
        prop, tier, ','.join(configs), len(f0.fns), f0.stats['calls'], len(ctx0.rules), n_ob, n_ok, len(known_hits), len(violations), time.time() - t0), file=out)
    for r in ctx0.rules:
        print('  %-9s %-8s %3d/%-3d %s' % (r.id, r.template, sum(1 for x in r.results if x.ok), len(r.results), r.text[:90]), file=out)
    return 1 if violations else 0


def witness_check(doc=False):
    """type-check (and optionally doctest) the witness crate against the current tree.
    Returns (ok, detail, seconds)."""
    import re
    src = h2_src()
    wsrc = os.path.join(VERIF, 'witness')
    wdir = os.path.join(CACHE, 'witness' + os.environ.get('VERIF_SLOT', ''))
    os.makedirs(os.path.join(wdir, 'src'), exist_ok=True)
    with open(os.path.join(wsrc, 'Cargo.toml.in')) as fh:
        toml = fh.read().replace('@H2_SRC@', src)
    with open(os.path.join(wdir, 'Cargo.toml'), 'w') as fh:
        fh.write(toml)
    shutil.copyfile(os.path.join(wsrc, 'src', 'lib.rs'), os.path.join(wdir, 'src', 'lib.rs'))
    shutil.copyfile(os.path.join(src, 'Cargo.lock'), os.path.join(wdir, 'Cargo.lock'))
    env = dict(os.environ)
    env['CARGO_NET_OFFLINE'] = 'true'
    env['CARGO_TARGET_DIR'] = os.path.join(CACHE, 'target' + os.environ.get('VERIF_SLOT', ''), 'witness')
    env.pop('RUSTC_WORKSPACE_WRAPPER', None)
    env['RUSTFLAGS'] = '-Awarnings'
    t0 = time.time()
    cmd = ['cargo', '+nightly', 'test', '--doc', '--offline'] if doc else ['cargo', '+nightly', 'check', '--offline']
    p = subprocess.run(cmd, cwd=wdir, env=env, stdout=subprocess.PIPE, stderr=subprocess.STDOUT, text=True)
    out = p.stdout
    if doc:
        m = re.search(r'test result: (\w+)\. (\d+) passed; (\d+) failed', out)
        detail = m.group(0) if m else out[-600:]
        return p.returncode == 0, detail, time.time() - t0
    errs = re.findall(r'^error(?:\[E\d+\])?: .*$', out, re.M)
    return p.returncode == 0, ('type-checks' if p.returncode == 0 else '; '.join(errs[:4]) or out[-600:]), time.time() - t0
