"""HPACK structural rules shared by C10 / C11."""
from . import core, absint
from .absint import I, TOP
from .core import strip, walk, canon, has_field, mentions_field

DEC = 'hpack::decoder::'
ENC = 'hpack::encoder::'

# RFC 7541 section 6: first-byte pattern -> representation and integer prefix length
def rfc_class(b):
    if b & 0x80:
        return 'Indexed', 7
    if b & 0xC0 == 0x40:
        return 'LiteralWithIndexing', 6
    if b & 0xF0 == 0x00:
        return 'LiteralWithoutIndexing', 4
    if b & 0xF0 == 0x10:
        return 'LiteralNeverIndexed', 4
    if b & 0xE0 == 0x20:
        return 'SizeUpdate', 5
    return None, None


def representation_table(r, F):
    """C11/C10: Representation::load over all 256 first bytes = RFC 7541 §6 (exhaustive)"""
    f = r.fn(DEC + 'Representation::load')
    if not f:
        return
    it = absint.Interp(F)
    bad = 0
    for b in range(256):
        out = it.run(f, {1: I(b)})
        got = set()
        for ret, fin in out:
            if ret != TOP and ret[0] == 'e' and ret[2] == 'Ok' and ret[3] and ret[3][0] != TOP and ret[3][0][0] == 'e':
                got.add(ret[3][0][2])
            elif ret != TOP and ret[0] == 'e' and ret[2] == 'Err':
                got.add('Err')
            else:
                got.add('?')
        want, _ = rfc_class(b)
        if got != {want}:
            bad += 1
            if bad <= 6:
                r.bad('repr|0x%02x' % b, f.file, 'Representation::load(0x%02x) = %s, RFC 7541 §6: %s' % (b, sorted(got), want))
    if bad == 0:
        r.ok('repr|all-256', f.file, 'Representation::load agrees with RFC 7541 §6 on all 256 first bytes')
    r.stat('first_bytes_checked', 256)


def decoder_prefixes(r, F):
    """prefix sizes passed to decode_int per representation"""
    want = {DEC + 'Decoder::decode_indexed': {7}, DEC + 'Decoder::process_size_update': {5}, DEC + 'Decoder::decode_literal': {4, 6}, DEC + 'Decoder::try_decode_string': {7}}
    for fname, ws in sorted(want.items()):
        f = r.fn(fname)
        if not f:
            continue
        got = set()
        for bi, t in f.calls_to(DEC + 'decode_int'):
            e = strip(f.expr_of_op(t['a'][1]))
            if e[0] == 'const':
                got.add(e[1])
            elif e[0] == 'var':
                # `if index { 6 } else { 4 }`
                for d in f.defs.get(e[1], []):
                    if d[0] == 's' and d[3][0] == 'use' and core.op_const(d[3][1]):
                        got.add(core.op_const(d[3][1])[0])
        r.check(got == ws, 'decoder-prefix|' + fname.split('::')[-1], f.file, '%s reads its integer with prefix %s (RFC: %s)' % (fname.split('::')[-1], sorted(got), sorted(ws)))
    dl = F.fn(DEC + 'Decoder::decode_literal')
    if dl:
        # prefix 6 exactly on the true edge of the `index` flag
        idx = [i for i in range(1, dl.argc + 1) if dl.local_name(i) == 'index']
        okp = False
        if idx:
            te = core.edges_where(F, dl, lambda sw: sw.kind == 'bool' and strip(sw.subject) == ('arg', idx[0]), lambda l: l is True)
            fe = core.edges_where(F, dl, lambda sw: sw.kind == 'bool' and strip(sw.subject) == ('arg', idx[0]), lambda l: l is False)
            six = [bi for bi, si, pl, rv, ln in dl.stmts() if rv[0] == 'use' and core.op_const(rv[1]) and core.op_const(rv[1])[0] == 6 and core.op_const(rv[1])[2] == 'u8']
            four = [bi for bi, si, pl, rv, ln in dl.stmts() if rv[0] == 'use' and core.op_const(rv[1]) and core.op_const(rv[1])[0] == 4 and core.op_const(rv[1])[2] == 'u8']
            okp = bool(te) and bool(fe) and bool(six) and bool(four) and all(dl.dominated_by_edges(b, te) for b in six) and all(dl.dominated_by_edges(b, fe) for b in four)
        r.check(okp, 'decoder-prefix|decode_literal|flag', dl.file, 'decode_literal uses the 6-bit prefix exactly when the index flag is set (incremental indexing) and 4 bits otherwise')
        # callers pass true exactly for LiteralWithIndexing
        d = F.fn(DEC + 'Decoder::decode')
        if d:
            flags = {}
            for bi, t in d.calls_to(DEC + 'Decoder::decode_literal'):
                c = core.op_const(t['a'][2])
                arm = None
                for a2, sw in core.all_switches(F, d).items():
                    if sw.kind == 'variant' and sw.adt == DEC + 'Representation':
                        for s, lab in sw.labels.items():
                            if lab and len(lab) == 1 and d.dominated_by_edges(bi, [(a2, s)]):
                                arm = list(lab)[0]
                flags[arm] = c[0] if c else None
            r.check(flags == {'LiteralWithIndexing': 1, 'LiteralWithoutIndexing': 0, 'LiteralNeverIndexed': 0}, 'decoder-prefix|literal-arms', d.file, 'decode_literal(index flag) per arm: %s' % flags)
    ts = F.fn(DEC + 'Decoder::try_decode_string')
    if ts:
        r.check(F.const_val(DEC + 'Decoder::try_decode_string::HUFF_FLAG') == 0x80, 'decoder-prefix|huff-flag', ts.file, 'string literal H bit = 0x80')


def encoder_prefixes(r, F):
    """(prefix bits, first byte) constants at every encode_int site of the encoder agree with RFC 7541 §6 and with the decoder"""
    sites = []
    for name, f in F.fns.items():
        if not name.startswith(ENC) or '::test' in name:
            continue
        for bi, t in f.calls_to(ENC + 'encode_int'):
            bits = strip(f.expr_of_op(t['a'][1]))
            first = strip(f.expr_of_op(t['a'][2]))
            sites.append((name, f, bi, bits[1] if bits[0] == 'const' else None, first[1] if first[0] == 'const' else None))
    r.floor(len(sites), 6, 'encode_int call sites in hpack::encoder')
    for name, f, bi, bits, first in sites:
        if name == ENC + 'encode_str':
            ok = (bits, first) == (7, 0x80)
            r.check(ok, 'encoder-prefix|%s|%s,%s' % (name.split('::')[-1], bits, first), f.loc(bi), 'string length: prefix %s, first byte 0x%02x (Huffman flag)' % (bits, first or 0))
            continue
        cls, want = rfc_class(first) if first is not None else (None, None)
        ok = bits is not None and first is not None and want == bits and (first & ((1 << bits) - 1)) == 0
        r.check(ok, 'encoder-prefix|%s|%s,%s' % (name.split('::')[-1], bits, first), f.loc(bi),
                'encode_int(_, %s, 0x%02x): RFC class %s needs a %s-bit prefix' % (bits, first if first is not None else -1, cls, want))
    # raw first bytes written with put_u8 (name-literal forms)
    raw = []
    for fname in (ENC + 'Encoder::encode_header', ENC + 'encode_not_indexed2'):
        f = F.fn(fname)
        if not f:
            continue
        for bi, t in f.calls(lambda t: t['fn'] == 'bytes::BufMut::put_u8'):
            c = strip(f.expr_of_op(t['a'][1]))
            if c[0] == 'const':
                raw.append((fname, f, bi, c[1]))
    for fname, f, bi, c in raw:
        cls, want = rfc_class(c)
        r.check(cls in ('LiteralWithIndexing', 'LiteralWithoutIndexing', 'LiteralNeverIndexed') and (c & ((1 << want) - 1)) == 0, 'encoder-first-byte|%s|0x%02x' % (fname.split('::')[-1], c), f.loc(bi),
                'literal with a new name starts with 0x%02x (%s, index 0)' % (c, cls))
    # sensitive values are never indexed
    for fname in (ENC + 'encode_not_indexed', ENC + 'encode_not_indexed2'):
        f = F.fn(fname)
        if not f:
            continue
        sens = [i for i in range(1, f.argc + 1) if f.local_name(i) == 'sensitive']
        edges = core.edges_where(F, f, lambda sw: sw.kind == 'bool' and sens and strip(sw.subject) == ('arg', sens[0]), lambda l: l is True)
        never = []
        for bi, t in f.calls():
            if t['fn'] == ENC + 'encode_int':
                c = strip(f.expr_of_op(t['a'][2]))
                if c[0] == 'const' and c[1] == 0x10:
                    never.append(bi)
            if t['fn'] == 'bytes::BufMut::put_u8':
                c = strip(f.expr_of_op(t['a'][1]))
                if c[0] == 'const' and c[1] == 0x10:
                    never.append(bi)
        others = [bi for bi, t in f.calls() if (t['fn'] == ENC + 'encode_int' or t['fn'] == 'bytes::BufMut::put_u8') and bi not in never]
        ok = bool(edges) and bool(never) and all(f.dominated_by_edges(n, edges) for n in never)
        for o in others:
            for (a, b) in edges:
                if o in f.reachable([b]) and f.term(o)['fn'] != ENC + 'encode_str':
                    c = strip(f.expr_of_op(f.term(o)['a'][-2] if f.term(o)['fn'] == ENC + 'encode_int' else f.term(o)['a'][1]))
                    if c[0] == 'const' and c[1] == 0:
                        ok = False
        r.check(ok, 'sensitive|' + fname.split('::')[-1], f.file, 'a sensitive value is written with the never-indexed form (0001xxxx)')


def size_update_order(r, F):
    """C10.R3: a table size change is signalled first, each update paired with the table resize, within the allowance"""
    e = r.fn(ENC + 'Encoder::encode')
    if e:
        su = [bi for bi, t in e.calls_to(ENC + 'Encoder::encode_size_updates')]
        hdr = [bi for bi, t in e.calls(lambda t: t['fn'] in (ENC + 'Encoder::encode_header', ENC + 'Encoder::encode_header_without_name'))]
        r.check(len(su) == 1 and bool(hdr) and all(e.dominated_by_blocks(h, su) for h in hdr), 'size-update|first', e.file, 'encode_size_updates dominates every encode_header* in Encoder::encode')
    s = r.fn(ENC + 'Encoder::encode_size_updates')
    if s:
        rs = [(bi, canon(s.expr_of_op(t['a'][1]))) for bi, t in s.calls_to('hpack::table::Table::resize')]
        es = [(bi, canon(s.expr_of_op(t['a'][0]))) for bi, t in s.calls_to(ENC + 'encode_size_update')]
        r.check(len(rs) == 3 and len(es) == 3, 'size-update|sites', s.file, 'One: resize+signal; Two: min and max resized and signalled (%d resize, %d signals)' % (len(rs), len(es)))
        r.check(sorted(v for b, v in rs) == sorted(v for b, v in es), 'size-update|paired', s.file, 'every signalled size equals a size the table was resized to')
        # min before max in the Two arm: both orders follow the tuple field order
        two = [(b, v) for b, v in es if v[0] == 'field' and v[1][0] == 'variant' and v[1][2] == 'Two']
        if len(two) == 2:
            first = [b for b, v in two if v[3] == '0']
            second = [b for b, v in two if v[3] == '1']
            r.check(bool(first) and bool(second) and s.dominated_by_blocks(second[0], first), 'size-update|min-then-max', s.file, 'the smaller size is signalled before the final size')
        tk = s.calls(lambda t: t['fn'] == 'std::option::Option::take')
        r.check(bool(tk), 'size-update|once', s.file, 'the pending update is taken (signalled once)')
    u = r.fn(ENC + 'Encoder::update_max_size')
    if u:
        mins = [t for bi, t in u.calls(lambda t: t['fn'].endswith('::min') or t['fn'] == 'std::cmp::min')]
        reads = any(mentions_field(u.expr_of_op(a), ENC + 'Encoder', 'max_allowed_size') for t in mins for a in t['a'])
        r.check(bool(mins) and reads, 'size-update|capped', u.file, 'update_max_size caps the requested size with max_allowed_size (0.4.17)')


FORBIDDEN_REENCODE = {ENC + 'Encoder::encode', ENC + 'Encoder::encode_header', ENC + 'Encoder::encode_header_without_name', ENC + 'Encoder::encode_size_updates',
                      ENC + 'encode_int', ENC + 'encode_str', 'hpack::huffman::encode'}


def encode_once(r, F):
    """C10.R4: a header block is HPACK-encoded exactly once"""
    enc = ENC + 'Encoder::encode'
    callers = set(c.split('::{closure')[0] for c in F.rcg.get(enc, ()) if '::test' not in c)
    r.check(callers == {'frame::headers::HeaderBlock::into_encoding'}, 'encode-once|who', '', 'hpack::Encoder::encode is called only from HeaderBlock::into_encoding: %s' % sorted(callers))
    ce = F.fn('frame::headers::Continuation::encode')
    if ce:
        reach = F.reach_from([ce.name])
        hp = sorted(x for x in reach if x.startswith('hpack::table::') or x in FORBIDDEN_REENCODE)
        r.check(not hp, 'encode-once|continuation', ce.file, 'Continuation::encode reaches no HPACK function (the tail is not re-encoded): %s' % hp)
    eb = F.fn('frame::headers::EncodingHeaderBlock::encode')
    if eb:
        reach = F.reach_from([eb.name])
        hp = sorted(x for x in reach if x.startswith('hpack::table::') or x in FORBIDDEN_REENCODE)
        r.check(not hp, 'encode-once|block', eb.file, 'EncodingHeaderBlock::encode only copies bytes')


def decoder_limits(r, F):
    """C11.R2/R4: integer and size-update limits, Huffman padding rule present"""
    di = r.fn(DEC + 'decode_int')
    if di:
        mb = F.const_val(DEC + 'decode_int::MAX_BYTES')
        r.check(mb is not None and 1 <= mb <= 5, 'int|max-bytes', di.file, 'decode_int::MAX_BYTES = %s (<= 5 octets: the value fits 32 bits)' % mb)
        errs = [bi for bi, si, pl, rv, ln in di.stmts() if rv[0] == 'aggr' and rv[2].endswith('DecoderError::IntegerOverflow')]
        edges = core.edges_where(F, di, lambda sw: core.cmp_of(sw) is not None and core.cmp_of(sw)[0] == 'Eq' and any(c[1] == mb for c in core.consts_in(sw.subject)), lambda l: l is True)
        r.check(bool(errs) and bool(edges) and all(di.dominated_by_edges(e, edges) for e in errs), 'int|overflow-exit', di.file, 'the continuation loop leaves with IntegerOverflow when the byte counter reaches MAX_BYTES')
        # the back edge of the loop passes the counter comparison
        be = di.back_edges()
        r.check(bool(be), 'int|loop', di.file, 'decode_int has a continuation loop')
        pre = core.edges_where(F, di, lambda sw: core.cmp_of(sw) is not None and core.cmp_of(sw)[0] in ('Lt', 'Gt') and any(c[1] in (1, 8) for c in core.consts_in(sw.subject)), lambda l: l is True)
        r.check(bool(pre), 'int|prefix-range', di.file, 'prefix_size outside 1..=8 is rejected')
        # the verdict does not depend on where the input ends: once the counter has been advanced, the shortfall answer
        # (NeedMore) is reachable only past the `bytes == MAX_BYTES` test taken on its false side -- an over-long integer
        # whose fifth octet is the last one available is IntegerOverflow now, not NeedMore now and IntegerOverflow on
        # resumption (seeded C11-g)
        # RFC 7541 section 5.1: the prefix alone is the value exactly when it is *below* the all-ones mask; a prefix equal to the mask
        # announces continuation octets.  The early `return Ok(ret)` is on the `lt` side of `ret` against `mask` and that
        # side holds `lt` only.
        names = {l: di.local_name(l) for l in range(len(di.locals))}

        def mentions(e, nm):
            return any(x[0] == 'var' and names.get(x[1]) == nm for x in walk(e))
        single = []
        for bi, sw in core.all_switches(F, di).items():
            for flip in (False, True):
                cr = core.cmp_regions(sw, flip)
                if cr and mentions(cr[0], 'ret') and mentions(cr[1], 'mask') and not mentions(cr[0], 'mask'):
                    single.append((bi, cr[2]))
        oks = [bi for bi, si, pl, rv, ln in di.stmts() if pl == [0] and rv[0] == 'aggr' and rv[2].endswith('Result::Ok')]
        ok = len(single) == 1 and bool(oks)
        if ok:
            bi, regs = single[0]
            lt_edges = [(bi, s2) for s2, o in regs.items() if o == frozenset(['lt'])]
            rest_ok = all(o == frozenset(['lt']) or 'lt' not in o for o in regs.values())
            early = [o2 for o2 in oks if lt_edges and di.dominated_by_edges(o2, lt_edges)]
            # the continuation loop is not entered on the lt side
            be = di.back_edges()
            loopblocks = set(a for a, b in be)
            lt_reach = di.reachable([s2 for (_, s2) in lt_edges]) if lt_edges else set()
            ok = bool(lt_edges) and rest_ok and bool(early) and not (loopblocks & lt_reach)
        if not ({'ret', 'mask'} <= set(names.values())):
            # the rule finds the comparison through the names of the two locals; with other names it claims nothing
            r.ok('int|prefix-below-mask', di.file, 'locals `ret` / `mask` not present under these names -- not compared')
        else:
            r.check(ok, 'int|prefix-below-mask', di.file, 'the prefix alone is the value exactly when prefix < mask (2^N - 1); a prefix equal to the mask goes on to the continuation octets (RFC 7541 section 5.1)')
        bl = [l for l in range(len(di.locals)) if di.local_name(l) == 'bytes']
        incs = [bi for bi, si, pl, rv, ln in di.stmts() if bl and pl == [bl[0]] and strip(di.expr_of_rvalue(rv))[0] == 'bin' and strip(di.expr_of_rvalue(rv))[1] in ('Add', 'AddWithOverflow', 'AddUnchecked')]
        below = core.edges_where(F, di, lambda sw: core.cmp_of(sw) is not None and core.cmp_of(sw)[0] == 'Eq' and any(c[1] == mb for c in core.consts_in(sw.subject)), lambda l: l is False)
        below += core.edges_where(F, di, lambda sw: core.cmp_of(sw) is not None and core.cmp_of(sw)[0] == 'Ge' and any(c[1] == mb for c in core.consts_in(sw.subject)), lambda l: l is False)
        nm = [bi for bi, si, pl, rv, ln in di.stmts() if rv[0] == 'aggr' and rv[2].endswith('DecoderError::NeedMore')]
        ok = bool(incs) and bool(below) and bool(nm)
        for i in incs:
            reach = di.reachable(di.succ[i], cut_edges=below)
            if any(x in reach for x in nm):
                ok = False
        if not bl:
            r.ok('int|shortfall-below-limit', di.file, 'octet counter not present under the name `bytes` -- not compared')
        else:
            r.check(ok, 'int|shortfall-below-limit', di.file, 'after the octet counter is advanced, NeedMore is answered only past the counter test (bytes != MAX_BYTES): the verdict on an over-long integer does not depend on where the input is cut')
    d = r.fn(DEC + 'Decoder::decode')
    if d:
        # can_resize = false before each field decode; size update refused when !can_resize
        su = [bi for bi, t in d.calls_to(DEC + 'Decoder::process_size_update')]
        errs = [bi for bi, si, pl, rv, ln in d.stmts() if rv[0] == 'aggr' and rv[2].endswith('DecoderError::InvalidMaxDynamicSize')]
        cr = [l for l in range(len(d.locals)) if d.local_name(l) == 'can_resize']
        ok = bool(cr) and bool(su) and bool(errs)
        if ok:
            edges_t = core.edges_where(F, d, lambda sw: sw.kind == 'bool' and strip(sw.subject) == ('var', cr[0]), lambda l: l is True)
            edges_f = core.edges_where(F, d, lambda sw: sw.kind == 'bool' and strip(sw.subject) == ('var', cr[0]), lambda l: l is False)
            ok = bool(edges_t) and all(d.dominated_by_edges(b, edges_t) for b in su) and bool(edges_f) and all(d.dominated_by_edges(b, edges_f) for b in errs)
        r.check(ok, 'size-update|only-at-start', d.file, 'a size update is processed only while can_resize; otherwise InvalidMaxDynamicSize')
        if cr:
            clears = [bi for bi, si, pl, rv, ln in d.stmts() if pl == [cr[0]] and rv[0] == 'use' and core.op_const(rv[1]) and core.op_const(rv[1])[0] == 0]
            decs = [bi for bi, t in d.calls(lambda t: t['fn'] in (DEC + 'Decoder::decode_indexed', DEC + 'Decoder::decode_literal'))]
            r.check(len(decs) >= 4 and all(d.dominated_by_blocks(x, clears) for x in decs), 'size-update|field-clears-flag', d.file,
                    'each of the %d field arms clears can_resize before decoding (sibling agreement)' % len(decs))
    ps = r.fn(DEC + 'Decoder::process_size_update')
    if ps:
        errs = [bi for bi, si, pl, rv, ln in ps.stmts() if rv[0] == 'aggr' and rv[2].endswith('DecoderError::InvalidMaxDynamicSize')]
        edges = core.edges_where(F, ps, lambda sw: core.cmp_of(sw) is not None and core.cmp_of(sw)[0] == 'Gt' and mentions_field(core.cmp_of(sw)[2], DEC + 'Decoder', 'last_max_update'), lambda l: l is True)
        sets = [bi for bi, t in ps.calls_to(DEC + 'Table::set_max_size')]
        nedges = core.edges_where(F, ps, lambda sw: core.cmp_of(sw) is not None and core.cmp_of(sw)[0] == 'Gt' and mentions_field(core.cmp_of(sw)[2], DEC + 'Decoder', 'last_max_update'), lambda l: l is False)
        r.check(bool(errs) and bool(edges) and all(ps.dominated_by_edges(e, edges) for e in errs) and bool(sets) and all(ps.dominated_by_edges(x, nedges) for x in sets), 'size-update|within-allowance', ps.file,
                'new_size > last_max_update is InvalidMaxDynamicSize; set_max_size only otherwise')
    tg = r.fn(DEC + 'Table::get')
    if tg:
        errs = [bi for bi, si, pl, rv, ln in tg.stmts() if rv[0] == 'aggr' and rv[2].endswith('DecoderError::InvalidTableIndex')]
        r.check(len(errs) >= 2, 'index|rejects', tg.file, 'Table::get rejects index 0 and indices beyond the table (%d InvalidTableIndex exits)' % len(errs))
        z = core.edges_where(F, tg, lambda sw: (core.cmp_of(sw) is not None and core.cmp_of(sw)[0] == 'Eq' and any(c[1] == 0 for c in core.consts_in(sw.subject))) or (sw.kind == 'int' and any(v == 0 and v is not False for v in sw.labels.values())), lambda l: l is True or (l == 0 and l is not False))
        gs = [bi for bi, t in tg.calls_to(DEC + 'get_static')]
        le = core.edges_where(F, tg, lambda sw: core.cmp_of(sw) is not None and core.cmp_of(sw)[0] == 'Le' and any(c[1] == 61 for c in core.consts_in(sw.subject)), lambda l: l is True)
        r.check(bool(z) and bool(gs) and bool(le) and all(tg.dominated_by_edges(g, le) for g in gs) and not any(g in tg.reachable([b]) for (a, b) in z for g in gs), 'index|static-range', tg.file,
                'get_static is called only for 1 <= index <= 61')
    hd = r.fn('hpack::huffman::decode')
    if hd:
        oks = [bi for bi, si, pl, rv, ln in hd.stmts() if pl == [0] and rv[0] == 'aggr' and rv[2].endswith('Result::Ok')]
        tl = [l for l in range(len(hd.locals)) if hd.local_name(l) == 'table']
        ok = False
        if tl and oks:
            edges = []
            for bi, sw in core.all_switches(F, hd).items():
                c = core.cmp_of(sw)
                if c and c[0] == 'Eq' and strip(c[1]) == ('var', tl[0]) and any(k[1] == 0 for k in core.consts_in(c[2])):
                    edges += [(bi, s) for s, l in sw.labels.items() if l is True]
                if sw.kind == 'int' and strip(sw.subject) == ('var', tl[0]):
                    edges += [(bi, s) for s, l in sw.labels.items() if l == 0]
            ok = bool(edges) and all(hd.dominated_by_edges(o, edges) for o in oks)
        r.check(ok, 'huffman|complete-symbol', hd.file, 'huffman::decode returns Ok only when no symbol is half-decoded (table == 0)')
        errs = [bi for bi, si, pl, rv, ln in hd.stmts() if rv[0] == 'aggr' and rv[2].endswith('DecoderError::InvalidHuffmanCode')]
        r.check(len(errs) >= 3, 'huffman|errors', hd.file, 'invalid code / EOS / bad padding exits present (%d InvalidHuffmanCode sites)' % len(errs))
        # padding: comparison of the remaining bits with the all-ones mask
        pad = [bi for bi, sw in core.all_switches(F, hd).items() if core.cmp_of(sw) and core.cmp_of(sw)[0] == 'Eq' and any(x[0] == 'bin' and x[1] == 'BitAnd' for x in walk(sw.subject)) and any(x[0] == 'bin' and x[1] == 'Shl' for x in walk(sw.subject))]
        r.check(bool(pad), 'huffman|padding-all-ones', hd.file, 'the tail accepts only a prefix of EOS (acc & mask == mask)')


def resumability(r, F):
    """C11.R5: only fully decoded fields are consumed"""
    d = r.fn(DEC + 'Decoder::decode')
    if not d:
        return
    cons = [bi for bi, t in d.calls_to(DEC + 'consume')]
    r.floor(len(cons), 5, 'consume() sites in Decoder::decode (one per representation arm)')
    decs = [(bi, t['fn']) for bi, t in d.calls(lambda t: t['fn'] in (DEC + 'Decoder::decode_indexed', DEC + 'Decoder::decode_literal', DEC + 'Decoder::process_size_update'))]
    for bi, fn in decs:
        okedges = core.edges_where(F, d, lambda sw: sw.kind == 'variant' and any(x[0] == 'call' and x[3] == bi for x in walk(sw.subject)), lambda l: isinstance(l, frozenset) and 'Ok' in l and 'Err' not in l or l == frozenset(['Continue']))
        erredges = core.edges_where(F, d, lambda sw: sw.kind == 'variant' and any(x[0] == 'call' and x[3] == bi for x in walk(sw.subject)), lambda l: isinstance(l, frozenset) and ('Err' in l or 'Break' in l) and 'Ok' not in l)
        # the consume that follows is on the Ok edge; the Err edge reaches no consume
        nxt = [c for c in cons if c in d.reachable(d.succ[bi], cut_blocks=[x for x, _ in decs if x != bi])]
        ok = bool(okedges) and bool(nxt)
        for (a, b) in erredges:
            if any(c in d.reachable([b], cut_blocks=[x for x, _ in decs]) for c in cons):
                ok = False
        first = [c for c in nxt if d.dominated_by_edges(c, okedges)] if okedges else []
        r.check(ok and bool(first), 'resume|%s|%d' % (fn.split('::')[-1], len([x for x in r.results if x.key.startswith('resume|')])), d.loc(bi),
                'consume() after %s only on its Ok edge; a shortfall (NeedMore) leaves the input unconsumed' % fn.split('::')[-1])
    # decode_frame: NeedMore with END_HEADERS clear keeps the tail in Partial.buf
    df = F.fn('codec::framed_read::decode_frame')
    if df:
        ws = [bi for bi, si, pl, rv, ln in df.stmts() if rv[0] == 'aggr' and rv[1] == 'adt' and core.norm(rv[2]) == 'codec::framed_read::Partial']
        r.check(len(ws) >= 2, 'resume|partial-kept', df.file, 'an unfinished header block is stored in Partial (HEADERS and PUSH_PROMISE arms): %d sites' % len(ws))


def table_accounting(r, F):
    """C11.R6: decoder dynamic-table accounting"""
    T = DEC + 'Table'
    ins = r.fn(T + '::insert')
    if ins:
        pf = [bi for bi, t in ins.calls(lambda t: t['fn'].endswith('VecDeque::push_front'))]
        rs = [bi for bi, t in ins.calls_to(T + '::reserve')]
        adds = [bi for bi, si, pl, rv, ln in ins.stmts() if core.write_target(ins, pl) == (T, 'size') and strip(ins.expr_of_rvalue(rv))[0] == 'bin' and strip(ins.expr_of_rvalue(rv))[1] == 'Add']
        r.check(bool(pf) and bool(rs) and bool(adds) and all(ins.dominated_by_blocks(p, rs) for p in pf), 'table|insert', ins.file, 'insert: reserve (evict) first, then size += len and push_front')
        # the same len is used for the limit test, the accounting and the eviction
        lens = set()
        for bi, t in ins.calls_to('hpack::header::Header::len'):
            lens.add(bi)
        r.check(len(lens) == 1, 'table|insert|one-len', ins.file, 'the entry length is computed once and reused')
    for fname in (T + '::reserve', T + '::consolidate'):
        f = r.fn(fname)
        if f:
            pb = [bi for bi, t in f.calls(lambda t: t['fn'].endswith('VecDeque::pop_back'))]
            subs = [bi for bi, si, pl, rv, ln in f.stmts() if core.write_target(f, pl) == (T, 'size') and strip(f.expr_of_rvalue(rv))[0] == 'bin' and strip(f.expr_of_rvalue(rv))[1] == 'Sub']
            ok = bool(pb) and bool(subs)
            for p in pb:
                reach = f.reachable(f.succ[p], cut_blocks=subs)
                # after a successful pop the size is decremented before the next pop / return
                pass
            for sb in subs:
                e = f.expr_of_rvalue([rv for bi, si, pl, rv, ln in f.stmts() if bi == sb and core.write_target(f, pl) == (T, 'size')][0])
                if not core.contains_call(e, 'hpack::header::Header::len'):
                    ok = False
            r.check(ok, 'table|evict|' + fname.split('::')[-1], f.file, '%s: every pop_back is paired with size -= entry.len()' % fname.split('::')[-1])
    # boundaries (RFC 7541 §4.4): an entry is stored iff size + len <= max_size after eviction (an entry exactly as large
    # as the table is kept); eviction runs exactly while the (prospective) size is > max_size
    for fname, lhs_n, action, want in ((T + '::insert', 2, 'store', frozenset(['lt', 'eq'])), (T + '::reserve', 2, 'evict', frozenset(['gt'])), (T + '::consolidate', 1, 'evict', frozenset(['gt']))):
        f = F.fn(fname)
        if not f:
            continue
        found = []
        for bi, sw in core.all_switches(F, f).items():
            for flip in (False, True):
                cr = core.cmp_regions(sw, flip)
                if cr is None:
                    continue
                a, b, regs = cr
                ls = core.additive_leaves(a)
                if ls is None or not (strip(b)[0] == 'field' and core.last_field(strip(b)) == (T, 'max_size')):
                    continue
                if len(ls) != lhs_n or not any(strip(l)[0] == 'field' and core.last_field(strip(l)) == (T, 'size') for l in ls):
                    continue
                found.append((bi, regs))
        r.check(len(found) == 1, 'table|boundary|%s|compares' % fname.split('::')[-1], f.file, '%s compares %s with max_size (%d site(s))' % (fname.split('::')[-1], 'size + len' if lhs_n == 2 else 'size', len(found)))
        for bi, regs in found:
            if action == 'store':
                sites = [b2 for b2, t in f.calls(lambda t: t['fn'].endswith('VecDeque::push_front'))]
            else:
                sites = [b2 for b2, t in f.calls(lambda t: t['fn'].endswith('VecDeque::pop_back'))]
            edges = [(bi, s2) for s2, o in regs.items() if o == want]
            ok = bool(edges) and bool(sites) and all(f.dominated_by_edges(x, edges) for x in sites) and all(o in (want, core._ORD_ALL - want) for o in regs.values())
            r.check(ok, 'table|boundary|%s' % fname.split('::')[-1], f.loc(bi),
                    '%s: %s exactly when %s {%s} max_size (edges: %s)' % (fname.split('::')[-1], action, 'size + len' if lhs_n == 2 else 'size', ','.join(sorted(want)), sorted(','.join(sorted(o)) for o in regs.values())))
    # RFC 7541 section 4.4: eviction goes on until the (prospective) size fits *or the table is empty* -- an entry larger than the
    # whole table empties it.  Every return of the two eviction loops is reached through the fitting side of the comparison
    # or through the None arm of pop_back / back (seeded C11-f: an early return for an entry that can never fit)
    for fname, lhs_n in ((T + '::reserve', 2), (T + '::consolidate', 1)):
        f = F.fn(fname)
        if not f:
            continue
        allowed = []
        for bi, sw in core.all_switches(F, f).items():
            for flip in (False, True):
                cr = core.cmp_regions(sw, flip)
                if cr is None:
                    continue
                a, b, regs = cr
                ls = core.additive_leaves(a)
                if ls is None or not (strip(b)[0] == 'field' and core.last_field(strip(b)) == (T, 'max_size')):
                    continue
                if len(ls) != lhs_n or not any(strip(l)[0] == 'field' and core.last_field(strip(l)) == (T, 'size') for l in ls):
                    continue
                allowed += [(bi, s2) for s2, o in regs.items() if 'gt' not in o]
            if sw.kind == 'variant' and any(x[0] == 'call' and x[1].endswith(('VecDeque::pop_back', 'VecDeque::back')) for x in walk(sw.subject)):
                allowed += [(bi, s2) for s2, l in sw.labels.items() if isinstance(l, frozenset) and 'None' in l and 'Some' not in l]
        rets = f.returns()
        ok = bool(allowed) and bool(rets) and all(f.dominated_by_edges(x, allowed) for x in rets)
        wit = None
        if not ok and allowed and rets:
            wit = core.compress_path(f, f.path_between(0, rets[0], cut_edges=allowed) or [])
        r.check(ok, 'table|evict-until-fits|' + fname.split('::')[-1], f.file, '%s returns only once %s <= max_size or the table is empty (an entry larger than the table empties it, RFC 7541 section 4.4)' % (fname.split('::')[-1], 'size + len' if lhs_n == 2 else 'size'), witness=wit)
    sm = r.fn(T + '::set_max_size')
    if sm:
        r.check(bool(sm.calls_to(T + '::consolidate')), 'table|set_max_size', sm.file, 'set_max_size evicts down to the new limit (consolidate)')


def size_update_schedule(r, F, nvals=4):
    """C10.R6: Encoder::update_max_size as a relation over orderings.

    The function only compares its integers (new value, pending values, the table's current maximum), so its
    behaviour is determined by their weak ordering.  Every weak ordering of up to four values is enumerated with
    representative integers and the function is evaluated by abstract interpretation of its MIR (nothing is run).
    Obligation (RFC 7541 §4.2): after the call the last size to be signalled equals the new value (or nothing is
    pending and the table already has that size), and if the smallest size requested since the last header block
    is below the table's current size, a size no larger than it is signalled first."""
    from . import absint
    from .absint import E, I, TOP
    OPT = 'std::option::Option'
    SU = ENC + 'SizeUpdate'
    u = r.fn(ENC + 'Encoder::update_max_size')
    if not u:
        return
    n = 0
    bad = 0
    vals = range(nvals)
    for T in vals:
        for val in vals:
            pres = [('None', None)] + [('One', (a,)) for a in vals] + [('Two', (a, b)) for a in vals for b in vals if a <= b]
            for shape, ps in pres:
                if shape == 'None':
                    su = E(OPT, 'None')
                    m_pre = None
                else:
                    su = E(OPT, 'Some', (E(SU, shape, tuple(I(x) for x in ps)),))
                    m_pre = ps[0]
                enc = ('s', ENC + 'Encoder', tuple(sorted({'table': TOP, 'max_allowed_size': I(9), 'size_update': su, 'scratch': TOP}.items())))
                models = {
                    'hpack::table::Table::max_size': lambda a, T=T: I(T),
                    'std::cmp::Ord::min': lambda a: I(min(a[0][1], a[1][1])) if all(x != TOP and x[0] == 'i' for x in a[:2]) else TOP,
                }
                it = absint.Interp(F, models=models)
                try:
                    out = it.run(u, {1: ('ref', enc), 2: I(val)})
                except (absint.Unsupported, core.Cap) as e:
                    r.bad('schedule|interp', u.file, 'cannot evaluate update_max_size: %s' % e)
                    return
                for ret, finals in out:
                    n += 1
                    if ret != TOP and ret[0] == 'panic':
                        r.bad('schedule|panic|%s' % shape, u.file, 'update_max_size can panic: %s' % (ret,))
                        continue
                    fin = dict(finals).get(1)
                    post = TOP
                    if fin is not None and fin != TOP and fin[0] == 'ref' and fin[1] != TOP:
                        post = dict(fin[1][2]).get('size_update', TOP)
                    seq = None
                    if post != TOP and post[0] == 'e':
                        if post[2] == 'None':
                            seq = []
                        elif post[3] and post[3][0] != TOP and post[3][0][0] == 'e' and all(x != TOP and x[0] == 'i' for x in post[3][0][3]):
                            seq = [x[1] for x in post[3][0][3]]
                    if seq is None:
                        r.bad('schedule|unknown-post|%s' % shape, u.file, 'post-state of size_update not determined: %s' % (absint.show(post),))
                        continue
                    final_ok = (seq[-1] == val) if seq else (val == T)
                    m = val if m_pre is None else min(m_pre, val)
                    min_ok = True if m >= T else (bool(seq) and min(seq) <= m)
                    order_ok = len(seq) < 2 or seq[0] <= seq[1]
                    if not (final_ok and min_ok and order_ok):
                        bad += 1
                        what = ('the last size signalled is %s, the peer asked for %s' % (seq[-1] if seq else 'nothing (table stays at %d)' % T, val)) if not final_ok else \
                               ('the smallest size since the last block (%d) is never signalled: %s' % (m, seq) if not min_ok else 'sizes signalled out of order: %s' % seq)
                        r.bad('schedule|%s|%s' % (shape, 'final' if not final_ok else ('min' if not min_ok else 'order')), u.file,
                              'update_max_size(new=%d) with pending %s%s, table max %d: %s' % (val, shape, ps or '', T, what))
    if not bad:
        r.ok('schedule|all-orderings', u.file, 'update_max_size keeps (final = requested, minimum signalled first) for all %d ordering cases of (new, pending, table max)' % n)
    r.floor(n, 240 if nvals == 4 else nvals * nvals * (1 + nvals + nvals * (nvals + 1) // 2), 'ordering cases of update_max_size evaluated')


def encoder_table_accounting(r, F):
    """C10.R8: the encoder's dynamic table evicts like the decoder's (RFC 7541 §4.4) so both sides hold the same entries"""
    T = 'hpack::table::Table'
    cv = r.fn(T + '::converge')
    if cv:
        found = []
        for bi, sw in core.all_switches(F, cv).items():
            cr = core.cmp_regions(sw)
            if cr is None:
                continue
            a, b, regs = cr
            if strip(a)[0] == 'field' and core.last_field(strip(a)) == (T, 'size') and strip(b)[0] == 'field' and core.last_field(strip(b)) == (T, 'max_size'):
                found.append((bi, regs))
        r.check(len(found) == 1, 'enc-table|converge|compares', cv.file, 'converge compares size with max_size (%d site(s))' % len(found))
        ev = [bi for bi, t in cv.calls_to(T + '::evict')]
        for bi, regs in found:
            edges = [(bi, s2) for s2, o in regs.items() if o == frozenset(['gt'])]
            ok = bool(edges) and bool(ev) and all(cv.dominated_by_edges(x, edges) for x in ev) and all(o in (frozenset(['gt']), frozenset(['lt', 'eq'])) for o in regs.values())
            r.check(ok, 'enc-table|converge|boundary', cv.loc(bi), 'converge evicts exactly while size > max_size (same boundary as the decoder table)')
        # loops back to the test after each eviction
        r.check(bool(cv.back_edges()), 'enc-table|converge|loop', cv.file, 'converge re-tests after every eviction')
    ev = r.fn(T + '::evict')
    if ev:
        pb = [bi for bi, t in ev.calls(lambda t: t['fn'].endswith('VecDeque::pop_back'))]
        subs = [(bi, ev.expr_of_rvalue(rv)) for bi, si, pl, rv, ln in ev.stmts() if core.write_target(ev, pl) == (T, 'size')]
        ok = len(pb) == 1 and len(subs) == 1 and strip(subs[0][1])[0] in ('bin', 'field') and core.contains_call(subs[0][1], 'hpack::header::Header::len') and any(x[0] == 'bin' and x[1].startswith('Sub') for x in walk(subs[0][1]))
        r.check(ok, 'enc-table|evict|paired', ev.file, 'evict: one pop_back paired with size -= header.len() of the popped slot')
    us = r.fn(T + '::update_size')
    if us:
        adds = [ev2 for bi, si, pl, rv, ln in us.stmts() if core.write_target(us, pl) == (T, 'size') for ev2 in [us.expr_of_rvalue(rv)] if any(x[0] == 'bin' and x[1].startswith('Add') for x in walk(ev2))]
        cvs = us.calls_to(T + '::converge')
        r.check(len(adds) == 1 and any(x == ('arg', 2) for x in walk(adds[0])) and len(cvs) == 1, 'enc-table|update_size', us.file, 'update_size: size += len, then converge')
    rs = r.fn(T + '::resize')
    if rs:
        ws = [bi for bi, si, pl, rv, ln in rs.stmts() if core.write_target(rs, pl) == (T, 'max_size') and strip(rs.expr_of_rvalue(rv)) == ('arg', 2)]
        cvs = [bi for bi, t in rs.calls_to(T + '::converge')]
        clr = [bi for bi, t in rs.calls(lambda t: t['fn'].endswith('VecDeque::clear'))]
        # every path passes converge or the clear branch
        reach = rs.reachable([0], cut_blocks=cvs + clr)
        r.check(bool(ws) and bool(cvs) and not any(x in reach for x in rs.returns()), 'enc-table|resize', rs.file, 'resize stores the new max_size and evicts down to it on every path')
    # who adds entries: the length added to size is the length of the header inserted
    for fname in (T + '::index_vacant', T + '::index_occupied'):
        f = F.fn(fname)
        if f:
            for bi, t in f.calls_to(T + '::update_size'):
                e = f.expr_of_op(t['a'][1])
                r.check(core.contains_call(e, 'hpack::header::Header::len'), 'enc-table|insert-len|%s' % fname.split('::')[-1], f.loc(bi), 'update_size(%s)' % core.show(e)[:60])


def entry_size(r, F):
    """RFC 7541 §4.1: the size of an entry is 32 + len(name) + len(value); the pseudo names have fixed lengths"""
    f = r.fn('hpack::header::Header::len')
    if not f:
        return
    want = {'Authority': {32, 10}, 'Method': {32, 7}, 'Scheme': {32, 7}, 'Path': {32, 5}, 'Protocol': {32, 9}, 'Status': {32, 7, 3}}
    try:
        paths = core.decision_paths(F, f, max_paths=500)
    except core.Cap as e:
        r.bad('entry-size|paths', f.file, str(e))
        return
    seen = set()
    for conds, blocks in paths:
        labs = [l for sw, l, s in conds if sw.kind == 'variant' and isinstance(l, frozenset) and len(l) == 1]
        if not labs:
            continue
        v = list(labs[0])[0]
        consts = set()
        for b in blocks:
            for st in f.blocks[b]['s']:
                for c in core.consts_in(f.expr_of_rvalue(st[1])):
                    if isinstance(c[1], int):
                        consts.add(c[1])
        if v in want:
            seen.add(v)
            total = sum(consts)
            r.check(sum(want[v]) == total and 32 in consts, 'entry-size|' + v, f.file,
                    'Header::len(:%s) adds %s (= %d), RFC 7541 §4.1: 32 + %d-octet name%s' % (v.lower(), sorted(consts), total, sum(want[v]) - 32 - (3 if v == 'Status' else 0), ' + 3-octet value' if v == 'Status' else ''))
        elif v == 'Field':
            seen.add(v)
            calls = [t['fn'] for b in blocks for t in [f.blocks[b]['t']] if t['k'] == 'call']
            r.check(any('len' in c for c in calls), 'entry-size|Field', f.file, 'Header::len(field) = 32 + name.len() + value.len() (helper call)')
    r.check(seen >= set(want) | {'Field'}, 'entry-size|variants', f.file, 'all seven Header variants sized: %s' % sorted(seen))
    es = F.fn('hpack::encoder::encode_str')
    if es:
        ob = [t for bi, t in es.calls_to('hpack::encoder::encode_int_one_byte')]
        ok = len(ob) == 1 and strip(es.expr_of_op(ob[0]['a'][1]))[:2] == ('const', 7)
        r.check(ok, 'string-length|one-byte-test', es.file, 'encode_str decides the one-octet length form with encode_int_one_byte(len, 7) (value < 2^7 - 1), the same test encode_int applies')


def decode_runs_to_end(r, F):
    """every field of a header block goes through the HPACK decoder even when the block will be refused: the decode callback in
    HeaderBlock::load breaks off only on the connection-fatal abuse limit (HeaderListWayTooLarge); over-size / malformed /
    HeaderMap-full blocks keep decoding so that the dynamic table stays in sync with the peer's encoder"""
    ld = r.fn('frame::headers::HeaderBlock::load')
    if not ld:
        return
    cl = [F.fns[c] for c in sorted(F.cg.get(ld.name, ())) if c.startswith(ld.name + '::{closure') and c in F.fns]
    import collections

    def flag_of(e):
        while e[0] in ('deref', 'ref'):
            e = e[1]
        if e[0] == 'upvar':
            x = e[1]
            while x[0] in ('deref', 'ref'):
                x = x[1]
            if x[0] == 'var':
                return x[1]
        return None
    n = 0
    for c in cl:
        stores = collections.defaultdict(list)
        for bi, si, pl, rv, ln in c.stmts():
            if len(pl) > 1 and rv[0] == 'use' and core.op_const(rv[1]) is not None and core.op_const(rv[1])[0] == 1:
                fl = flag_of(c.expr_of_place(pl))
                if fl is not None:
                    stores[fl].append(bi)
        breaks = [bi for bi, si, pl, rv, ln in c.stmts() if rv[0] == 'aggr' and str(rv[2]).endswith('ControlFlow::Break')]
        if not breaks:
            continue
        # the flag whose stores dominate the breaks
        for b in breaks:
            n += 1
            doms = [fl for fl, bs in stores.items() if c.dominated_by_blocks(b, bs)]
            ok = any(len(stores[fl]) >= 7 for fl in doms)
            if not ok:
                # propagation of a Break produced by the size check: `if check_size!().is_break() { return Break }`
                pe = core.guard_edges(F, c, ['std::ops::ControlFlow::is_break'], lambda l: l is True)
                ok = bool(pe) and c.dominated_by_edges(b, pe)
            r.check(ok, 'decode-to-end|break', c.loc(b), 'the decode callback breaks off %s' % ('only right after raising the way-too-large flag' if ok else
                    'on a path that did not raise the way-too-large flag: the rest of the fragment is not decoded, so table-mutating fields after that point never reach the dynamic table although the connection lives on'))
    r.floor(n, 7, 'ControlFlow::Break sites in the decode callback')
