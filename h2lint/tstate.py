"""TSTATE rules: extracted State relation vs the generated RFC reference (C04.R1, C09.R1, C07.R6, C17.R5)."""
from . import absint, core, rfcstates as R
from .absint import B, TOP, show

SP = 'proto::streams::state::State::'


def _run(F, it, fname, s, extra):
    f = F.fns.get(SP + fname)
    args = {1: R.state_obj(s)}
    args.update(extra)
    return it.run(f, args)


def check_fn(r, F, fname, inputs, reference, what):
    """inputs: list of (label, {local: value}); reference(s, label) -> (ret class, next state[, extra ret])"""
    f = r.fn(SP + fname)
    if not f:
        return
    it = absint.Interp(F, models=R.models(), inline={SP + 'is_recv_end_stream', SP + 'is_closed'})
    n = 0
    for s in R.concrete_states():
        for label, extra in inputs:
            n += 1
            key = '%s|%s|%s' % (fname, show(s), label)
            try:
                out = _run(F, it, fname, s, extra)
            except core.Cap as e:
                r.bad(key, f.file, 'abstract interpretation failed: %s' % e)
                continue
            got = set()
            for ret, finals in out:
                rc = R.ret_class(ret)
                if rc == 'panic':
                    got.add(('panic', None))
                else:
                    ns = R.final_state(finals)
                    got.add((rc, ns))
            exp = reference(s, label)
            exp_rc, exp_ns = exp[0], exp[1]
            if exp_rc == 'panic':
                ok = all(g[0] == 'panic' for g in got) and bool(got)
            else:
                # debug_assert panics on the side are tolerated only if the reference allows them
                gs = set(g for g in got if g[0] != 'panic')
                ok = (len(gs) == 1 and _same_state(list(gs)[0][1], exp_ns) and list(gs)[0][0] == exp_rc and (len(got) == len(gs) or exp[-1] == 'may-assert')) \
                    or (exp[-1] == 'may-assert' and not gs and bool(got))
            r.check(ok, key, f.file, '%s: %s --%s--> extracted %s ; reference (%s, %s)' % (
                what, show(s), label, sorted((g[0], show(g[1]) if g[1] is not None else '-') for g in got), exp_rc, show(exp_ns)))
    r.stat('rows_' + fname, n)


def _same_state(a, b):
    if a is None or b is None:
        return False
    if a == b:
        return True
    # causes carry opaque payloads: compare variant skeletons
    return _skel(a) == _skel(b)


def _skel(v):
    if v == TOP or v is None:
        return '?'
    if v[0] == 'e':
        if v[1].endswith('Cause'):
            return (v[2],)
        return (v[2],) + tuple(_skel(x) for x in v[3])
    return '?'


def send_half(r, F):
    eos = [('eos=false', {2: B(False)}), ('eos=true', {2: B(True)})]
    check_fn(r, F, 'send_open', eos, lambda s, l: R.ref_send_open(s, l == 'eos=true'), 'send HEADERS')
    check_fn(r, F, 'send_close', [('-', {})], lambda s, l: R.ref_send_close(s), 'send END_STREAM')
    check_fn(r, F, 'reserve_local', [('-', {})], lambda s, l: R.ref_reserve(s, 'local'), 'send PUSH_PROMISE (promised stream)')
    local_reset_rows(r, F)
    from .rfcstates import E, SI, CA
    check_fn(r, F, 'set_scheduled_reset', [('-', {})],
             lambda s, l: ('unit', E(SI, 'Closed', (E(CA, 'ScheduledLibraryReset', (TOP,)),))) + (('may-assert',) if R.to_rfc(s)[0] == 'closed' else ()), 'scheduled reset')
    predicates(r, F, ['is_send_streaming', 'is_send_closed', 'is_send_awaiting_headers', 'is_closed', 'is_idle', 'is_scheduled_reset', 'is_reset'])


def predicates(r, F, names):
    it = absint.Interp(F, models=R.models())
    for name in names:
        f = F.fns.get(SP + name)
        if f is None:
            if name == 'is_send_awaiting_headers':
                continue
            r.bad('anchor|' + name, '', 'State::%s not found' % name)
            continue
        for s in R.concrete_states():
            out = it.run(f, {1: R.state_obj(s)})
            got = set(R.ret_class(ret) for ret, fin in out)
            exp = 'true' if R.PREDICATES[name](s) else 'false'
            r.check(got == {exp}, '%s|%s' % (name, show(s)), f.file, 'State::%s(%s) = %s, reference %s' % (name, show(s), sorted(got), exp))


def recv_half(r, F):
    from .rfcstates import E, SI, CA
    fm = 'frame::headers::Headers::'
    rows = []
    for eos in (False, True):
        for info in (False, True):
            rows.append(('eos=%s,1xx=%s' % (str(eos).lower(), str(info).lower()), eos, info))
    f = r.fn(SP + 'recv_open')
    if f:
        for s in R.concrete_states():
            for label, eos, info in rows:
                models = R.models()
                models[fm + 'is_end_stream'] = lambda argv, v=eos: B(v)
                models[fm + 'is_informational'] = lambda argv, v=info: B(v)
                it = absint.Interp(F, models=models)
                out = it.run(f, {1: R.state_obj(s)})
                got = set((R.ret_class(ret), _skelw(R.final_state(fin))) for ret, fin in out if R.ret_class(ret) != 'panic')
                exp = R.ref_recv_open(s, eos, info)
                exp_rc = exp[0] if exp[0] != 'Ok' else 'Ok(%s)' % ('true' if exp[2] else 'false')
                ok = got == {(exp_rc, _skel(exp[1]))}
                r.check(ok, 'recv_open|%s|%s' % (show(s), label), f.file, 'recv HEADERS: %s --%s--> extracted %s ; reference (%s, %s)' % (show(s), label, sorted(map(str, got)), exp_rc, show(exp[1])))
    check_fn(r, F, 'recv_close', [('-', {})], lambda s, l: R.ref_recv_close(s), 'recv END_STREAM')
    check_fn(r, F, 'reserve_remote', [('-', {})], lambda s, l: R.ref_reserve(s, 'remote'), 'recv PUSH_PROMISE (promised stream)')

    enders(r, F)
    recv_reset_rows(r, F)
    predicates(r, F, ['is_recv_streaming', 'is_recv_headers', 'is_recv_end_stream'])
    # ensure_recv_open: Closed(Error) -> Err, scheduled reset -> Err, end-of-stream-seen or reserved(local) -> Ok(false), else Ok(true)
    f = r.fn(SP + 'ensure_recv_open')
    if f:
        it = absint.Interp(F, models=R.models())
        for s in R.concrete_states():
            out = it.run(f, {1: R.state_obj(s)})
            got = set(R.ret_class(ret).split(':')[0] for ret, fin in out)
            if s[2] == 'Closed' and s[3][0][2] in ('Error', 'ScheduledLibraryReset'):
                exp = 'Err'
            elif R.recv_end_stream_seen(s) or s[2] == 'ReservedLocal':
                exp = 'Ok(false)'
            else:
                exp = 'Ok(true)'
            r.check(got == {exp}, 'ensure_recv_open|' + show(s), f.file, 'ensure_recv_open(%s) = %s, reference %s' % (show(s), sorted(got), exp))


def _skelw(v):
    return _skel(v)


def enders(r, F):
    """connection error / EOF: every non-closed state becomes Closed(Error); a closed state (in particular a cleanly
    ended one, Closed(EndStream)) is left alone so a complete message is still delivered"""
    from .rfcstates import E, SI, CA

    def ref_close(s, l):
        if R.to_rfc(s)[0] == 'closed':
            return ('unit', s)
        return ('unit', E(SI, 'Closed', (E(CA, 'Error', (TOP,)),)))
    check_fn(r, F, 'handle_error', [('-', {})], ref_close, 'connection error')
    check_fn(r, F, 'recv_eof', [('-', {})], ref_close, 'EOF')


def recv_reset_rows(r, F):
    """RST_STREAM received: closed-and-nothing-queued states stay -- except a reset of our own that is only *scheduled*:
    nothing has been sent for it yet, the peer's reset empties the send queue that would have carried it, and
    Counts::transition_after does not release a stream whose reset is still scheduled, so it must become a remote reset
    like any live state; otherwise Closed(ErrorAfterEndStream) iff END_STREAM had been received (whatever the reset
    code), else Closed(Error)"""
    from .rfcstates import E, SI, CA

    def ref_recv_reset(s, l):
        queued = l == 'queued=true'
        scheduled = s[2] == 'Closed' and s[3][0][2] == 'ScheduledLibraryReset'
        if R.to_rfc(s)[0] == 'closed' and not queued and not scheduled:
            return ('unit', s)
        cause = 'ErrorAfterEndStream' if R.recv_end_stream_seen(s) else 'Error'
        return ('unit', E(SI, 'Closed', (E(CA, cause, (TOP,)),)))
    check_fn(r, F, 'recv_reset', [('queued=false', {3: B(False)}), ('queued=true', {3: B(True)})], ref_recv_reset, 'recv RST_STREAM')


def local_reset_rows(r, F):
    """a local reset closes the stream with Cause::Error from every state — it never becomes ErrorAfterEndStream, so a body cut
    short by our own reset (e.g. a content-length violation found at the trailers) is never reported as a clean end"""
    from .rfcstates import E, SI, CA
    check_fn(r, F, 'set_reset', [('-', {})], lambda s, l: ('unit', E(SI, 'Closed', (E(CA, 'Error', (TOP,)),))), 'local reset')
