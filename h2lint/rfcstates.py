"""Reference stream automaton (RFC 9113 §5.1 + §8.1) and extraction of h2's State relation.

The reference is *generated* from the RFC's edge table composed with the HTTP message
rule "one head per direction, 1xx does not count" — an independent formulation, not a copy
of the match arms in state.rs.  h2's enum is mapped to (rfc state, local sub, remote sub):

  Idle -> (idle, A, A)   ReservedLocal -> (rl, A, -)   ReservedRemote -> (rr, -, A)
  Open{l,r} -> (open, l, r)   HalfClosedLocal(r) -> (hcl, -, r)   HalfClosedRemote(l) -> (hcr, l, -)
  Closed(cause) -> (closed, -, -)

sub-state A = the message head of that direction has not been sent/received yet, S = streaming.
"""
from . import absint
from .absint import E, B, I, TOP

SI = 'proto::streams::state::Inner'
PE = 'proto::streams::state::Peer'
CA = 'proto::streams::state::Cause'
ST = 'proto::streams::state::State'

A = E(PE, 'AwaitingHeaders')
S = E(PE, 'Streaming')

# RFC 9113 §5.1 figure 2, as (state, event) -> state.  H = HEADERS, ES = END_STREAM flag, PP = PUSH_PROMISE
RFC_EDGES = {
    ('idle', 'send H'): 'open', ('idle', 'recv H'): 'open',
    ('idle', 'send PP'): 'rl', ('idle', 'recv PP'): 'rr',
    ('rl', 'send H'): 'hcr', ('rr', 'recv H'): 'hcl',
    ('open', 'send H'): 'open', ('open', 'recv H'): 'open',          # response head / 1xx on an open stream
    ('hcr', 'send H'): 'hcr', ('hcl', 'recv H'): 'hcl',
    ('open', 'send ES'): 'hcl', ('open', 'recv ES'): 'hcr',
    ('hcr', 'send ES'): 'closed', ('hcl', 'recv ES'): 'closed',
}


def concrete_states():
    peers = [A, S]
    out = [E(SI, 'Idle'), E(SI, 'ReservedLocal'), E(SI, 'ReservedRemote')]
    out += [E(SI, 'Open', (l, r)) for l in peers for r in peers]
    out += [E(SI, 'HalfClosedLocal', (r,)) for r in peers]
    out += [E(SI, 'HalfClosedRemote', (l,)) for l in peers]
    out += [E(SI, 'Closed', (E(CA, 'EndStream'),))]
    out += [E(SI, 'Closed', (E(CA, c, (TOP,)),)) for c in ('Error', 'ErrorAfterEndStream', 'ScheduledLibraryReset')]
    return out


def to_rfc(s):
    v = s[2]
    if v == 'Idle':
        return ('idle', A, A)
    if v == 'ReservedLocal':
        return ('rl', A, None)
    if v == 'ReservedRemote':
        return ('rr', None, A)
    if v == 'Open':
        return ('open', s[3][0], s[3][1])
    if v == 'HalfClosedLocal':
        return ('hcl', None, s[3][0])
    if v == 'HalfClosedRemote':
        return ('hcr', s[3][0], None)
    return ('closed', None, None)


def from_rfc(t, cause=None):
    st, l, r = t
    if st == 'idle':
        return E(SI, 'Idle')
    if st == 'rl':
        return E(SI, 'ReservedLocal')
    if st == 'rr':
        return E(SI, 'ReservedRemote')
    if st == 'open':
        return E(SI, 'Open', (l, r))
    if st == 'hcl':
        return E(SI, 'HalfClosedLocal', (r,))
    if st == 'hcr':
        return E(SI, 'HalfClosedRemote', (l,))
    return E(SI, 'Closed', (cause if cause is not None else E(CA, 'EndStream'),))


def ref_send_open(s, eos):
    """send the message head (HEADERS), optionally with END_STREAM → ('Ok'|'Err', next)"""
    st, l, r = to_rfc(s)
    nxt = RFC_EDGES.get((st, 'send H'))
    if nxt is None or l != A:
        return ('Err:UnexpectedFrameType', s)
    t = (nxt, S if nxt in ('open', 'hcr') else None, r if nxt in ('open',) else None)
    if nxt == 'open' and st == 'idle':
        t = ('open', S, A)
    if eos:
        n2 = RFC_EDGES.get((nxt, 'send ES'))
        t = (n2, None, t[2] if n2 == 'hcl' else None)
    return ('Ok', from_rfc(t))


def ref_recv_open(s, eos, info):
    st, l, r = to_rfc(s)
    nxt = RFC_EDGES.get((st, 'recv H'))
    if nxt is None or r != A:
        return ('Err:conn:1', s, None)
    initial = st in ('idle', 'rr')
    rsub = A if info else S
    if eos:
        base = (nxt, l if nxt == 'open' else None, rsub)
        if st == 'idle':
            base = ('open', A, rsub)
        n2 = RFC_EDGES.get((base[0], 'recv ES'))
        t = (n2, base[1] if n2 == 'hcr' else None, None)
        return ('Ok', from_rfc(t), initial)
    if st == 'rr' and info:
        # h2 keeps a pushed stream reserved across interim responses (it is counted as open only
        # once the final response head arrives); documented deviation from the bare RFC edge
        return ('Ok', s, initial)
    if st == 'idle':
        t = ('open', A, rsub)
    elif nxt == 'open':
        t = ('open', l, rsub)
    else:  # hcl
        t = ('hcl', None, rsub)
    return ('Ok', from_rfc(t), initial)


def ref_send_close(s):
    st, l, r = to_rfc(s)
    nxt = RFC_EDGES.get((st, 'send ES'))
    if nxt is None:
        return ('panic', s)
    return ('unit', from_rfc((nxt, None, r if nxt == 'hcl' else None)))


def ref_recv_close(s):
    st, l, r = to_rfc(s)
    nxt = RFC_EDGES.get((st, 'recv ES'))
    if nxt is None:
        return ('Err:conn:1', s)
    return ('Ok', from_rfc((nxt, l if nxt == 'hcr' else None, None)))


def ref_reserve(s, which):
    st, l, r = to_rfc(s)
    nxt = RFC_EDGES.get((st, 'send PP' if which == 'local' else 'recv PP'))
    if nxt is None:
        return ('Err:UnexpectedFrameType' if which == 'local' else 'Err:conn:1', s)
    return ('Ok', from_rfc((nxt, A if nxt == 'rl' else None, A if nxt == 'rr' else None)))


def recv_end_stream_seen(s):
    """END_STREAM has been received on this stream"""
    st, l, r = to_rfc(s)
    if st == 'hcr':
        return True
    if st == 'closed':
        return s[3][0][2] in ('EndStream', 'ErrorAfterEndStream')
    return False


PREDICATES = {
    # name: reference predicate over the h2 state value
    'is_send_streaming': lambda s: to_rfc(s)[1] == S,
    'is_recv_streaming': lambda s: to_rfc(s)[2] == S,
    'is_recv_headers': lambda s: to_rfc(s)[2] == A,
    'is_send_awaiting_headers': lambda s: to_rfc(s)[1] == A and to_rfc(s)[0] != 'idle',
    'is_closed': lambda s: to_rfc(s)[0] == 'closed',
    'is_send_closed': lambda s: to_rfc(s)[0] in ('closed', 'hcl', 'rr'),
    'is_idle': lambda s: to_rfc(s)[0] == 'idle',
    'is_recv_end_stream': recv_end_stream_seen,
    'is_scheduled_reset': lambda s: s[2] == 'Closed' and s[3][0][2] == 'ScheduledLibraryReset',
    'is_reset': lambda s: s[2] == 'Closed' and s[3][0][2] != 'EndStream',
}


def state_obj(s):
    return ('ref', ('s', ST, (('inner', s),)))


def final_state(finals):
    v = dict(finals).get(1)
    if v is None or v == TOP or v[0] != 'ref' or v[1] == TOP:
        return None
    return dict(v[1][2]).get('inner')


def models():
    def go_away(argv):
        r = argv[0]
        return ('k', 'conn:%s' % (r[1] if r != TOP and r[0] == 'i' else '?'))

    def reset(argv):
        r = argv[1] if len(argv) > 1 else TOP
        return ('k', 'stream:%s' % (r[1] if r != TOP and r[0] == 'i' else '?'))
    return {
        'proto::error::Error::library_go_away': go_away,
        'proto::error::Error::library_reset': reset,
    }


def ret_class(ret):
    """'Ok' / 'Ok(true)' / 'Err:conn:1' / 'Err:UnexpectedFrameType' / 'panic' / '?'"""
    if ret == TOP:
        return '?'
    if ret[0] == 'panic':
        return 'panic'
    if ret[0] == 'e' and ret[2] == 'Ok':
        inner = ret[3][0] if ret[3] else None
        if inner is not None and inner != TOP and inner[0] == 'b':
            return 'Ok(%s)' % ('true' if inner[1] else 'false')
        return 'Ok'
    if ret[0] == 'e' and ret[2] == 'Err':
        inner = ret[3][0] if ret[3] else TOP
        if inner != TOP and inner[0] == 'k':
            return 'Err:' + str(inner[1])
        if inner != TOP and inner[0] == 'e':
            return 'Err:' + inner[2]
        return 'Err:?'
    if ret[0] == 'b':
        return 'true' if ret[1] else 'false'
    if ret[0] == 'k' and ret[1] == '()':
        return 'unit'
    return absint.show(ret)
