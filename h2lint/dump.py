"""readable MIR dump of extracted facts (debug aid for writing rules)"""
import sys
from . import core, run


def opstr(fn, op):
    if op[0] in ('c', 'm'):
        return ('move ' if op[0] == 'm' else '') + core.place_str(op[1])
    if op[0] == 'k':
        if op[4]:
            return 'fn ' + core.norm(op[4])
        return 'const %s' % (op[1] if op[3] is None else '%s(%s)' % (op[1], op[3]))
    return '?'


def rvstr(fn, rv):
    k = rv[0]
    if k == 'use':
        return opstr(fn, rv[1])
    if k == 'ref':
        return ('&mut ' if rv[1] else '&') + core.place_str(rv[2])
    if k == 'bin':
        return '%s(%s, %s)' % (rv[1], opstr(fn, rv[2]), opstr(fn, rv[3]))
    if k == 'un':
        return '%s(%s)' % (rv[1], opstr(fn, rv[2]))
    if k == 'discr':
        return 'discr(%s) : %s' % (core.place_str(rv[1]), rv[2])
    if k == 'cast':
        return '%s as %s' % (opstr(fn, rv[2]), rv[3])
    if k == 'aggr':
        return '%s %s {%s}' % (rv[1], core.norm(rv[2]), ', '.join(opstr(fn, o) for o in rv[3]))
    if k == 'setdiscr':
        return 'setdiscr ' + rv[1]
    return str(rv)


def dump(fn, skip_tracing=True, out=sys.stdout):
    print('fn %s  [%s:%d-%d] ret=%s argc=%d' % (fn.name, fn.file, fn.l0, fn.l1, fn.ret, fn.argc), file=out)
    for i, (ty, nm) in enumerate(fn.locals):
        if nm or i <= fn.argc:
            print('   _%d: %s  %s' % (i, ty, nm or ''), file=out)
    for bi, b in enumerate(fn.blocks):
        if b['cu']:
            continue
        t = b['t']
        print(' bb%d:' % bi, file=out)
        for s in b['s']:
            print('    %s = %s    // %d' % (core.place_str(s[0]), rvstr(fn, s[1]), s[2]), file=out)
        k = t['k']
        if k == 'call':
            print('    %s = %s(%s) -> bb%d   // %d %s ga=%s %s' % (core.place_str(t['d']), t['fn'], ', '.join(opstr(fn, a) for a in t['a']), t['t'], t['ln'], t['exp'] or '', t['ga'], t['cls'] or ''), file=out)
        elif k == 'sw':
            print('    switch %s [%s] %s else bb%d   // %d' % (opstr(fn, t['o']), t['ty'], ' '.join('%d->bb%d' % (v, x) for v, x in t['ts']), t['else'], t['ln']), file=out)
        elif k == 'drop':
            print('    drop %s : %s glue=%s -> bb%d   // %d' % (core.place_str(t['p']), t['ty'], t['glue'], t['t'], t['ln']), file=out)
        elif k == 'goto':
            print('    goto bb%d' % t['t'], file=out)
        elif k == 'ret':
            print('    return   // %d' % t['ln'], file=out)
        elif k == 'assert':
            print('    assert %s == %s %s -> bb%d  // %d' % (opstr(fn, t['cond']), t['expected'], t['kind'], t['t'], t['ln']), file=out)
        else:
            print('    %s' % t, file=out)


def main(argv):
    facts = run.facts_for(argv[1] if len(argv) > 1 and argv[1] in run.CONFIGS else 'su-dbg')
    pats = [a for a in argv if a not in run.CONFIGS]
    for name, fn in facts.fns.items():
        if any(p == name or (p.endswith('$') and name.endswith(p[:-1])) or (not p.endswith('$') and p in name and 'closure' not in name.replace(p, '')) for p in pats):
            dump(fn)


if __name__ == '__main__':
    main(sys.argv)
