"""Finite-domain abstract interpreter for table extraction (DESIGN.md §3.2).

Evaluates the CFG of a small function over an exact domain for booleans, small integers
and enum values (variant + abstract fields) and TOP for everything else.  Chosen callees
are *models* that return named inputs; chosen h2 callees are interpreted recursively.
Both successors of a branch on TOP are explored; results are memoised on
(block, environment).  This reads a relation out of the source; nothing is executed.
"""
from . import core

TOP = ('T',)


def B(v):
    return ('b', bool(v))


def I(v):
    return ('i', int(v))


def E(adt, variant, fields=()):
    return ('e', adt, variant, tuple(fields))


class Unsupported(Exception):
    pass


_UWIDTH = {'u8': 8, 'u16': 16, 'u32': 32, 'u64': 64}


class Interp:
    def __init__(self, facts, models=None, inline=None, max_states=20000):
        self.F = facts
        self.models = models or {}
        self.inline = inline or set()
        self.max_states = max_states

    # -- enum helpers
    def variant_index(self, adt, variant):
        a = self.F.adts.get(adt)
        for v in a['variants']:
            if v['name'] == variant:
                return v['discr']
        raise Unsupported('variant %s::%s' % (adt, variant))

    def field_pos(self, adt, variant, field):
        a = self.F.adts.get(adt)
        for v in a['variants']:
            if v['name'] == variant:
                for i, f in enumerate(v['fields']):
                    if f[0] == field:
                        return i
        return None

    def nfields(self, adt, variant):
        a = self.F.adts.get(adt)
        for v in a['variants']:
            if v['name'] == variant:
                return len(v['fields'])
        return 0

    # -- places
    def read(self, env, place):
        v = env.get(place[0], TOP)
        return self._proj_read(v, place[1:])

    def _proj_read(self, v, projs):
        cur_variant = None
        for el in projs:
            if v == TOP or v is None:
                return TOP
            if el == '*':
                if v[0] == 'ref':
                    v = v[1]
                else:
                    return TOP
            elif el[0] == 'v':
                if v[0] == 'e' and v[2] != el[1]:
                    return ('bottom',)   # downcast to the wrong variant: unreachable in well-typed MIR
                cur_variant = el[1]
            elif el[0] == 'f':
                owner, field = el[1], el[2]
                if v[0] == 'e':
                    pos = self.field_pos(v[1], v[2], field)
                    if pos is None or pos >= len(v[3]):
                        return TOP
                    v = v[3][pos]
                elif v[0] == 's':
                    v = dict(v[2]).get(field, TOP)
                elif v[0] == 'tuple':
                    v = v[1][int(field)] if field.isdigit() and int(field) < len(v[1]) else TOP
                else:
                    return TOP
            else:
                return TOP
        return v

    def write(self, env, place, val):
        if len(place) == 1:
            env[place[0]] = val
            return
        root = env.get(place[0], TOP)
        env[place[0]] = self._proj_write(root, place[1:], val)

    def _proj_write(self, v, projs, val):
        if not projs:
            return val
        el = projs[0]
        if el == '*':
            if v != TOP and v[0] == 'ref':
                return ('ref', self._proj_write(v[1], projs[1:], val))
            return TOP
        if el[0] == 'v':
            return self._proj_write(v, projs[1:], val)
        if el[0] == 'f':
            field = el[2]
            if v != TOP and v[0] == 's':
                d = dict(v[2])
                d[field] = self._proj_write(d.get(field, TOP), projs[1:], val)
                return ('s', v[1], tuple(sorted(d.items())))
            if v != TOP and v[0] == 'e':
                pos = self.field_pos(v[1], v[2], field)
                if pos is not None and pos < len(v[3]):
                    fs = list(v[3])
                    fs[pos] = self._proj_write(fs[pos], projs[1:], val)
                    return ('e', v[1], v[2], tuple(fs))
            return TOP
        return TOP

    # -- evaluation
    def operand(self, env, op):
        if op[0] in ('c', 'm'):
            return self.read(env, op[1])
        if op[0] == 'k':
            if op[2] == 'bool' and op[3] is not None:
                return B(op[3])
            if op[3] is not None:
                return I(op[3])
            return ('k', op[1])
        return TOP

    def rvalue(self, env, rv):
        k = rv[0]
        if k == 'use':
            return self.operand(env, rv[1])
        if k == 'ref' or k == 'addr':
            pl = rv[2] if k == 'ref' else rv[1]
            # reference to a whole local / the root object: keep identity through ('ref', value) by value
            # (sound for reads; writes through such refs are not tracked → callers must not rely on them)
            return ('ref', self.read(env, pl))
        if k == 'aggr':
            vals = tuple(self.operand(env, o) for o in rv[3])
            if rv[1] == 'adt':
                name = core.norm(rv[2])
                if name in self.F.adts and self.F.adts[name]['kind'] == 'struct':
                    a = self.F.adts[name]
                    names = [f[0] for f in a['variants'][0]['fields']]
                    return ('s', name, tuple(sorted(zip(names, vals))))
                adt, variant = name.rsplit('::', 1)
                return E(adt, variant, vals)
            if rv[1] == 'tuple':
                return ('tuple', vals)
            return TOP
        if k == 'discr':
            v = self.read(env, rv[1])
            if v != TOP and v[0] == 'e':
                return I(self.variant_index(v[1], v[2]))
            if v != TOP and v[0] == 'bottom':
                return v
            return TOP
        if k == 'un':
            v = self.operand(env, rv[2])
            if rv[1] == 'Not' and v != TOP and v[0] == 'b':
                return B(not v[1])
            if rv[1] == 'Not' and v != TOP and v[0] == 'i' and rv[2][0] == 'k' and rv[2][2] in _UWIDTH and v[1] >= 0:
                return I(~v[1] & ((1 << _UWIDTH[rv[2][2]]) - 1))  # bitwise complement of an unsigned constant of known width
            return TOP
        if k == 'bin':
            a = self.operand(env, rv[2])
            b = self.operand(env, rv[3])
            if a != TOP and b != TOP and a[0] in ('b', 'i') and b[0] in ('b', 'i'):
                x, y = a[1], b[1]
                op = rv[1]
                try:
                    if op == 'Eq':
                        return B(x == y)
                    if op == 'Ne':
                        return B(x != y)
                    if op == 'Lt':
                        return B(x < y)
                    if op == 'Le':
                        return B(x <= y)
                    if op == 'Gt':
                        return B(x > y)
                    if op == 'Ge':
                        return B(x >= y)
                    if op == 'BitAnd' and a[0] == 'b':
                        return B(x and y)
                    if op == 'BitOr' and a[0] == 'b':
                        return B(x or y)
                    if op == 'BitAnd':
                        return I(x & y)
                    if op == 'BitOr':
                        return I(x | y)
                    if op == 'BitXor':
                        return I(x ^ y)
                    if op == 'Shr' and 0 <= y < 64:
                        return I(x >> y)
                    if op == 'Shl' and 0 <= y < 64:
                        return I(x << y)
                    if op == 'Rem' and x >= 0 and y > 0 and a[0] == 'i' and b[0] == 'i':
                        return I(x % y)
                    if op == 'Div' and x >= 0 and y > 0 and a[0] == 'i' and b[0] == 'i':
                        return I(x // y)
                except Exception:
                    return TOP
            return TOP
        if k == 'cast':
            v = self.operand(env, rv[2])
            return v if v != TOP and v[0] in ('i', 'b') else TOP
        return TOP

    def run(self, fn, args, collect_env=None):
        """args: {local index: abstract value}.  Returns set of outcomes (ret value, {arg local: final value of *arg for refs}).
        An outcome with ret == ('panic', msg) marks a diverging path."""
        outcomes = set()
        seen = set()
        stack = [(0, tuple(sorted(args.items(), key=lambda kv: kv[0])))]
        steps = 0
        while stack:
            bi, envt = stack.pop()
            if (bi, envt) in seen:
                continue
            seen.add((bi, envt))
            steps += 1
            if steps > self.max_states:
                raise core.Cap('abstract interpretation state cap in %s' % fn.name)
            env = dict(envt)
            b = fn.blocks[bi]
            dead = False
            for s in b['s']:
                pl, rv = s[0], s[1]
                if rv[0] == 'setdiscr':
                    cur = self.read(env, pl)
                    if cur != TOP and cur[0] == 'e':
                        self.write(env, pl, E(cur[1], rv[1], tuple(TOP for _ in range(self.nfields(cur[1], rv[1])))))
                    else:
                        self.write(env, pl, TOP)
                    continue
                v = self.rvalue(env, rv)
                if v != TOP and v[0] == 'bottom':
                    dead = True
                    break
                self.write(env, pl, v)
            if dead:
                continue
            t = b['t']
            k = t['k']
            if k == 'ret':
                outcomes.add((_freeze(env.get(0, TOP)), tuple((a, _freeze(env.get(a, TOP))) for a in sorted(args))))
            elif k == 'goto' or k == 'drop':
                stack.append((t['t'], _envt(env)))
            elif k == 'assert':
                stack.append((t['t'], _envt(env)))
            elif k == 'sw':
                v = self.operand(env, t['o'])
                if v != TOP and v[0] == 'bottom':
                    continue
                if v != TOP and v[0] in ('b', 'i'):
                    val = int(v[1])
                    tg = [x[1] for x in t['ts'] if x[0] == val]
                    stack.append((tg[0] if tg else t['else'], _envt(env)))
                else:
                    for s in fn.succ[bi]:
                        stack.append((s, _envt(env)))
            elif k == 'call':
                fnname = t['fn']
                argv = [self.operand(env, a) for a in t['a']]
                if t['t'] < 0:
                    msg = ''
                    for a in t['a']:
                        if a[0] == 'k':
                            msg = a[1]
                    outcomes.add((('panic', fnname.split('::')[-1], msg[:60]), ()))
                    continue
                if fnname not in self.models and fnname in DEFAULT_MODELS:
                    res = DEFAULT_MODELS[fnname](argv)
                    results = res if isinstance(res, list) else [res]
                    for rv_ in results:
                        e2 = dict(env)
                        self.write(e2, t['d'], rv_)
                        stack.append((t['t'], _envt(e2)))
                elif fnname in self.models:
                    res = self.models[fnname](argv)
                    results = res if isinstance(res, list) else [res]
                    for rv_ in results:
                        e2 = dict(env)
                        self.write(e2, t['d'], rv_)
                        stack.append((t['t'], _envt(e2)))
                elif fnname in self.inline and fnname in self.F.fns:
                    cf = self.F.fns[fnname]
                    cargs = {i + 1: argv[i] for i in range(min(len(argv), cf.argc))}
                    sub = self.run(cf, cargs)
                    for (ret, finals) in sub:
                        if ret != TOP and ret[0] == 'panic':
                            outcomes.add((ret, ()))
                            continue
                        e2 = dict(env)
                        # propagate writes through &mut self style arguments (arg i passed as ref of a place)
                        for (ai, fv) in finals:
                            a = t['a'][ai - 1] if ai - 1 < len(t['a']) else None
                            pl = core.op_place(a) if a else None
                            if pl is not None and fv != TOP and fv[0] == 'ref' and len(pl) == 1:
                                e2[pl[0]] = fv
                        self.write(e2, t['d'], ret)
                        stack.append((t['t'], _envt(e2)))
                else:
                    e2 = dict(env)
                    self.write(e2, t['d'], TOP)
                    stack.append((t['t'], _envt(e2)))
            elif k == 'unreachable':
                continue
            else:
                for s in fn.succ[bi]:
                    stack.append((s, _envt(env)))
        return outcomes


CF = 'std::ops::ControlFlow'
RES = 'std::result::Result'
OPT = 'std::option::Option'


def _try_branch(argv):
    x = argv[0] if argv else TOP
    if x != TOP and x[0] == 'e' and x[2] in ('Ok', 'Some'):
        return E(CF, 'Continue', (x[3][0] if x[3] else TOP,))
    if x != TOP and x[0] == 'e' and x[2] in ('Err', 'None'):
        return E(CF, 'Break', (x,))
    return [E(CF, 'Continue', (TOP,)), E(CF, 'Break', (TOP,))]


def _from_residual_result(argv):
    return E(RES, 'Err', (TOP,))


def _opt_query(want):
    def f(argv):
        x = argv[0] if argv else TOP
        if x != TOP and x[0] == 'ref':
            x = x[1]
        if x != TOP and x[0] == 'e' and x[2] in ('Some', 'None'):
            return B((x[2] == 'Some') == want)
        return TOP
    return f


def _unwrap(argv):
    x = argv[0] if argv else TOP
    if x != TOP and x[0] == 'e' and x[2] in ('Some', 'Ok') and x[3]:
        return x[3][0]
    return TOP


DEFAULT_MODELS = {
    '<std::result::Result as std::ops::Try>::branch': _try_branch,
    '<std::option::Option as std::ops::Try>::branch': _try_branch,
    '<std::result::Result as std::ops::FromResidual>::from_residual': _from_residual_result,
    'std::option::Option::is_some': _opt_query(True),
    'std::option::Option::is_none': _opt_query(False),
    'std::option::Option::unwrap': _unwrap,
}


def _envt(env):
    return tuple(sorted(env.items(), key=lambda kv: kv[0]))


def _freeze(v):
    return v


def show(v):
    if v == TOP:
        return '?'
    k = v[0]
    if k == 'b':
        return 'true' if v[1] else 'false'
    if k == 'i':
        return str(v[1])
    if k == 'e':
        return v[2] + ('(' + ','.join(show(x) for x in v[3]) + ')' if v[3] else '')
    if k == 's':
        return '{' + ','.join('%s:%s' % (n, show(x)) for n, x in v[2]) + '}'
    if k == 'tuple':
        return '(' + ','.join(show(x) for x in v[1]) + ')'
    if k == 'ref':
        return '&' + show(v[1])
    if k == 'panic':
        return 'PANIC(%s)' % v[2]
    if k == 'k':
        return str(v[1])
    return str(v)
