"""transition discipline (C05.R3): every path that can move a stream towards closed runs
Counts::transition_after before control returns to a handle / frame-handler entry point."""
import re

from . import core
from .core import strip, has_field

P = 'proto::streams::'
ST = P + 'state::State::'
ALWAYS_DIRTY = {ST + x for x in ('send_close', 'recv_reset', 'set_reset', 'set_scheduled_reset', 'handle_error', 'recv_eof')} | {P + 'stream::Stream::set_reset', P + 'prioritize::Prioritize::clear_queue'}
RESULT_DIRTY = {ST + x for x in ('send_open', 'recv_open', 'recv_close')}
CLEAN = {P + 'counts::Counts::transition_after', P + 'counts::Counts::transition', P + 'store::Ptr::remove',
         P + 'prioritize::Prioritize::queue_frame', P + 'prioritize::Prioritize::schedule_send'}
EXACTLY_ONCE = {'tracing::Span::in_scope'}


QUEUE_POPS = {P + 'store::Queue::pop', P + 'store::Queue::pop_if'}


def is_queue_pop(t):
    # popping a stream from a connection-level queue clears its queued flag: it may become releasable.
    # NextAccept queues hand the stream to the application (a handle is created), nothing to release.
    return t['fn'] in QUEUE_POPS and t['ga'] and not t['ga'][0].endswith('NextAccept')


def is_queue_push(t):
    return t['fn'] in (P + 'store::Queue::push', P + 'store::Queue::push_front')


class Discipline:
    def __init__(self, F):
        self.F = F
        self.summ = {}          # fn -> may return dirty
        self.idioms = set()
        self.witness = {}       # fn -> (block path, reason)
        direct = set()
        for name, f in F.fns.items():
            if '::tests::' in name:
                continue
            for bi, t in f.calls():
                if t['fn'] in ALWAYS_DIRTY or t['fn'] in RESULT_DIRTY or is_queue_pop(t) or self._is_pop_send(f, t):
                    direct.add(name)
        self.cands = set(x for x in F.callers_closure(direct) if x in F.fns and '::tests::' not in x)
        changed = True
        it = 0
        while changed and it < 12:
            changed = False
            it += 1
            for n in sorted(self.cands):
                if n in (P + 'counts::Counts::transition', P + 'counts::Counts::transition_after'):
                    continue
                r = self._analyze(F.fns[n])
                if r != self.summ.get(n, frozenset()):
                    self.summ[n] = r
                    changed = True
        self.iterations = it

    def _is_pop_send(self, f, t):
        return t['fn'] == P + 'buffer::Deque::pop_front' and t['a'] and has_field(f.expr_of_op(t['a'][0]), P + 'stream::Stream', 'pending_send')

    def _is_putback(self, f, t):
        return t['fn'] == P + 'buffer::Deque::push_front' and t['a'] and has_field(f.expr_of_op(t['a'][0]), P + 'stream::Stream', 'pending_send')

    def _analyze(self, f):
        F = self.F
        sws = core.all_switches(F, f)

        # state = (flag, closed_queries): flag in 'c' | 'd' | ('p', call block, previous flag);
        # closed_queries = State::is_closed calls answered while the stream was clean: their True edge means
        # "was already closed before anything happened here" — a further event on it releases nothing new
        def on_term(us, bi, t):
            flag, cq = us
            if t['k'] != 'call':
                return us
            fn = t['fn']
            if fn == ST + 'is_closed' and flag == 'c':
                return (flag, cq | frozenset([bi]))
            if fn in CLEAN or is_queue_push(t) or self._is_putback(f, t):
                return ('c', cq)
            if fn in ALWAYS_DIRTY or self._is_pop_send(f, t):
                return ('d', cq)
            if fn in RESULT_DIRTY or is_queue_pop(t):
                return (('p', bi, flag if flag in ('c', 'd') else 'c'), cq)
            dirty = False
            kinds = self.summ.get(fn) or frozenset()
            for c in t['cls']:
                if self.summ.get(c):
                    dirty = True
            if kinds and not dirty and kinds <= frozenset(['Some']) or (kinds and not dirty and kinds <= frozenset(['Ok'])):
                # the callee hands a popped / transitioned stream back only in its Some / Ok result
                return (('p', bi, flag if flag in ('c', 'd') else 'c'), cq)
            if kinds:
                dirty = True
            if dirty:
                return ('d', cq)
            return us

        def on_edge(us, bi, s):
            flag, cq = us
            sw = sws.get(bi)
            if sw is None:
                return us
            ids = set(x[3] for x in core.walk(sw.subject) if x[0] == 'call')
            lab = sw.labels.get(s)
            if isinstance(flag, tuple) and flag[1] in ids and isinstance(lab, frozenset):
                if lab and all(l in ('Ok', 'Continue', 'Ready(Ok)', 'Some') for l in lab) and 'Err' not in lab:
                    return ('d', cq)
                if lab and all(l in ('Err', 'Break', 'None') for l in lab):
                    return (flag[2], cq)
            if flag == 'd' and lab is True and sw.kind == 'bool' and (ids & cq) and strip(sw.subject)[0] == 'call' and strip(sw.subject)[1] == ST + 'is_closed':
                return ('c', cq)
            # idiom: the stream just popped is the one the caller is operating on (Resolve::current_key): the caller
            # holds a Ptr to it and runs the transition itself (checked for every caller through this same rule)
            c = core.cmp_of(sw)
            if flag == 'd' and c is not None and c[0] in ('Eq', 'Ne') and any(x[0] == 'call' and x[1].endswith('::current_key') for x in core.walk(sw.subject)) \
                    and any(x[0] == 'call' and x[1].endswith('store::Ptr::key') for x in core.walk(sw.subject)):
                same = (c[0] == 'Eq' and lab is True) or (c[0] == 'Ne' and lab is False)
                if same:
                    self.idioms.add((f.name, 'popped stream == caller\'s current stream'))
                    return ('c', cq)
            return us
        try:
            exits, ins, parent = core.scan(f, ('c', frozenset()), None, on_term, on_edge, cap=256, track_ret=True)
        except core.Cap:
            self.witness[f.name] = ([], 'state cap exceeded: assumed dirty (fail closed)')
            return frozenset(['*'])
        kinds = set()
        for (bi, us, rc, st) in exits:
            if us[0] == 'd' or isinstance(us[0], tuple):
                if f.name not in self.witness or not kinds:
                    w = core.witness_path(f, parent, bi, st)
                    self.witness[f.name] = ([x['bb'] for x in w], 'returns with a pending state change')
                k = rc.split(':')[0]
                kinds.add(k if k in ('Some', 'None', 'Ok', 'Err') else '*')
        return frozenset(kinds)

    def culprit(self, name):
        """(function, event) at the end of the explanation chain of `name`"""
        ch = self.explain_raw(name)
        return ch[-1][0], ch[-1][1]

    def explain(self, name, depth=0):
        return ['%s: %s' % (core.short(a), c or b) for a, b, c in [(x[0], x[1], x[2]) for x in self.explain_raw(name)]]

    def explain_raw(self, name, depth=0):
        """chain of functions explaining why `name` may return dirty"""
        out = []
        seen = set()
        cur = name
        while cur and cur not in seen and depth < 12:
            seen.add(cur)
            f = self.F.fns[cur]
            blocks, why = self.witness.get(cur, ([], ''))
            nxt = None
            step = ''
            ev = ''
            for b in blocks:
                t = f.term(b)
                if t['k'] != 'call':
                    continue
                if t['fn'] in ALWAYS_DIRTY or t['fn'] in RESULT_DIRTY or is_queue_pop(t) or self._is_pop_send(f, t):
                    step = '%s at %s' % (core.short(t['fn']), f.loc(b))
                    ev = core.short(t['fn'])
                    nxt = None
                elif self.summ.get(t['fn']):
                    step = 'calls %s at %s' % (core.short(t['fn']), f.loc(b))
                    nxt = t['fn']
                else:
                    for c in t['cls']:
                        if self.summ.get(c):
                            step = 'closure %s at %s' % (core.short(c), f.loc(b))
                            nxt = c
                if t['fn'] in CLEAN or is_queue_push(t) or self._is_putback(f, t):
                    step = ''
                    ev = ''
                    nxt = None
            out.append((cur, ev if nxt is None else '', step or why))
            cur = nxt
            depth += 1
        return out
