"""h2lint.core — facts model and analysis primitives (DESIGN.md §3.2).

Everything here works on the JSON written by driver/ (h2facts): un-optimised MIR
with resolved callees, named field projections and variant names.  Nothing in this
package executes h2 or matches source text.
"""
import json
import os
import re
import collections

# --------------------------------------------------------------------------- names


def _match_angle(s, i):
    depth = 0
    n = len(s)
    j = i
    while j < n:
        c = s[j]
        if c == '<':
            depth += 1
        elif c == '>' and not (j > 0 and s[j - 1] == '-'):
            depth -= 1
            if depth == 0:
                return j
        j += 1
    return n - 1


_norm_cache = {}


def _split_top(s, sep):
    out = []
    depth = 0
    cur = []
    i = 0
    n = len(s)
    while i < n:
        c = s[i]
        if c in '<([':
            depth += 1
        elif c in ')]' or (c == '>' and not (i > 0 and s[i - 1] == '-')):
            depth -= 1
        if depth == 0 and s.startswith(sep, i):
            out.append(''.join(cur))
            cur = []
            i += len(sep)
            continue
        cur.append(c)
        i += 1
    out.append(''.join(cur))
    return out


def _norm_trait_keep(t):
    """normalise a trait reference but keep its first-level generic arguments"""
    k = t.find('<')
    if k < 0:
        return norm(t)
    j = _match_angle(t, k)
    args = [norm(a.strip()) for a in _split_top(t[k + 1:j], ',')]
    args = [a for a in args if not a.startswith("'")]
    return norm(t[:k]) + '<' + ', '.join(args) + '>' + norm(t[j + 1:])


def norm(s, keep=False):
    """Strip generic argument lists from a def-path, keep qualified-self brackets.

    proto::streams::streams::Streams::<B, P>::send_request -> proto::streams::streams::Streams::send_request
    <proto::streams::streams::Streams<B, P> as std::ops::Drop>::drop -> <proto::streams::streams::Streams as std::ops::Drop>::drop
    keep=True keeps the generic arguments of the trait in a qualified self
    (<error::Error as std::convert::From<proto::error::Error>>::from), used to
    disambiguate impls that differ only there.
    """
    r = _norm_cache.get((s, keep))
    if r is not None:
        return r
    out = []
    i = 0
    n = len(s)
    while i < n:
        c = s[i]
        if c == '<':
            j = _match_angle(s, i)
            inner = s[i + 1:j]
            if inner.startswith('impl '):
                parts = _split_top(inner[5:], ' for ')
                if len(parts) == 2:
                    out.append('<impl %s for %s>' % (_norm_trait_keep(parts[0]), norm(parts[1])))
                else:
                    out.append('<impl %s>' % norm(inner[5:]))
                i = j + 1
                continue
            prev = out[-1] if out else ''
            is_generic = bool(prev) and (prev.isalnum() or prev == '_' or prev == ':')
            if is_generic:
                if prev == ':' and len(out) >= 2 and out[-2] == ':':
                    out.pop()
                    out.pop()
                i = j + 1
                continue
            parts = _split_top(inner, ' as ')
            if keep and len(parts) == 2:
                out.append('<%s as %s>' % (norm(parts[0]), _norm_trait_keep(parts[1])))
            else:
                out.append('<' + norm(inner) + '>')
            i = j + 1
            continue
        out.append(c)
        i += 1
    r = ''.join(out)
    _norm_cache[(s, keep)] = r
    return r


# --------------------------------------------------------------------------- places / operands


def op_place(op):
    """place of a copy/move operand, else None"""
    if op and op[0] in ('c', 'm'):
        return op[1]
    return None


def op_local(op):
    """local index if operand is a bare local"""
    p = op_place(op)
    if p is not None and len(p) == 1:
        return p[0]
    return None


def op_const(op):
    """(value, text, ty) for constants else None"""
    if op and op[0] == 'k':
        return (op[3], op[1], op[2])
    return None


def op_fn(op):
    if op and op[0] == 'k':
        return op[4]
    return None


def place_fields(place):
    """list of (owner, field) for the field projections of a place, in order"""
    return [(e[1], e[2]) for e in place[1:] if isinstance(e, list) and e[0] == 'f']


def place_has_field(place, owner, field):
    for e in place[1:]:
        if isinstance(e, list) and e[0] == 'f' and e[2] == field and (owner is None or e[1] == owner or e[1].endswith('::' + owner) or e[1] == owner):
            return True
    return False


def place_str(place, fn=None):
    s = '_%d' % place[0]
    if fn is not None:
        nm = fn.local_name(place[0])
        if nm:
            s = nm
    for e in place[1:]:
        if e == '*':
            s = '(*%s)' % s
        elif e[0] == 'f':
            s = '%s.%s' % (s, e[2])
        elif e[0] == 'v':
            s = '(%s as %s)' % (s, e[1])
        elif e[0] == 'i':
            s = '%s[_%d]' % (s, e[1])
        elif e[0] == 'c':
            s = '%s[%s%d]' % (s, '-' if e[2] else '', e[1])
        elif e[0] == 's':
            s = '%s[%d..%d]' % (s, e[1], e[2])
        else:
            s += '.?'
    return s


# --------------------------------------------------------------------------- functions


class Fn:
    __slots__ = ('raw', 'path', 'name', 'blocks', 'locals', 'argc', 'ret', 'file', 'l0', 'l1', 'kind',
                 'parent', 'vis', 'exported', 'from_expansion', 'coroutine',
                 '_succ', '_pred', '_defs', '_live', '_expr_cache', '_dom', 'facts', '_captures')

    def __init__(self, raw):
        self.raw = raw
        self.path = raw['path']
        self.name = norm(raw['path'])
        self.blocks = raw['blocks']
        self.locals = raw['locals']
        self.argc = raw['argc']
        self.ret = raw['ret']
        self.file = raw['file']
        self.l0 = raw['l0']
        self.l1 = raw['l1']
        self.kind = raw['kind']
        self.parent = norm(raw['parent']) if raw.get('parent') else None
        self.vis = raw['vis']
        self.exported = raw['exported']
        self.from_expansion = raw['exp']
        self.coroutine = raw['co']
        self._succ = None
        self._pred = None
        self._defs = None
        self._live = None
        self._expr_cache = {}
        self._dom = None
        self.facts = None
        self._captures = None
        try:
            self._thread_bool_constants()
        except Exception:  # the transformation is an aid to precision only
            pass

    def _thread_bool_constants(self):
        """Jump threading for boolean temporaries.  `let c = a && b; if c {..}` (and `matches!`, `||`, a condition kept in a
        named local, a boolean helper inlined by Facts._inline_new_helpers) lowers to: arm 1 stores a constant into `c`,
        arm 2 stores a computed value, both jump -- possibly through a block that only copies the value on -- to a block J
        that switches on `c`.  The constant arm's outcome at J is known, so its jump is redirected to a copy of the
        statements on the way followed by the matching successor.  Afterwards J is entered only from the computing arm,
        so the tests that led there dominate / control what follows, as if the condition had been written in the `if`."""
        blocks = self.blocks
        locals_ = self.locals
        n0 = len(blocks)
        budget = [64]
        preds = {}
        for pi in range(n0):
            P = blocks[pi]
            if not P['cu'] and P['t']['k'] == 'goto':
                preds.setdefault(P['t']['t'], []).append(pi)

        def find(P, cur):
            """(constant stored into `cur` by P, or None; the local holding the value at P's entry, or None when P computes it)"""
            for st in reversed(P['s']):
                pl, rv = st[0], st[1]
                if pl[0] == cur:
                    if len(pl) == 1 and rv[0] == 'use' and rv[1][0] == 'k' and rv[1][2] == 'bool' and rv[1][3] in (0, 1):
                        return rv[1][3], None
                    src = op_local(rv[1]) if (len(pl) == 1 and rv[0] == 'use') else None
                    if src is None:
                        return None, None
                    cur = src
            return None, cur
        for j in range(n0):
            J = blocks[j]
            t = J['t']
            if J['cu'] or t['k'] != 'sw' or t.get('ty') != 'bool':
                continue
            p = op_local(t['o'])
            if p is None:
                continue
            clean = True
            chain = set()
            for st in reversed(J['s']):
                pl, rv = st[0], st[1]
                if len(pl) == 1 and pl[0] == p:
                    src = op_local(rv[1]) if rv[0] == 'use' else None
                    if src is None:
                        clean = False
                        break
                    chain.add(p)  # a temporary that only carries the value into the switch
                    p = src
            if not clean or locals_[p][0] != 'bool':
                continue
            jstmts = [list(x) for x in J['s'] if not (len(x[0]) == 1 and x[0][0] in chain)]

            def redirect(P, val, carried):
                tg = [b for v, b in t['ts'] if (v != 0) == (val != 0)]
                target = tg[0] if tg else t['else']
                blocks.append({'cu': False, 's': carried + [list(x) for x in jstmts], 't': {'k': 'goto', 't': target}})
                P['t'] = dict(P['t'], t=len(blocks) - 1)
                budget[0] -= 1
            for pi in list(preds.get(j, ())):
                P = blocks[pi]
                if pi == j or P['t'].get('t') != j or budget[0] <= 0:
                    continue
                val, cur = find(P, p)
                if val is not None:
                    redirect(P, val, [])
                elif cur is not None and all(len(st[0]) == 1 and st[1][0] == 'use' for st in P['s']):
                    # P only copies values on: look one block further back
                    for qi in list(preds.get(pi, ())):
                        Q = blocks[qi]
                        if qi in (pi, j) or Q['t'].get('t') != pi or budget[0] <= 0:
                            continue
                        val2, _ = find(Q, cur)
                        if val2 is not None:
                            # the copies that only carry the tested value are not repeated (they would become second
                            # definitions of single-definition temporaries)
                            carried_locals = set()
                            c2 = p
                            for st in reversed(P['s']):
                                if len(st[0]) == 1 and st[0][0] == c2 and st[1][0] == 'use' and op_local(st[1][1]) is not None:
                                    carried_locals.add(c2)
                                    c2 = op_local(st[1][1])
                            redirect(Q, val2, [list(x) for x in P['s'] if not (len(x[0]) == 1 and x[0][0] in carried_locals)])
        # the same for a boolean that is returned (possibly negated) instead of tested: `!(a || b)` stores `true` into a
        # temporary on the `a` arm and returns its negation at the join -- the constant arm returns a known constant
        for j in range(n0):
            J = blocks[j]
            if J['cu'] or J['t']['k'] != 'ret' or not J['s']:
                continue
            last = J['s'][-1]
            pl, rv = last[0], last[1]
            if pl != [0] or locals_[0][0] != 'bool':
                continue
            neg = False
            if rv[0] == 'un' and rv[1] == 'Not':
                neg = True
                src = op_local(rv[2])
            elif rv[0] == 'use':
                src = op_local(rv[1])
            else:
                continue
            if src is None or locals_[src][0] != 'bool' or any(st[0][0] == src for st in J['s'][:-1]):
                continue
            for pi in list(preds.get(j, ())):
                P = blocks[pi]
                if pi == j or P['t'].get('t') != j or budget[0] <= 0:
                    continue
                val, _ = find(P, src)
                if val is None:
                    continue
                out = (not val) if neg else bool(val)
                folded = [[0], ['use', ['k', 'true' if out else 'false', 'bool', 1 if out else 0, None]]] + list(last[2:])
                blocks.append({'cu': False, 's': [list(x) for x in J['s'][:-1]] + [folded], 't': dict(J['t'])})
                P['t'] = dict(P['t'], t=len(blocks) - 1)
                budget[0] -= 1
        self._succ = None
        self._pred = None
        self._defs = None
        self._live = None
        self._dom = None
        self._expr_cache = {}

    def _thread_result_variants(self):
        """After a helper returning `Result` was inlined at a `helper(..)?` site: each of its `return Err(e)` / `Ok(v)` stores
        a known variant that then flows through a copy block into `Try::branch` and a switch on the ControlFlow
        discriminant.  The outcome of that switch is known per return site, so each is connected directly to the
        matching arm (`Continue(v)` / `Break(Err(e))` are built in place) -- as if the early returns still stood in the
        caller.  Afterwards the sites behind the `?` are controlled by the helper's own tests again."""
        blocks = self.blocks
        n0 = len(blocks)
        preds = {}
        for pi in range(n0):
            P = blocks[pi]
            if not P['cu'] and P['t']['k'] == 'goto':
                preds.setdefault(P['t']['t'], []).append(pi)
        for b_i in range(n0):
            B = blocks[b_i]
            t = B['t']
            if B['cu'] or t['k'] != 'call' or not t['fn'].endswith('Try>::branch') or 'Result' not in t['fn'] or len(t['a']) != 1 or len(t['d']) != 1 or B['s']:
                continue
            arg = op_local(t['a'][0])
            S = blocks[t['t']] if isinstance(t['t'], int) and t['t'] >= 0 else None
            if arg is None or S is None or S['t']['k'] != 'sw' or len(S['s']) != 1 or S['s'][0][1][0] != 'discr' or S['s'][0][1][1] != list(t['d']):
                continue
            arms = dict((v, tgt) for v, tgt in S['t']['ts'])
            if 0 not in arms or 1 not in arms:
                continue
            for r_i in list(preds.get(b_i, ())):
                R = blocks[r_i]
                # R only copies the value on: `_a = move _v`
                if len(R['s']) != 1 or R['s'][0][0] != [arg] or R['s'][0][1][0] != 'use' or op_local(R['s'][0][1][1]) is None:
                    continue
                v = op_local(R['s'][0][1][1])
                # a `?` inside the inlined body returns through `from_residual`: that is an `Err`, i.e. the Break arm
                for c_i in range(n0):
                    C = blocks[c_i]
                    ct = C['t']
                    if not C['cu'] and ct['k'] == 'call' and ct.get('t') == r_i and ct['d'] == [v] and ct['fn'].endswith('::from_residual'):
                        blocks.append({'cu': False, 's': [], 't': {'k': 'goto', 't': arms[1]}})
                        C['t'] = dict(ct, t=len(blocks) - 1)
                for d_i in list(preds.get(r_i, ())):
                    D = blocks[d_i]
                    st = None
                    for x in reversed(D['s']):
                        if x[0] == [v]:
                            st = x
                            break
                        if x[0][0] == v:
                            break
                    if st is None or st[1][0] != 'aggr' or st[1][1] != 'adt' or not st[1][3] and not str(st[1][2]).endswith('::Ok'):
                        continue
                    name = str(st[1][2])
                    ln = st[2] if len(st) > 2 else None
                    if name.endswith('Result::Ok') and len(st[1][3]) == 1:
                        nb = {'cu': False, 's': [[list(t['d']), ['aggr', 'adt', 'std::ops::ControlFlow::Continue', [st[1][3][0]]], ln]], 't': {'k': 'goto', 't': arms[0]}}
                    elif name.endswith('Result::Err') and len(st[1][3]) == 1:
                        self.locals.append(['std::result::Result<std::convert::Infallible, _>', None])
                        tmp = len(self.locals) - 1
                        nb = {'cu': False, 's': [[[tmp], ['aggr', 'adt', 'std::result::Result::Err', [st[1][3][0]]], ln],
                                                 [list(t['d']), ['aggr', 'adt', 'std::ops::ControlFlow::Break', [['m', [tmp]]]], ln]], 't': {'k': 'goto', 't': arms[1]}}
                    else:
                        continue
                    blocks.append(nb)
                    D['s'] = [x for x in D['s'] if x is not st]
                    D['t'] = dict(D['t'], t=len(blocks) - 1)
        # the same for a value matched directly (`ready!(helper(cx))`: `match v { Ready(t) => t, Pending => return Pending }`):
        # a return site that stores a known variant jumps to that variant's arm; blocks in between that only assign locals
        # (drop flags, copies) are carried along
        facts = self.facts
        n1 = len(blocks)
        preds = {}
        cpreds = {}
        for pi in range(n1):
            P = blocks[pi]
            if P['cu']:
                continue
            if P['t']['k'] == 'goto':
                preds.setdefault(P['t']['t'], []).append(pi)
            elif P['t']['k'] == 'call' and isinstance(P['t'].get('t'), int) and P['t']['t'] >= 0:
                cpreds.setdefault(P['t']['t'], []).append(pi)

        def only_locals(B):
            return all(len(x[0]) == 1 for x in B['s'])

        def sources(r_i, v, depth=0, carried=None):
            """[(kind, block index, carried statements)] of the definitions of local v that reach block r_i through blocks that
            only assign locals: kind 'aggr' (statement) or 'residual' (a from_residual call)"""
            carried = carried or []
            out = []
            for c_i in cpreds.get(r_i, ()):
                ct = blocks[c_i]['t']
                if ct['d'] == [v] and ct['fn'].endswith('::from_residual'):
                    out.append(('residual', c_i, carried, None))
            for d_i in preds.get(r_i, ()):
                D = blocks[d_i]
                st = None
                clobber = False
                for x in reversed(D['s']):
                    if x[0] == [v]:
                        st = x
                        break
                    if x[0][0] == v:
                        clobber = True
                        break
                if clobber:
                    continue
                if st is not None:
                    if st[1][0] == 'aggr' and st[1][1] == 'adt':
                        out.append(('aggr', d_i, carried, st))
                    continue
                if depth < 3 and only_locals(D):
                    out += sources(d_i, v, depth + 1, [list(x) for x in D['s']] + carried)
            return out
        for j in range(n1):
            J = blocks[j]
            if J['cu'] or J['t']['k'] != 'sw' or len(J['s']) != 1 or J['s'][0][1][0] != 'discr' or len(J['s'][0][1][1]) != 1:
                continue
            a = J['s'][0][1][1][0]
            adt = norm(J['s'][0][1][2])
            vs = facts.variants(adt) if facts is not None else None
            if not vs or op_local(J['t']['o']) != J['s'][0][0][0]:
                continue
            idx_of = dict((nm, i) for i, nm in vs.items())

            def arm(name):
                tg = [t2 for val, t2 in J['t']['ts'] if val == idx_of[name]]
                return tg[0] if tg else J['t']['else']
            brk = None
            if adt.endswith('task::Poll') and 'Ready' in idx_of:
                hop = arm('Ready')
                for _ in range(4):
                    HB = blocks[hop]
                    if HB['t']['k'] == 'call' and HB['t']['fn'].endswith('Try>::branch') and isinstance(HB['t'].get('t'), int) and HB['t']['t'] >= 0:
                        S2 = blocks[HB['t']['t']]
                        if S2['t']['k'] == 'sw':
                            brk = dict((val, t2) for val, t2 in S2['t']['ts']).get(1)
                        break
                    if HB['t']['k'] == 'goto':
                        hop = HB['t']['t']
                        continue
                    break
            for r_i in list(preds.get(j, ())):
                R = blocks[r_i]
                if len(R['s']) != 1 or R['s'][0][0] != [a] or R['s'][0][1][0] != 'use' or op_local(R['s'][0][1][1]) is None:
                    continue
                v = op_local(R['s'][0][1][1])
                for kind, d_i, carried, st in sources(r_i, v):
                    D = blocks[d_i]
                    if kind == 'residual':
                        if brk is None:
                            continue
                        blocks.append({'cu': False, 's': carried + [list(R['s'][0])], 't': {'k': 'goto', 't': brk}})
                        D['t'] = dict(D['t'], t=len(blocks) - 1)
                        continue
                    vname = str(st[1][2]).rsplit('::', 1)[-1]
                    if norm(str(st[1][2]).rsplit('::', 1)[0]) != adt or vname not in idx_of:
                        continue
                    blocks.append({'cu': False, 's': carried + [list(R['s'][0])], 't': {'k': 'goto', 't': arm(vname)}})
                    D['t'] = dict(D['t'], t=len(blocks) - 1)
        self._succ = None
        self._pred = None
        self._defs = None
        self._live = None
        self._dom = None
        self._expr_cache = {}

    def captures(self):
        """for a closure: expressions (in the parent's frame) of the captured operands, by index"""
        if self._captures is None:
            self._captures = []
            if self.kind == 'Closure' and self.parent and self.facts is not None:
                pf = self.facts.fns.get(self.parent)
                if pf is not None:
                    for bi, si, pl, rv, ln in pf.stmts():
                        if rv[0] == 'aggr' and rv[1] in ('closure', 'coroutine') and self.facts.norm(rv[2]) == self.name:
                            self._captures = [('upvar', pf.expr_of_op(o)) for o in rv[3]]
                            break
        return self._captures

    # -- basic structure
    def local_ty(self, i):
        return self.locals[i][0]

    def local_name(self, i):
        return self.locals[i][1]

    def term(self, bi):
        return self.blocks[bi]['t']

    def is_cleanup(self, bi):
        return self.blocks[bi]['cu']

    def raw_succs(self, bi):
        t = self.blocks[bi]['t']
        k = t['k']
        if k == 'call':
            return [t['t']] if t['t'] >= 0 else []
        if k == 'sw':
            return [x[1] for x in t['ts']] + [t['else']]
        if k in ('drop', 'goto', 'assert'):
            return [t['t']]
        if k == 'other':
            return list(t['succ'])
        return []

    @property
    def succ(self):
        """normal successors (no unwind edges, no cleanup blocks), deduplicated"""
        if self._succ is None:
            s = []
            for i in range(len(self.blocks)):
                if self.blocks[i]['cu']:
                    s.append([])
                    continue
                seen = []
                for x in self.raw_succs(i):
                    if not self.blocks[x]['cu'] and x not in seen:
                        seen.append(x)
                s.append(seen)
            self._succ = s
        return self._succ

    @property
    def pred(self):
        if self._pred is None:
            p = [[] for _ in self.blocks]
            for i, ss in enumerate(self.succ):
                for x in ss:
                    p[x].append(i)
            self._pred = p
        return self._pred

    @property
    def live(self):
        """blocks from which a `return` is reachable (panic-only paths excluded)"""
        if self._live is None:
            rets = [i for i, b in enumerate(self.blocks) if b['t']['k'] == 'ret' and not b['cu']]
            seen = set(rets)
            st = list(rets)
            pred = self.pred
            while st:
                x = st.pop()
                for p in pred[x]:
                    if p not in seen:
                        seen.add(p)
                        st.append(p)
            self._live = seen
        return self._live

    def returns(self):
        return [i for i, b in enumerate(self.blocks) if b['t']['k'] == 'ret' and not b['cu']]

    def calls(self, pred=None):
        """[(block index, terminator)] of call terminators in non-cleanup blocks"""
        out = []
        for i, b in enumerate(self.blocks):
            if b['cu']:
                continue
            t = b['t']
            if t['k'] == 'call' and (pred is None or pred(t)):
                out.append((i, t))
        return out

    def calls_to(self, *names):
        """call sites of the named functions; a call of a *new helper* (a function that did not exist when the rules were
        reviewed, see Facts.new_fns) from which a named function is reached through new helpers only counts as a site
        too -- extracting a few lines into a private function does not hide the call from a rule"""
        names = set(names)
        new = self.facts.new_fns if self.facts is not None else ()
        if not new:
            return self.calls(lambda t: t['fn'] in names)
        return self.calls(lambda t: t['fn'] in names or (t['fn'] in new and self.facts.helper_reaches(t['fn'], names)))

    def stmts(self):
        """yield (bi, si, place, rvalue, line) for all assignments in non-cleanup blocks"""
        for bi, b in enumerate(self.blocks):
            if b['cu']:
                continue
            for si, s in enumerate(b['s']):
                yield bi, si, s[0], s[1], s[2]

    def line_of(self, bi):
        t = self.blocks[bi]['t']
        if 'ln' in t:
            return t['ln']
        for s in self.blocks[bi]['s']:
            return s[2]
        return self.l0

    def loc(self, bi):
        return '%s:%d' % (self.file, self.line_of(bi))

    # -- reachability
    def reachable(self, starts, cut_blocks=(), cut_edges=(), enter_cut=True):
        """blocks reachable from `starts`; paths do not continue *through* cut_blocks
        (they are entered when enter_cut) and never take cut_edges"""
        cut_blocks = set(cut_blocks)
        cut_edges = set(cut_edges)
        seen = set()
        st = list(starts)
        succ = self.succ
        while st:
            i = st.pop()
            if i in seen:
                continue
            if i in cut_blocks and not enter_cut:
                continue
            seen.add(i)
            if i in cut_blocks:
                continue
            for s in succ[i]:
                if (i, s) in cut_edges:
                    continue
                if s not in seen:
                    st.append(s)
        return seen

    def dominated_by_blocks(self, site, guards):
        """every path from entry to `site` passes through (the end of) a guard block"""
        guards = set(guards)
        if site in guards:
            return True
        r = self.reachable([0], cut_blocks=guards)
        return site not in r

    def dominated_by_edges(self, site, edges, extra_cut_blocks=()):
        """every path from entry to `site` takes one of `edges`"""
        r = self.reachable([0], cut_edges=edges, cut_blocks=extra_cut_blocks)
        return site not in r

    def path_between(self, src, dst, cut_blocks=(), cut_edges=()):
        """a shortest block path src..dst avoiding cuts, or None (for witnesses)"""
        cut_blocks = set(cut_blocks)
        cut_edges = set(cut_edges)
        prev = {src: None}
        dq = collections.deque([src])
        while dq:
            x = dq.popleft()
            if x == dst:
                p = []
                while x is not None:
                    p.append(x)
                    x = prev[x]
                return p[::-1]
            if x in cut_blocks and x != src:
                continue
            for s in self.succ[x]:
                if (x, s) in cut_edges or s in prev:
                    continue
                prev[s] = x
                dq.append(s)
        return None

    # -- definitions
    @property
    def defs(self):
        """local -> list of definitions: ('s', bi, si, rvalue) | ('call', bi, term) ;
        only whole-local assignments count as definitions; partial writes are ('part', ...)"""
        if self._defs is None:
            d = collections.defaultdict(list)
            for bi, b in enumerate(self.blocks):
                if b['cu']:
                    continue
                for si, s in enumerate(b['s']):
                    pl = s[0]
                    if len(pl) == 1:
                        d[pl[0]].append(('s', bi, si, s[1]))
                    elif pl[1] != '*':
                        # a write through a pointer does not redefine the pointer
                        d[pl[0]].append(('part', bi, si, s[1], pl))
                t = b['t']
                if t['k'] == 'call':
                    pl = t['d']
                    if len(pl) == 1:
                        d[pl[0]].append(('call', bi, t))
                    elif pl[1] != '*':
                        d[pl[0]].append(('part', bi, -1, None, pl))
            self._defs = d
        return self._defs

    _SCALARS = {'bool', 'u8', 'u16', 'u32', 'u64', 'usize', 'i8', 'i16', 'i32', 'i64', 'isize'}

    def mut_borrowed_scalars(self):
        """scalar locals whose address is taken mutably (written through a pointer, e.g. by a closure)"""
        if not hasattr(self, '_mbs_cache'):
            pass
        s = set()
        for bi, b in enumerate(self.blocks):
            if b['cu']:
                continue
            for st in b['s']:
                rv = st[1]
                if rv[0] == 'ref' and rv[1] and len(rv[2]) == 1 and self.locals[rv[2][0]][0] in self._SCALARS:
                    s.add(rv[2][0])
        return s

    def single_def(self, local):
        if 1 <= local <= self.argc:
            return None
        if self.locals[local][0] in self._SCALARS:
            mbs = self._expr_cache.get('__mbs__')
            if mbs is None:
                mbs = self.mut_borrowed_scalars()
                self._expr_cache['__mbs__'] = mbs
            if local in mbs:
                return None
        ds = self.defs.get(local, [])
        if len(ds) == 1 and ds[0][0] in ('s', 'call'):
            return ds[0]
        # drop-flag style re-initialisation: several defs all `use const` are not single
        return None

    # -- expression trees through single-definition chains
    def expr_of_local(self, local, depth=24):
        key = local
        c = self._expr_cache.get(key)
        if c is not None:
            return c
        if depth <= 0:
            return ('var', local)
        if 1 <= local <= self.argc and not self.defs.get(local):
            r = ('arg', local)
        else:
            d = self.single_def(local)
            if d is None:
                r = self._bool_select(local, depth)
            elif d[0] == 'call':
                t = d[2]
                self._expr_cache[key] = ('var', local)  # break cycles
                r = None
                if t['fn'] in RETURNS_CLOSURE_RESULT and len(t['cls']) == 1 and self.facts is not None:
                    cf = self.facts.fns.get(t['cls'][0])
                    if cf is not None:
                        r = cf.ret_expr(depth - 1)
                if r is None:
                    r = ('call', t['fn'], tuple(self.expr_of_op(a, depth - 1) for a in t['a']), d[1])
            else:
                self._expr_cache[key] = ('var', local)
                r = self.expr_of_rvalue(d[3], depth - 1)
        self._expr_cache[key] = r
        return r

    def _bool_select(self, local, depth):
        """a bool temporary assigned a constant on some arms and one computed value on another
        (`let x = match o { Some(v) => f(v), None => false }`, the lowering of `a && b`, `matches!`):
        ('bsel', c, E) = "the value is the constant c, or E as computed at its definition"."""
        if self.locals[local][0] != 'bool' or (1 <= local <= self.argc):
            return ('var', local)
        mbs = self._expr_cache.get('__mbs__')
        if mbs is None:
            mbs = self.mut_borrowed_scalars()
            self._expr_cache['__mbs__'] = mbs
        if local in mbs:
            return ('var', local)
        ds = self.defs.get(local, [])
        consts, others = set(), []
        for d in ds:
            if d[0] == 's' and d[3][0] == 'use' and d[3][1][0] == 'k' and d[3][1][3] in (0, 1):
                consts.add(bool(d[3][1][3]))
            elif d[0] in ('s', 'call'):
                others.append(d)
            else:
                return ('var', local)
        if len(others) != 1 or len(consts) != 1:
            return ('var', local)
        d = others[0]
        self._expr_cache[local] = ('var', local)  # break cycles
        if d[0] == 'call':
            t = d[2]
            e = ('call', t['fn'], tuple(self.expr_of_op(a, depth - 1) for a in t['a']), d[1])
        else:
            e = self.expr_of_rvalue(d[3], depth - 1)
        return ('bsel', list(consts)[0], e)

    def expr_of_place(self, place, depth=24):
        e = self.expr_of_local(place[0], depth)
        for k, el in enumerate(place[1:]):
            if isinstance(el, list) and el[0] == 'f' and el[1].startswith('closure ') and self.kind == 'Closure' and place[0] == 1 and el[2].isdigit():
                caps = self.captures()
                i = int(el[2])
                if i < len(caps):
                    e = caps[i]
                    continue
            if isinstance(el, list) and el[0] == 'i':
                e = ('index', e, self.expr_of_local(el[1], depth - 1))
            elif isinstance(el, list) and el[0] == 'c':
                e = ('index', e, ('const', -el[1] - 1 if el[2] else el[1], str(el[1]), 'usize'))
            else:
                e = _project(e, el)
        return e

    def expr_of_op(self, op, depth=24):
        if op[0] in ('c', 'm'):
            return self.expr_of_place(op[1], depth)
        if op[0] == 'k':
            if op[4]:
                return ('fnconst', norm(op[4]))
            val = op[3]
            if val is None and op[1].startswith('promoted = '):
                m = re.match(r'promoted = (-?\d+)_[iu](?:\d+|size)$', op[1])
                if m:
                    val = int(m.group(1))
                elif self.facts is not None:
                    val = self.facts.const_val(norm(op[1][len('promoted = '):].strip()))
            return ('const', val, op[1], op[2])
        return ('unknown',)

    def expr_of_rvalue(self, rv, depth=24):
        k = rv[0]
        if k == 'use':
            return self.expr_of_op(rv[1], depth)
        if k == 'ref' or k == 'addr':
            pl = rv[2] if k == 'ref' else rv[1]
            return ('ref', self.expr_of_place(pl, depth))
        if k == 'bin':
            return ('bin', rv[1], self.expr_of_op(rv[2], depth), self.expr_of_op(rv[3], depth))
        if k == 'un':
            return ('un', rv[1], self.expr_of_op(rv[2], depth))
        if k == 'discr':
            return ('discr', self.expr_of_place(rv[1], depth), rv[2])
        if k == 'cast':
            return ('cast', self.expr_of_op(rv[2], depth), rv[3])
        if k == 'aggr':
            return ('aggr', rv[1], norm(rv[2]) if rv[1] in ('adt', 'closure') else rv[2],
                    tuple(self.expr_of_op(o, depth) for o in rv[3]))
        return ('other', rv[1] if len(rv) > 1 else '')

    def ret_expr(self, depth=24):
        """expression of the returned value when the return place has a single whole assignment"""
        ds = [x for x in self.defs.get(0, []) if x[0] in ('s', 'call')]
        if len(ds) != 1:
            return None
        d = ds[0]
        if d[0] == 'call':
            t = d[2]
            return ('call', t['fn'], tuple(self.expr_of_op(a, depth) for a in t['a']), d[1])
        return self.expr_of_rvalue(d[3], depth)

    # -- dominators (block level), for loop detection
    @property
    def dom(self):
        if self._dom is None:
            n = len(self.blocks)
            allb = set(i for i in range(n) if not self.blocks[i]['cu'])
            reach = self.reachable([0])
            dom = {i: set(reach) for i in reach}
            dom[0] = {0}
            changed = True
            order = sorted(reach)
            while changed:
                changed = False
                for i in order:
                    if i == 0:
                        continue
                    ps = [p for p in self.pred[i] if p in reach]
                    if not ps:
                        continue
                    new = set.intersection(*[dom[p] for p in ps]) | {i}
                    if new != dom[i]:
                        dom[i] = new
                        changed = True
            self._dom = dom
        return self._dom

    def back_edges(self):
        out = []
        dom = self.dom
        for i in dom:
            for s in self.succ[i]:
                if s in dom.get(i, ()):
                    out.append((i, s))
        return out


def _project(e, el):
    """apply one projection element to an expression, simplifying ref/deref and
    checked-arithmetic tuples"""
    if el == '*':
        if e[0] == 'ref':
            return e[1]
        return ('deref', e)
    if el[0] == 'f':
        # (a checked_op b).0 -> a op b
        if e[0] == 'bin' and e[1].endswith('WithOverflow') and el[2] == '0':
            return ('bin', e[1][:-len('WithOverflow')], e[2], e[3])
        if e[0] == 'aggr' and e[1] in ('tuple',) and el[2].isdigit() and int(el[2]) < len(e[3]):
            return e[3][int(el[2])]
        return ('field', e, el[1], el[2])
    if el[0] == 'v':
        return ('variant', e, el[1])
    if el[0] == 'i':
        return ('index', e)
    return ('proj', e, tuple(el) if isinstance(el, list) else el)


# expression helpers ---------------------------------------------------------


def strip(e):
    """remove ref / deref / cast / Deref::deref / clone wrappers"""
    while True:
        if e[0] in ('ref', 'deref', 'upvar'):
            e = e[1]
        elif e[0] == 'cast':
            e = e[1]
        elif e[0] == 'call' and e[1] in TRANSPARENT_CALLS and e[2]:
            e = e[2][0]
        else:
            return e


# higher-order callees that call their closure exactly once and return its result
RETURNS_CLOSURE_RESULT = {'tracing::Span::in_scope'}

TRANSPARENT_CALLS = {
    '<proto::streams::store::Ptr as std::ops::Deref>::deref',
    '<proto::streams::store::Ptr as std::ops::DerefMut>::deref_mut',
    '<std::sync::MutexGuard as std::ops::Deref>::deref',
    '<std::sync::MutexGuard as std::ops::DerefMut>::deref_mut',
    '<&mut T as std::ops::DerefMut>::deref_mut',
    '<&T as std::ops::Deref>::deref',
    '<&mut T as std::ops::Deref>::deref',
    '<T as std::convert::Into>::into',
    '<T as std::convert::From>::from',
    '<u32 as std::clone::Clone>::clone',
    '<usize as std::clone::Clone>::clone',
    '<std::boxed::Box as std::ops::Deref>::deref',
    '<std::boxed::Box as std::ops::DerefMut>::deref_mut',
    # value-preserving for the purposes of refinement / provenance
    '<std::option::Option as std::clone::Clone>::clone',
    'std::option::Option::as_ref',
    'std::option::Option::as_mut',
}


_canon_cache = {}


def canon(e):
    """canonical form for value comparison: ref / deref / cast / transparent calls removed
    everywhere, call-site block indices kept (two reads of one call result are equal,
    two calls are not)"""
    if not isinstance(e, tuple) or not e:
        return e
    r = _canon_cache.get(e)
    if r is not None:
        return r
    k = e[0]
    if k in ('ref', 'deref'):
        r = canon(e[1])
    elif k == 'upvar':
        r = canon(e[1])
    elif k == 'cast':
        r = canon(e[1])
    elif k == 'call':
        if e[1] in TRANSPARENT_CALLS and e[2]:
            r = canon(e[2][0])
        else:
            r = ('call', e[1], tuple(canon(a) for a in e[2]), e[3])
    elif k == 'field':
        r = ('field', canon(e[1]), e[2], e[3])
    elif k == 'variant':
        r = ('variant', canon(e[1]), e[2])
    elif k == 'bin':
        r = ('bin', e[1], canon(e[2]), canon(e[3]))
    elif k == 'un':
        r = ('un', e[1], canon(e[2]))
    elif k == 'discr':
        r = ('discr', canon(e[1]), e[2])
    elif k == 'aggr':
        r = ('aggr', e[1], e[2], tuple(canon(a) for a in e[3]))
    elif k == 'index':
        r = ('index', canon(e[1])) + tuple(canon(x) for x in e[2:])
    else:
        r = e
    _canon_cache[e] = r
    return r


def field_chain(e):
    """[(owner, field)] from root to leaf of a chain of field/deref/ref/variant projections"""
    chain = []
    while True:
        if e[0] == 'field':
            chain.append((e[2], e[3]))
            e = e[1]
        elif e[0] in ('ref', 'deref', 'cast', 'upvar'):
            e = e[1]
        elif e[0] == 'variant':
            e = e[1]
        elif e[0] == 'call' and e[1] in TRANSPARENT_CALLS and e[2]:
            e = e[2][0]
        else:
            break
    return chain[::-1], e


def has_field(e, owner, field):
    ch, _ = field_chain(e)
    for (o, f) in ch:
        if f == field and (owner is None or o == owner or o.endswith('::' + owner)):
            return True
    return False


def mentions_field(e, owner, field):
    """some sub-expression reads through owner.field (anywhere in the tree)"""
    for x in walk(e):
        if x[0] == 'field' and x[3] == field and (owner is None or x[2] == owner or x[2].endswith('::' + owner)):
            return True
    return False


def last_field(e):
    ch, _ = field_chain(e)
    return ch[-1] if ch else None


def walk(e):
    """all sub-expressions"""
    st = [e]
    while st:
        x = st.pop()
        yield x
        if not isinstance(x, tuple):
            continue
        for y in x[1:]:
            if isinstance(y, tuple):
                if y and isinstance(y[0], str):
                    st.append(y)
                else:
                    for z in y:
                        if isinstance(z, tuple) and z and isinstance(z[0], str):
                            st.append(z)


def calls_in(e):
    return [x for x in walk(e) if x[0] == 'call']


def contains_call(e, name):
    return any(x[0] == 'call' and x[1] == name for x in walk(e))


def consts_in(e):
    return [x for x in walk(e) if x[0] == 'const']


def show(e, depth=6):
    if depth <= 0:
        return '…'
    k = e[0]
    if k == 'arg':
        return 'arg%d' % e[1]
    if k == 'var':
        return 'v%d' % e[1]
    if k == 'const':
        return str(e[2]) if e[1] is None else str(e[1])
    if k == 'fnconst':
        return e[1]
    if k == 'ref':
        return '&' + show(e[1], depth)
    if k == 'upvar':
        return '^' + show(e[1], depth)
    if k == 'deref':
        return '*' + show(e[1], depth)
    if k == 'field':
        return '%s.%s' % (show(e[1], depth - 1), e[3])
    if k == 'variant':
        return '(%s as %s)' % (show(e[1], depth - 1), e[2])
    if k == 'cast':
        return show(e[1], depth)
    if k == 'bin':
        return '(%s %s %s)' % (show(e[2], depth - 1), e[1], show(e[3], depth - 1))
    if k == 'un':
        return '%s(%s)' % (e[1], show(e[2], depth - 1))
    if k == 'discr':
        return 'discr(%s)' % show(e[1], depth - 1)
    if k == 'call':
        return '%s(%s)' % (short(e[1]), ', '.join(show(a, depth - 1) for a in e[2]))
    if k == 'aggr':
        return '%s{%s}' % (short(e[2]) or e[1], ', '.join(show(a, depth - 1) for a in e[3]))
    return k


def short(name):
    name = re.sub(r'proto::streams::\w+::', '', name)
    name = re.sub(r'\b(std|core|alloc)::(\w+::)*', '', name)
    return name


# --------------------------------------------------------------------------- facts


class Facts:
    def __init__(self, data, config=''):
        if data.get('schema') != 4:
            raise RuntimeError('facts schema mismatch')
        self.config = config
        self.data = data
        self.fns = {}
        self.dups = []
        fl = [Fn(raw) for raw in data['functions']]
        cnt = collections.Counter(f.name for f in fl)
        self.ambiguous = set(n for n, c in cnt.items() if c > 1)
        for f in fl:
            if f.name in self.ambiguous:
                f.name = norm(f.path, keep=True)
            if f.parent and f.parent in self.ambiguous:
                f.parent = norm(f.raw['parent'], keep=True)
            if f.name in self.fns:
                self.dups.append(f.name)
                k = 2
                while '%s#%d' % (f.name, k) in self.fns:
                    k += 1
                f.name = '%s#%d' % (f.name, k)
            self.fns[f.name] = f
            f.facts = self
        for f in fl:
            # normalise callee names once
            for b in f.blocks:
                t = b['t']
                if t['k'] == 'call':
                    t['fn'] = self.norm(t['f'])
                    t['ofn'] = self.norm(t['of']) if t.get('of') else t['fn']
                    t['cls'] = [self.norm(c) for c in t['cl']]
        self.adts = {norm(k): v for k, v in data['adts'].items()}
        self.consts = {}
        for c in data['consts']:
            self.consts[norm(c['path'])] = c
        self.unsafe = data['unsafe']
        self.stats = data['stats']
        self._cg = None
        self._rcg = None
        self.drop_impls = {}
        for name in self.fns:
            m = re.match(r'^<(.+) as std::ops::Drop>::drop$', name)
            if m:
                self.drop_impls[m.group(1)] = name
        # functions that did not exist in the reviewed tree: transparent helpers for call-site rules
        self.new_fns = set()
        try:
            with open(os.path.join(os.path.dirname(os.path.abspath(__file__)), 'rules', 'known_fns.json')) as fh:
                known = json.load(fh)
            if isinstance(known, list):
                known = dict((k, None) for k in known)
            self.new_fns = set(n for n in self.fns if n not in known and '{closure' not in n and '::tests::' not in n and not n.startswith('<'))
            self.renamed = {}
            try:
                self._pair_renames(known)
            except Exception:
                pass
        except Exception:
            pass
        self._helper_cache = {}
        try:
            self._inline_new_helpers()
        except Exception:  # an aid to precision only; without it the look-through in calls_to / expand_atoms remains
            pass

    def _pair_renames(self, known):
        """A function of the reviewed tree that is gone, and exactly one new function of the same type / module with the same
        number of arguments and the same return type: a rename.  The new function is analysed under the old name (the
        name the rules and tables were written against); its callers' call sites and its closures are renamed with it.
        Only functions that exist in every build configuration of the reviewed tree are considered gone."""
        here = set(self.fns)
        gone = [n for n, sig in known.items() if sig is not None and n not in here and not n.startswith('<') and '::tests::' not in n
                and (len(sig) < 3 or not self.config or self.config in sig[2])]
        if not gone or not self.new_fns:
            return
        by_owner_new = {}
        for n in self.new_fns:
            f = self.fns[n]
            by_owner_new.setdefault((n.rpartition('::')[0], f.argc, f.ret), []).append(n)
        by_owner_gone = {}
        for n in gone:
            argc, ret = known[n][0], known[n][1]
            by_owner_gone.setdefault((n.rpartition('::')[0], argc, ret), []).append(n)
        pairs = {}
        for key, olds in by_owner_gone.items():
            news = by_owner_new.get(key, [])
            if len(olds) == 1 and len(news) == 1:
                pairs[news[0]] = olds[0]
        if not pairs:
            return
        # cfg-dependent functions (absent from this configuration in the reviewed tree too) must not be paired: a function is
        # "gone" only if some function of this configuration was known -- guaranteed, since every name in `here` that is
        # known exists; the remaining risk (a cfg-gated function paired with an unrelated new one) needs an equal signature
        # in the same impl block
        for new, old in pairs.items():
            f = self.fns.pop(new)
            f.name = old
            self.fns[old] = f
            self.new_fns.discard(new)
            self.renamed[new] = old
            for cn in [c for c in list(self.fns) if c.startswith(new + '::{closure')]:
                g = self.fns.pop(cn)
                g.name = old + cn[len(new):]
                if g.parent == new:
                    g.parent = old
                self.fns[g.name] = g
        for f in self.fns.values():
            if f.parent in pairs:
                f.parent = pairs[f.parent]
            for b in f.blocks:
                t = b['t']
                if t['k'] == 'call':
                    for key in ('fn', 'ofn'):
                        v = t.get(key)
                        if v in pairs:
                            t[key] = pairs[v]
                        elif isinstance(v, str):
                            for new, old in pairs.items():
                                if v.startswith(new + '::{closure'):
                                    t[key] = old + v[len(new):]
                    t['cls'] = [pairs.get(c, next((old + c[len(new):] for new, old in pairs.items() if c.startswith(new + '::{closure')), c)) for c in t.get('cls', [])]

    def _inline_new_helpers(self, rounds=3):
        """MIR-level inlining of *new helpers* (functions absent from the reviewed tree) into their callers, so that a few
        lines extracted into a private function are analysed where they are used -- dominance, control dependence,
        who-may-call and amount rules see the same program as before the extraction.  Leaf helpers first; a helper all of
        whose call sites were inlined disappears from the function table."""
        import copy
        for _ in range(rounds):
            leaf = set()
            for h in self.new_fns:
                g = self.fns.get(h)
                if g is None:
                    continue
                callees = set(b['t']['fn'] for b in g.blocks if b['t']['k'] == 'call')
                if not (callees & self.new_fns) and len(g.blocks) <= 80:
                    leaf.add(h)
            if not leaf:
                break
            left = set()
            for name, f in list(self.fns.items()):
                if name in leaf:
                    continue
                bi = 0
                n_inlined = 0
                while bi < len(f.blocks):
                    b = f.blocks[bi]
                    t = b['t']
                    if t['k'] == 'call' and t['fn'] in leaf and not b['cu']:
                        if t['t'] is None or t['t'] < 0 or len(t['d']) == 0 or n_inlined >= 12:
                            left.add(t['fn'])
                        else:
                            if not hasattr(self, '_inlined_into'):
                                self._inlined_into = {}
                            self._inlined_into.setdefault(t['fn'], set()).add(name)
                            self._inline_call(f, bi, self.fns[t['fn']], copy)
                            n_inlined += 1
                    bi += 1
            for h in leaf - left:
                self._reparent_closures(h)
                self.fns.pop(h, None)
                self.new_fns.discard(h)
            self.new_fns -= left & leaf  # could not be inlined everywhere: stays a (transparent) function
            if left & leaf:
                self.new_fns |= set()  # keep semantics explicit

    def _reparent_closures(self, helper):
        """the closures of a helper that was inlined everywhere belong to its (single) caller from now on: they get the caller's
        name and the next free closure indices, so rules that speak of `Caller::{closure}` keep applying"""
        cl = sorted(n for n in self.fns if n.startswith(helper + '::{closure'))
        if not cl:
            return
        callers = getattr(self, '_inlined_into', {}).get(helper, set())
        if len(callers) != 1:
            return
        caller = next(iter(callers)).split('::{closure')[0]
        used = set()
        for n in self.fns:
            m = re.match(re.escape(caller) + r'::\{closure#(\d+)\}$', n)
            if m:
                used.add(int(m.group(1)))
        ren = {}
        nxt = 0
        for n in cl:
            if re.match(re.escape(helper) + r'::\{closure#\d+\}$', n):
                while nxt in used:
                    nxt += 1
                used.add(nxt)
                ren[n] = '%s::{closure#%d}' % (caller, nxt)
        # nested closures follow their parent
        for n in cl:
            for old, new in list(ren.items()):
                if n.startswith(old + '::'):
                    ren[n] = new + n[len(old):]
        for old, new in ren.items():
            g = self.fns.pop(old)
            g.name = new
            g.parent = ren.get(g.parent, caller if g.parent == helper else g.parent)
            self.fns[new] = g
        for f in self.fns.values():
            for b in f.blocks:
                for st in b['s']:
                    rv = st[1]
                    if rv[0] == 'aggr' and rv[1] in ('closure', 'coroutine') and self.norm(rv[2]) in ren:
                        rv[2] = ren[self.norm(rv[2])]
                t = b['t']
                if t['k'] == 'call':
                    for key in ('fn', 'ofn'):
                        if t.get(key) in ren:
                            t[key] = ren[t[key]]
                    t['cls'] = [ren.get(c, c) for c in t.get('cls', [])]

    @staticmethod
    def _inline_call(f, bi, g, copy):
        off = len(f.locals)
        boff = len(f.blocks)
        t = f.blocks[bi]['t']
        ln = t.get('ln')
        f.locals.extend(copy.deepcopy(g.locals))

        def rplace(p):
            return [p[0] + off] + [(['i', x[1] + off] if isinstance(x, list) and x and x[0] == 'i' else x) for x in p[1:]]

        def roper(o):
            return [o[0], rplace(o[1])] if o and o[0] in ('c', 'm') else o

        def rrv(rv):
            k = rv[0]
            if k == 'use':
                return ['use', roper(rv[1])]
            if k == 'ref':
                return ['ref', rv[1], rplace(rv[2])]
            if k == 'addr':
                return ['addr', rplace(rv[1])]
            if k == 'bin':
                return ['bin', rv[1], roper(rv[2]), roper(rv[3])]
            if k == 'un':
                return ['un', rv[1], roper(rv[2])]
            if k == 'discr':
                return ['discr', rplace(rv[1]), rv[2]]
            if k == 'cast':
                return ['cast', rv[1], roper(rv[2])] + list(rv[3:])
            if k == 'aggr':
                return ['aggr', rv[1], rv[2], [roper(o) for o in rv[3]]]
            return copy.deepcopy(rv)

        def rb(x):
            return x + boff if isinstance(x, int) and x >= 0 else x
        for gb in g.blocks:
            nb = {'cu': gb['cu'], 's': [[rplace(st[0]), rrv(st[1])] + list(st[2:]) for st in gb['s']]}
            gt = gb['t']
            k = gt['k']
            nt = copy.deepcopy(gt)
            if k == 'call':
                nt['a'] = [roper(o) for o in gt['a']]
                nt['d'] = rplace(gt['d']) if gt['d'] else gt['d']
                nt['t'] = rb(gt['t'])
                if 'u' in gt:
                    nt['u'] = rb(gt['u'])
            elif k == 'sw':
                nt['o'] = roper(gt['o'])
                nt['ts'] = [[v, rb(x)] for v, x in gt['ts']]
                nt['else'] = rb(gt['else'])
            elif k == 'drop':
                nt['p'] = rplace(gt['p']) if isinstance(gt.get('p'), list) else gt.get('p')
                nt['t'] = rb(gt['t'])
                if 'u' in gt:
                    nt['u'] = rb(gt['u'])
            elif k == 'goto':
                nt['t'] = rb(gt['t'])
            elif k == 'assert':
                nt['cond'] = roper(gt['cond'])
                nt['t'] = rb(gt['t'])
            elif k == 'other':
                if isinstance(gt.get('d'), list) and gt['d']:
                    nt['d'] = rplace(gt['d'])
                nt['succ'] = [rb(x) for x in gt['succ']]
            elif k == 'ret':
                nb['s'].append([list(t['d']), ['use', ['m', [off]]], gt.get('ln', ln)])
                nt = {'k': 'goto', 't': t['t']}
            nb['t'] = nt
            f.blocks.append(nb)
        for k2, a in enumerate(t['a']):
            f.blocks[bi]['s'].append([[off + 1 + k2], ['use', a], ln])
        f.blocks[bi]['t'] = {'k': 'goto', 't': boff}
        try:
            f._thread_bool_constants()
        except Exception:
            pass
        try:
            f._thread_result_variants()
        except Exception:
            pass

    def helper_reaches(self, helper, names, depth=3):
        """a named function is called by `helper` directly or through further new helpers"""
        key = (helper, tuple(sorted(names)))
        if key in self._helper_cache:
            return self._helper_cache[key]
        self._helper_cache[key] = False
        f = self.fns.get(helper)
        res = False
        if f is not None and depth > 0:
            for b in f.blocks:
                t = b['t']
                if b['cu'] or t['k'] != 'call':
                    continue
                if t['fn'] in names or (t['fn'] in self.new_fns and t['fn'] != helper and self.helper_reaches(t['fn'], names, depth - 1)):
                    res = True
                    break
        self._helper_cache[key] = res
        return res

    def norm(self, path):
        n = norm(path)
        if n in self.ambiguous:
            return norm(path, keep=True)
        # closures of ambiguous functions
        if '::{closure' in n and n.split('::{closure')[0] in self.ambiguous:
            return norm(path, keep=True)
        return n

    def fn(self, name):
        return self.fns.get(name)

    def variants(self, adt):
        a = self.adts.get(adt)
        if not a:
            return None
        return {v['discr']: v['name'] for v in a['variants']}

    def const_val(self, path):
        c = self.consts.get(path)
        return c['val'] if c else None

    # -- call graph: calls + closures created/passed + Drop impls in drop glue
    @property
    def cg(self):
        if self._cg is None:
            cg = {}
            for name, f in self.fns.items():
                out = set()
                for bi, b in enumerate(f.blocks):
                    if b['cu']:
                        continue
                    t = b['t']
                    if t['k'] == 'call':
                        out.add(t['fn'])
                        for c in t['cls']:
                            out.add(c)
                    elif t['k'] == 'drop':
                        for g in t['glue']:
                            d = self.drop_impls.get(norm(g))
                            if d:
                                out.add(d)
                    for s in b['s']:
                        rv = s[1]
                        if rv[0] == 'aggr' and rv[1] in ('closure', 'coroutine'):
                            out.add(norm(rv[2]))
                        # function items taken as values (fn pointers / map(f))
                        if rv[0] == 'use' and rv[1][0] == 'k' and rv[1][4]:
                            out.add(norm(rv[1][4]))
                    if t['k'] == 'call':
                        for a in t['a']:
                            if a[0] == 'k' and a[4]:
                                out.add(norm(a[4]))
                cg[name] = out
            self._cg = cg
        return self._cg

    @property
    def rcg(self):
        if self._rcg is None:
            r = collections.defaultdict(set)
            for a, bs in self.cg.items():
                for b in bs:
                    r[b].add(a)
            self._rcg = r
        return self._rcg

    def reach_from(self, starts, stop=()):
        seen = set()
        st = list(starts)
        stop = set(stop)
        while st:
            x = st.pop()
            if x in seen or x in stop:
                continue
            seen.add(x)
            for c in self.cg.get(x, ()):
                if c not in seen:
                    st.append(c)
        return seen

    def callers_closure(self, targets):
        """all functions from which one of `targets` is reachable (including targets)"""
        seen = set()
        st = list(targets)
        while st:
            x = st.pop()
            if x in seen:
                continue
            seen.add(x)
            for c in self.rcg.get(x, ()):
                if c not in seen:
                    st.append(c)
        return seen

    def call_path(self, src, dst_pred, stop=()):
        """shortest call chain src -> f with dst_pred(f), for witnesses"""
        prev = {src: None}
        dq = collections.deque([src])
        stop = set(stop)
        while dq:
            x = dq.popleft()
            if dst_pred(x):
                p = []
                while x is not None:
                    p.append(x)
                    x = prev[x]
                return p[::-1]
            for c in sorted(self.cg.get(x, ())):
                if c not in prev and c not in stop:
                    prev[c] = x
                    dq.append(c)
        return None

    def fn_at(self, file, line):
        best = None
        for f in self.fns.values():
            if f.file == file and f.l0 <= line <= f.l1:
                if best is None or (f.l1 - f.l0) < (best.l1 - best.l0):
                    best = f
        return best


def load(path, config=''):
    with open(path) as fh:
        return Facts(json.load(fh), config)


# --------------------------------------------------------------------------- switch / polarity resolution

BOOL_QUERIES = {
    'std::option::Option::is_some': ('Some', 'None'),
    'std::option::Option::is_none': ('None', 'Some'),
    'std::result::Result::is_ok': ('Ok', 'Err'),
    'std::result::Result::is_err': ('Err', 'Ok'),
    'std::task::Poll::is_ready': ('Ready', 'Pending'),
    'std::task::Poll::is_pending': ('Pending', 'Ready'),
}

TRY_BRANCH = {
    '<std::result::Result as std::ops::Try>::branch': {'Continue': ('Ok',), 'Break': ('Err',)},
    '<std::option::Option as std::ops::Try>::branch': {'Continue': ('Some',), 'Break': ('None',)},
    # Poll<Result<T,E>>: Break <=> Ready(Err)
    '<std::task::Poll as std::ops::Try>::branch': {'Continue': ('Ready(Ok)', 'Pending', 'Ready(None)'), 'Break': ('Ready(Err)',)},
}


class Switch:
    """resolved view of a SwitchInt terminator

    kind: 'bool'    subject = expr, labels succ -> True/False
          'variant' subject = expr of the matched place, labels succ -> frozenset(variant names)
          'cmp'     subject = ('bin', op, a, b), labels succ -> True/False
          'int'     subject = expr, labels succ -> value or 'else'
    """

    def __init__(self, kind, subject, labels, bi, adt=None):
        self.kind = kind
        self.subject = subject
        self.labels = labels
        self.bi = bi
        self.adt = adt

    def succs_where(self, pred):
        return [s for s, l in self.labels.items() if pred(l)]


def resolve_switch(facts, fn, bi):
    t = fn.term(bi)
    if t['k'] != 'sw':
        return None
    ts = t['ts']
    other = t['else']
    e = fn.expr_of_op(t['o'])
    neg = False
    # peel Not
    while e[0] == 'un' and e[1] == 'Not':
        neg = not neg
        e = e[2]
    if t['ty'] == 'bool':
        lab = {}
        # a switch may send several values to one block; for bool: value 0 = false
        for v, b in ts:
            lab[b] = (v != 0) ^ neg if b not in lab else None
        if other not in lab:
            lab[other] = (not neg) if all(v == 0 for v, _ in ts) else (neg if all(v != 0 for v, _ in ts) else None)
        # bool temporary that is a constant c on some arms and E on one: only the edge "value != c" says something about E
        hops = 0
        while e[0] == 'bsel' and hops < 4:
            hops += 1
            c, inner = e[1], e[2]
            lab = {b: (None if (l is None or l is c) else l) for b, l in lab.items()}
            e = inner
            flip = False
            while e[0] == 'un' and e[1] == 'Not':
                flip = not flip
                e = e[2]
            if flip:
                lab = {b: (None if l is None else (not l)) for b, l in lab.items()}
        # query calls on Option/Result/Poll
        if e[0] == 'call' and e[1] in BOOL_QUERIES and e[2]:
            yes, no = BOOL_QUERIES[e[1]]
            subj = strip(e[2][0])
            labels = {}
            for s, l in lab.items():
                labels[s] = frozenset([yes]) if l else frozenset([no])
            return Switch('variant', subj, labels, bi)
        if e[0] == 'bin' and e[1] in ('Eq', 'Ne', 'Lt', 'Le', 'Gt', 'Ge'):
            return Switch('cmp', e, lab, bi)
        return Switch('bool', e, lab, bi)
    if e[0] == 'discr':
        subj = e[1]
        vs = facts.variants(norm(e[2])) or {}
        lab = {}
        used = set()
        for v, b in ts:
            nm = vs.get(v, str(v))
            used.add(nm)
            lab.setdefault(b, set()).add(nm)
        rest = set(vs.values()) - used
        if rest:
            lab.setdefault(other, set()).update(rest)
        elif other not in lab:
            lab[other] = set()  # unreachable otherwise
        labels = {b: frozenset(s) for b, s in lab.items()}
        # see through Try::branch
        s2 = strip(subj) if subj[0] in ('ref', 'deref') else subj
        if s2[0] == 'call' and s2[1] in TRY_BRANCH and s2[2]:
            m = TRY_BRANCH[s2[1]]
            inner = s2[2][0]
            labels2 = {}
            for b, names in labels.items():
                out = set()
                for nm in names:
                    out.update(m.get(nm, (nm,)))
                labels2[b] = frozenset(out)
            return Switch('variant', inner, labels2, bi, adt=norm(e[2]))
        return Switch('variant', subj, labels, bi, adt=norm(e[2]))
    lab = {}
    for v, b in ts:
        lab.setdefault(b, v)
    lab.setdefault(other, 'else')
    return Switch('int', e, lab, bi)


_NEG_OP = {'Gt': 'Le', 'Le': 'Gt', 'Lt': 'Ge', 'Ge': 'Lt', 'Eq': 'Ne', 'Ne': 'Eq'}
_SWAP_OP = {'Gt': 'Lt', 'Lt': 'Gt', 'Ge': 'Le', 'Le': 'Ge', 'Eq': 'Eq', 'Ne': 'Ne'}


def presentations(sw):
    """the equivalent ways of writing a comparison switch: as written, negated (`a <= b` with the edges exchanged for
    `a > b`), with the operands exchanged, and both.  A rule that states its test as `x > limit` on the true edge thereby
    also recognises `if x <= limit {..} else {..}`, `limit < x`, and PartialOrd method calls."""
    yield sw
    c = cmp_of(sw)
    if c is None or any(l is None for l in sw.labels.values()):
        return
    op, a, b = c
    inv = {s: (not l) for s, l in sw.labels.items()}
    forms = [(op, a, b, dict(sw.labels)), (_NEG_OP[op], a, b, inv), (_SWAP_OP[op], b, a, dict(sw.labels)), (_NEG_OP[_SWAP_OP[op]], b, a, inv)]
    for f_op, fa, fb, lab in forms[1:]:
        yield Switch('cmp', ('bin', f_op, fa, fb), lab, sw.bi)
    # against the constant 0 of an unsigned type `x != 0` is `x > 0` and `x == 0` is `x <= 0` (and mirrored)
    uz = {'Ne': 'Gt', 'Eq': 'Le', 'Gt': 'Ne', 'Le': 'Eq'}
    zu = {'Ne': 'Lt', 'Eq': 'Ge', 'Lt': 'Ne', 'Ge': 'Eq'}
    for f_op, fa, fb, lab in forms:
        if is_unsigned_zero(fb) and f_op in uz:
            yield Switch('cmp', ('bin', uz[f_op], fa, fb), lab, sw.bi)
        elif is_unsigned_zero(fa) and f_op in zu:
            yield Switch('cmp', ('bin', zu[f_op], fa, fb), lab, sw.bi)


def edges_where(facts, fn, subject_pred, label_pred):
    """all CFG edges (from, to) out of switches whose subject satisfies subject_pred and
    whose label on that edge satisfies label_pred.  A comparison is tried as written first and then in its
    equivalent presentations (see `presentations`); the first one the subject predicate accepts is used."""
    out = []
    for bi, b in enumerate(fn.blocks):
        if b['cu'] or b['t']['k'] != 'sw':
            continue
        sw0 = resolve_switch(facts, fn, bi)
        if sw0 is None:
            continue
        for sw in presentations(sw0):
            try:
                hit = subject_pred(sw)
            except (IndexError, TypeError):
                hit = False
            if not hit:
                continue
            for s, l in sw.labels.items():
                if l is not None and label_pred(l):
                    out.append((bi, s))
            break
    return out


# --------------------------------------------------------------------------- disjunctive dataflow


class Cap(Exception):
    pass


def forward(fn, init, step, cap=64, start=0):
    """Disjunctive forward dataflow.  `step(bi, state)` returns an iterable of
    (successor block, new state) for block bi entered in `state`.  States must be hashable.
    Returns (instates: block -> set(state), parent: (bi,state) -> (pbi,pstate) or None)."""
    ins = collections.defaultdict(set)
    parent = {}
    ins[start].add(init)
    parent[(start, init)] = None
    work = collections.deque([(start, init)])
    while work:
        bi, st = work.popleft()
        for (s, ns) in step(bi, st):
            if ns not in ins[s]:
                if len(ins[s]) >= cap:
                    raise Cap('state cap exceeded in %s at bb%d' % (fn.name, s))
                ins[s].add(ns)
                parent[(s, ns)] = (bi, st)
                work.append((s, ns))
    return ins, parent


def witness_path(fn, parent, bi, st):
    p = []
    cur = (bi, st)
    while cur is not None:
        p.append(cur)
        cur = parent.get(cur)
    p.reverse()
    return [{'bb': b, 'loc': fn.loc(b), 'state': str(s)} for b, s in p]


def compress_path(fn, blocks):
    """witness: list of file:line for a block path with consecutive duplicates removed"""
    out = []
    for b in blocks:
        l = fn.loc(b)
        if not out or out[-1] != l:
            out.append(l)
    return out


# --------------------------------------------------------------------------- event scanning


def scan(fn, init, on_stmt=None, on_term=None, on_edge=None, cap=64, track_ret=True):
    """Path-sensitive event scan of one function.

    State = (user_state, ret_class) where ret_class tracks what was last stored into the
    return place: 'Ok' / 'Err' / 'Some' / 'None' / 'Ready' / 'Pending' / callee name / '?'.
    on_stmt(us, bi, si, place, rv) -> us
    on_term(us, bi, term) -> us | {succ: us}      (applied when leaving the block)
    on_edge(us, bi, succ) -> us | None            (None = edge infeasible under us)
    Returns (exits, ins, parent): exits = [(ret_block, user_state, ret_class)].
    """
    def step(bi, st):
        us, rc = st
        b = fn.blocks[bi]
        for si, s in enumerate(b['s']):
            pl, rv = s[0], s[1]
            if track_ret and pl[0] == 0:
                if len(pl) == 1:
                    rc = _ret_class_rv(rv, fn)
                # partial writes into the return place keep the class
            if on_stmt:
                us = on_stmt(us, bi, si, pl, rv)
        t = b['t']
        if track_ret and t['k'] == 'call' and t['d'][0] == 0 and len(t['d']) == 1:
            rc = _ret_class_call(t)
        res = on_term(us, bi, t) if on_term else us
        out = []
        for s in fn.succ[bi]:
            ns = res[s] if isinstance(res, dict) and s in res else (res if not isinstance(res, dict) else us)
            if on_edge:
                ns = on_edge(ns, bi, s)
                if ns is None:
                    continue
            out.append((s, (ns, rc)))
        return out

    ins, parent = forward(fn, (init, '?'), step, cap=cap)
    exits = []
    for bi in fn.returns():
        for (us, rc) in ins.get(bi, ()):
            # apply statements of the return block itself
            b = fn.blocks[bi]
            rc2 = rc
            us2 = us
            for si, s in enumerate(b['s']):
                if track_ret and s[0][0] == 0 and len(s[0]) == 1:
                    rc2 = _ret_class_rv(s[1], fn)
                if on_stmt:
                    us2 = on_stmt(us2, bi, si, s[0], s[1])
            exits.append((bi, us2, rc2, (us, rc)))
    return exits, ins, parent


def _ret_class_rv(rv, fn):
    if rv[0] == 'aggr' and rv[1] == 'adt':
        v = rv[2].split('::')[-1]
        if v in ('Err', 'Ready', 'Some', 'Ok') and rv[3]:
            l = op_local(rv[3][0])
            if l is not None:
                e = fn.expr_of_local(l)
                if e[0] == 'call' and v != 'Ok':
                    return '%s:%s' % (v, e[1].split('::')[-1])
                if e[0] == 'aggr' and e[1] == 'adt':
                    return '%s:%s' % (v, e[2].split('::')[-1])
        return v
    if rv[0] == 'use':
        op = rv[1]
        l = op_local(op)
        if l is not None:
            e = fn.expr_of_local(l)
            if e[0] == 'aggr' and e[1] == 'adt':
                return e[2].split('::')[-1]
            if e[0] == 'call':
                return 'call:' + e[1]
        c = op_const(op)
        if c is not None:
            return 'const:' + str(c[1])
    return '?'


def _ret_class_call(t):
    if t['fn'].endswith('::from_residual'):
        return 'Err'
    return 'call:' + t['fn']


def is_err_class(rc):
    return rc == 'Err'


# --------------------------------------------------------------------------- decision paths (table extraction)


def decision_paths(facts, fn, max_paths=20000, start=0):
    """Enumerate acyclic entry→return paths of a (loop-free) function as
    (conds, blocks): conds = [(Switch, label, succ)] in order.  Raises Cap when the
    function has more than max_paths paths or contains a loop on a live path."""
    out = []
    sw_cache = {}

    def rec(bi, conds, blocks, onpath):
        if len(out) > max_paths:
            raise Cap('too many paths in %s' % fn.name)
        blocks = blocks + [bi]
        t = fn.term(bi)
        if t['k'] == 'ret':
            out.append((conds, blocks))
            return
        succs = fn.succ[bi]
        if not succs:
            return  # diverges (panic / unreachable)
        if t['k'] == 'sw':
            sw = sw_cache.get(bi)
            if sw is None:
                sw = resolve_switch(facts, fn, bi)
                sw_cache[bi] = sw
            for s in succs:
                if s in onpath:
                    raise Cap('loop in %s' % fn.name)
                rec(s, conds + [(sw, sw.labels.get(s), s)], blocks, onpath | {s})
        else:
            for s in succs:
                if s in onpath:
                    raise Cap('loop in %s' % fn.name)
                rec(s, conds, blocks, onpath | {s})

    import sys
    old = sys.getrecursionlimit()
    sys.setrecursionlimit(max(old, 10000))
    try:
        rec(start, [], [], {start})
    finally:
        sys.setrecursionlimit(old)
    return out


def const_str(text):
    """Rust debug-printed string literal → python str (None if not a string literal)"""
    if text is not None and text.startswith('promoted = '):
        text = text[len('promoted = '):].split(' ; ')[0]
    if text is None or len(text) < 2 or text[0] != '"' or text[-1] != '"':
        return None
    s = text[1:-1]
    return s.replace('\\"', '"').replace('\\\\', '\\')


def camel_to_kebab(s):
    out = []
    for i, c in enumerate(s):
        if c.isupper() and i > 0:
            out.append('-')
        out.append(c.lower())
    return ''.join(out)


def sequences(fn, match, cap=48, maxlen=40):
    """set of event sequences over all entry→return paths; match(bi, term) -> label or None.
    Loops are cut by `maxlen` (Cap raised)."""
    def on_term(us, bi, t):
        ev = match(bi, t)
        if ev is None:
            return us
        if len(us) >= maxlen:
            raise Cap('event sequence too long in %s' % fn.name)
        return us + (ev,)
    exits, ins, parent = scan(fn, (), None, on_term, cap=cap)
    return set(us for (bi, us, rc, st) in exits)


def guard_edges(facts, fn, callees, accept):
    """CFG edges out of switches whose subject derives from a call to one of `callees`
    and whose label satisfies accept(label) (label: True/False or frozenset of variants)"""
    callees = set(callees)

    def subj(sw):
        e = sw.subject
        return any(x[0] == 'call' and x[1] in callees for x in walk(e))
    return edges_where(facts, fn, subj, accept)


def switch_root_local(fn, bi):
    """the local a switch really tests: its operand followed back through single-definition copies
    (`_8 = copy _3; switchInt(move _8)` -> 3); None when the operand is not a bare local"""
    t = fn.term(bi)
    if t['k'] != 'sw':
        return None
    l = op_local(t['o'])
    hops = 0
    while l is not None and hops < 6:
        d = fn.single_def(l)
        if d is None or d[0] != 's':
            break
        rv = d[3]
        src = op_local(rv[1]) if rv[0] == 'use' else None
        if src is None:
            break
        l = src
        hops += 1
    return l


def all_switches(facts, fn):
    out = {}
    for bi, b in enumerate(fn.blocks):
        if not b['cu'] and b['t']['k'] == 'sw':
            out[bi] = resolve_switch(facts, fn, bi)
    return out


def write_target(fn, place):
    """(owner, field) a statement's destination place denotes, seen through closure captures"""
    fs = place_fields(place)
    if fs and not fs[-1][0].startswith('closure '):
        return fs[-1]
    if len(place) == 1:
        return None
    e = fn.expr_of_place(place)
    return last_field(e) if strip(e)[0] == 'field' else None


_CMP_METHODS = {'gt': 'Gt', 'lt': 'Lt', 'ge': 'Ge', 'le': 'Le', 'eq': 'Eq', 'ne': 'Ne'}


def cmp_of(sw):
    """(op, lhs, rhs) when the switch decides a comparison — native (BinaryOp) or through
    PartialOrd / PartialEq method calls — else None.  Labels are True/False on the edges."""
    if sw is None:
        return None
    if sw.kind == 'cmp':
        return (sw.subject[1], sw.subject[2], sw.subject[3])
    if sw.kind == 'bool':
        e = sw.subject
        if e[0] == 'call' and len(e[2]) == 2:
            m = e[1].rsplit('::', 1)[-1]
            if m in _CMP_METHODS and ('PartialOrd' in e[1] or 'PartialEq' in e[1] or 'cmp::impls' in e[1]):
                return (_CMP_METHODS[m], e[2][0], e[2][1])
    return None


def assume_scan(facts, fn, oracle, cap=256):
    """Explore `fn` under assumptions.  oracle(sw) -> None (explore every edge) or a predicate over
    edge labels selecting the feasible edges of switch `sw`.  Boolean temporaries assigned constants
    (the lowering of `matches!`, `&&`, `||`) are tracked so a later switch on them follows the value.
    Returns (exits [(ret block, ret class, parent state)], parent, n_forced)."""
    sws = all_switches(facts, fn)
    forced = [0]

    def on_stmt(us, bi, si, pl, rv):
        if len(pl) == 1 and fn.local_ty(pl[0]) == 'bool' and fn.single_def(pl[0]) is None:
            d = dict(us)
            c = op_const(rv[1]) if rv[0] == 'use' else None
            if c is not None and c[0] in (0, 1):
                d[pl[0]] = bool(c[0])
            else:
                d.pop(pl[0], None)
            return tuple(sorted(d.items()))
        return us

    def on_term(us, bi, t):
        if t['k'] == 'call' and len(t['d']) == 1 and dict(us).get(t['d'][0]) is not None:
            d = dict(us)
            d.pop(t['d'][0], None)
            return tuple(sorted(d.items()))
        return us

    def on_edge(us, bi, s):
        sw = sws.get(bi)
        if sw is None:
            return us
        t = fn.term(bi)
        l = op_local(t['o'])
        if l is not None and t['ty'] == 'bool':
            v = dict(us).get(l)
            if v is None:
                root = switch_root_local(fn, bi)  # `_8 = copy flag; switchInt(move _8)`
                if root is not None:
                    v = dict(us).get(root)
            if v is not None:
                # the tracked constant decides the raw switch
                tg = [b for val, b in t['ts'] if (val != 0) == v]
                target = tg[0] if tg else t['else']
                return us if s == target else None
        lab = sw.labels.get(s)
        sel = oracle(sw)
        if sel is not None:
            forced[0] += 1
            if lab is not None and not sel(lab):
                return None
            if lab is None and not any(l2 is None for b2, l2 in sw.labels.items() if b2 != s) and not any(l2 is not None and sel(l2) for l2 in sw.labels.values()):
                return None
        return us

    exits, ins, parent = scan(fn, (), on_stmt, on_term, on_edge, cap=cap)
    return [(bi, rc, st) for (bi, us, rc, st) in exits], parent, forced[0]


_ORD = {'Lt': {'lt'}, 'Le': {'lt', 'eq'}, 'Gt': {'gt'}, 'Ge': {'gt', 'eq'}, 'Eq': {'eq'}, 'Ne': {'lt', 'gt'}}
_ORD_ALL = frozenset(['lt', 'eq', 'gt'])
_ORD_FLIP = {'lt': 'gt', 'gt': 'lt', 'eq': 'eq'}


def cmp_regions(sw, flip=False):
    """for a comparison switch: (lhs, rhs, {succ: frozenset of orderings of lhs vs rhs on that edge})"""
    c = cmp_of(sw)
    if c is None:
        return None
    op, a, b = c
    out = {}
    for s2, lab in sw.labels.items():
        if lab is None:
            continue
        o = set(_ORD[op]) if lab else set(_ORD_ALL - _ORD[op])
        if flip:
            o = {_ORD_FLIP[x] for x in o}
        out[s2] = frozenset(o)
    return (b, a, out) if flip else (a, b, out)


def additive_leaves(e):
    """leaves of a tree of (checked) additions; None when another operator is involved"""
    e = strip(e)
    while e[0] == 'cast':
        e = strip(e[1])
    if e[0] == 'field' and e[3] == '0' and strip(e[1])[0] == 'bin' and strip(e[1])[1] == 'AddWithOverflow':
        e = strip(e[1])
    if e[0] == 'bin':
        if e[1] not in ('Add', 'AddWithOverflow', 'AddUnchecked'):
            return None
        a, b = additive_leaves(e[2]), additive_leaves(e[3])
        if a is None or b is None:
            return None
        return a + b
    return [e]


def eval_expr(e, leaf):
    """value of a small integer / boolean expression tree; `leaf(x)` gives the value of anything that is not a constant or
    an operator (return None for unknown).  No h2 code runs: the tree is the MIR expression of a local."""
    x = strip(e)
    if x[0] == 'const':
        return x[1] if isinstance(x[1], (int, bool)) else leaf(x)
    if x[0] == 'cast':
        return eval_expr(x[2] if len(x) > 2 and isinstance(x[2], tuple) else x[1], leaf)
    if x[0] == 'un' and x[1] == 'Not':
        v = eval_expr(x[2], leaf)
        return None if v is None else (not v)
    if x[0] == 'bin':
        a, b = eval_expr(x[2], leaf), eval_expr(x[3], leaf)
        if a is None or b is None:
            return None
        op = x[1]
        try:
            return {'BitAnd': lambda: a & b, 'BitOr': lambda: a | b, 'BitXor': lambda: a ^ b, 'Eq': lambda: a == b, 'Ne': lambda: a != b,
                    'Lt': lambda: a < b, 'Le': lambda: a <= b, 'Gt': lambda: a > b, 'Ge': lambda: a >= b,
                    'Add': lambda: a + b, 'Sub': lambda: a - b, 'Shr': lambda: a >> b, 'Shl': lambda: a << b}[op]()
        except Exception:
            return None
    return leaf(x)


def signed_leaves(e, sign=1):
    """[(sign, leaf)] of a tree of (checked) additions and subtractions; None when another operator is involved.
    With it `cap - len >= min`, `cap >= min + len` and `let free = cap - len; free >= min` are the same sum."""
    e = strip(e)
    while e[0] == 'cast':
        e = strip(e[2] if len(e) > 2 and isinstance(e[2], tuple) else e[1])
    if e[0] == 'field' and e[3] == '0' and strip(e[1])[0] == 'bin' and strip(e[1])[1] in ('AddWithOverflow', 'SubWithOverflow'):
        e = strip(e[1])
    if e[0] == 'bin':
        if e[1] in ('Add', 'AddWithOverflow', 'AddUnchecked'):
            a, b = signed_leaves(e[2], sign), signed_leaves(e[3], sign)
        elif e[1] in ('Sub', 'SubWithOverflow', 'SubUnchecked'):
            a, b = signed_leaves(e[2], sign), signed_leaves(e[3], -sign)
        else:
            return None
        if a is None or b is None:
            return None
        return a + b
    return [(sign, e)]


def order_constraint(facts, fn, site, const, value=None):
    """orderings of (value vs `const`) that hold on every path to block `site`: intersection over the
    comparison edges against that constant which dominate the site -- `match v { K => .., _ => .. }` counts as the
    comparison `v == K`.  `value`: optional predicate on the compared expression.  Returns (frozenset, n_edges)."""
    allowed = set(_ORD_ALL)
    n = 0
    for bi, sw in all_switches(facts, fn).items():
        if sw is not None and sw.kind == 'int' and const in sw.labels.values() and (value is None or value(sw.subject)):
            for s2, lab in sw.labels.items():
                if fn.dominated_by_edges(site, [(bi, s2)]):
                    if lab == const:
                        allowed &= {'eq'}
                        n += 1
                    elif lab == 'else' and all(isinstance(x, int) for x in sw.labels.values() if x != 'else'):
                        allowed &= {'lt', 'gt'}
                        n += 1
            continue
        c = cmp_of(sw)
        if c is None:
            continue
        if value is not None and not (value(c[1]) or value(c[2])):
            continue
        op, a, b = c
        sa, sb = strip(a), strip(b)
        if sb[0] == 'const' and sb[1] == const and sa[0] != 'const':
            flip = False
        elif sa[0] == 'const' and sa[1] == const and sb[0] != 'const':
            flip = True
        else:
            continue
        lhs, rhs, regs = cmp_regions(sw, flip)
        for s2, o in regs.items():
            if fn.dominated_by_edges(site, [(bi, s2)]):
                allowed &= o
                n += 1
    return frozenset(allowed), n


def predicate_atoms(sw, fn=None, rich=False, only=None):
    """what a switch tests, as coarse atoms: 'call:<fn>' for the outermost h2 call, 'field:<name>' for a field read;
    std adaptor calls (Option::take, as_ref, Deref ...) are looked through.  rich=True also names argument positions,
    integer constants, captured variables and (by type) multiply-assigned locals, so `n != 0 && n < 256` has atoms"""
    out = set()
    st = {'up': False}

    def leaf(x):
        if rich and x[0] == 'upvar':
            st['up'] = True
            leaf(x[1])
            st['up'] = False
            return
        x = strip(x)
        up = st['up']
        if rich:
            if x[0] == 'arg':
                out.add(('upvar:arg%d' if up else 'arg:%d') % x[1])
                return
            if x[0] == 'const' and isinstance(x[1], int) and not isinstance(x[1], bool):
                out.add('const:%d' % x[1])
                return
            if x[0] == 'var':
                if up or fn is None:
                    out.add('upvar:var' if up else 'var')
                else:
                    out.add('var:' + short(fn.local_ty(x[1])).split('<')[0])
                return
            if x[0] == 'upvar':
                st['up'] = True
                leaf(x[1])
                st['up'] = False
                return
        if x[0] == 'call':
            if x[1].startswith(('proto::', 'frame::', 'codec::', 'hpack::', 'client::', 'server::', 'share::')):
                out.add('call:' + x[1].rsplit('::', 1)[-1])
            elif x[2]:
                leaf(x[2][0])
        elif x[0] == 'field':
            if str(x[3]).isdigit() and str(x[2]).startswith(('std::', 'core::')):
                # the payload of a std enum (`Continue(v)` after `?`, `Some(v)`, `Ok(v)`, `Ready(v)`): name what was matched
                n0 = len(out)
                leaf(x[1])
                if len(out) == n0:
                    out.add('field:' + x[3])
            else:
                out.add('field:' + x[3])
        elif x[0] in ('bin',):
            leaf(x[2])
            leaf(x[3])
        elif x[0] in ('un', 'cast', 'discr', 'variant'):
            leaf(x[1] if x[0] != 'un' else x[2])
        elif x[0] == 'index':
            leaf(x[1])  # `s[i]`: an element of s
    if only is not None:
        leaf(only)
        return out
    c = cmp_of(sw)
    if c is not None:
        leaf(c[1])
        leaf(c[2])
    else:
        leaf(sw.subject)
    return out


_REGION_NAME = {frozenset(['eq']): 'eq', frozenset(['lt', 'gt']): 'ne', frozenset(['lt']): 'lt', frozenset(['gt']): 'gt',
                frozenset(['lt', 'eq']): 'le', frozenset(['gt', 'eq']): 'ge'}


_UNSIGNED = ('u8', 'u16', 'u32', 'u64', 'u128', 'usize')


def is_unsigned_zero(e):
    """the constant 0 of an unsigned integer type (then `x > 0` and `x != 0`, `x <= 0` and `x == 0` are the same test)"""
    x = strip(e)
    return x[0] == 'const' and x[1] == 0 and len(x) > 3 and x[3] in _UNSIGNED


def earlier_operand(fn, a, b):
    """for two operands with the same roots (`prev = self.capacity(); ..; if prev < self.capacity()`): -1 when a's value is
    computed by a call in a block that dominates the block of b's call (a is the *earlier* value), 1 for the converse, 0
    when that cannot be told"""
    def call_block(e):
        x = strip(e)
        hops = 0
        while x[0] in ('cast', 'un') and hops < 4:
            x = strip(x[2] if x[0] == 'un' else x[2] if len(x) > 2 and isinstance(x[2], tuple) else x[1])
            hops += 1
        if x[0] == 'call' and len(x) > 3 and isinstance(x[3], int):
            return x[3]
        return None
    if fn is None:
        return 0
    ba, bb = call_block(a), call_block(b)
    if ba is None or bb is None or ba == bb:
        return 0
    if fn.dominated_by_blocks(bb, [ba]):
        return -1
    if fn.dominated_by_blocks(ba, [bb]):
        return 1
    return 0


def edge_polarity(sw, succs, fn=None):
    """the outcome of the test of `sw` on the edges `succs`, in a form that does not depend on how the test is written:
    'T'/'F' for a boolean, eq/ne/lt/le/gt/ge for a comparison (operands ordered canonically, so `a < b` and `b > a`
    agree), the variant names for a match, the value for an integer switch; '' when the edges do not share one outcome"""
    labs = [sw.labels.get(s) for s in succs]
    if not labs:
        return ''
    if sw.kind in ('bool', 'cmp'):
        if any(l is None for l in labs) or len(set(labs)) != 1:
            return ''
        v = labs[0]
        c = cmp_of(sw)
        if c is None:
            return 'T' if v else 'F'
        reg = set(_ORD[c[0]]) if v else set(_ORD_ALL - _ORD[c[0]])
        # unsigned x against 0: x < 0 cannot happen, so `x > 0` is `x != 0` and `x <= 0` is `x == 0`
        if is_unsigned_zero(c[2]):
            reg.discard('lt')
            if reg == {'gt'}:
                reg = {'lt', 'gt'}
        elif is_unsigned_zero(c[1]):
            reg.discard('gt')
            if reg == {'lt'}:
                reg = {'lt', 'gt'}
        a = '+'.join(sorted(predicate_atoms(sw, fn, True, only=c[1])))
        b = '+'.join(sorted(predicate_atoms(sw, fn, True, only=c[2])))
        if a > b:
            reg = {_ORD_FLIP[x] for x in reg}
        elif a == b and reg not in ({'eq'}, {'lt', 'gt'}):
            # same roots on both sides: order them as "earlier value, later value" when that can be told
            o = earlier_operand(fn, c[1], c[2])
            if o == 0:
                return ''
            if o > 0:
                reg = {_ORD_FLIP[x] for x in reg}
        return _REGION_NAME.get(frozenset(reg), '')
    if sw.kind == 'variant':
        names = set()
        for l in labs:
            names |= set(l or ())
        return '/'.join(sorted(names))
    if sw.kind == 'int':
        return '/'.join(sorted(str(l) for l in set(labs)))
    return ''


def dominating_atoms(facts, fn, site):
    """atoms of the subjects of every switch one of whose edges dominates `site` (the conjunction of conditions
    under which the site executes); tracing-generated switches and drop-flag tests are skipped"""
    atoms = set()
    for bi, sw in all_switches(facts, fn).items():
        t = fn.term(bi)
        if t.get('exp') and any(k in t['exp'] for k in ('trace', 'debug', 'event', 'span')):
            continue
        if sw is None:
            continue
        doms = [s for s in sw.labels if fn.dominated_by_edges(site, [(bi, s)])]
        if not doms or len(doms) == len(sw.labels):
            continue
        atoms |= predicate_atoms(sw)
    return atoms


def expand_atoms(facts, atoms, keep, depth=2):
    """replace 'call:<helper>' atoms that are not in `keep` by the atoms the (small, bool-returning) helper itself
    tests or returns — so a condition moved into a helper function is still recognised"""
    out = set()
    for a in atoms:
        if not a.startswith('call:') or a in keep or depth <= 0:
            out.add(a)
            continue
        short_name = a[5:]
        cands = [f for n, f in facts.fns.items() if n.rsplit('::', 1)[-1] == short_name and (f.ret == 'bool' or n in facts.new_fns) and 'closure' not in n and len(f.blocks) <= 40]
        if len(cands) != 1:
            out.add(a)
            continue
        f = cands[0]
        inner = set()
        for bi, sw in all_switches(facts, f).items():
            if sw is not None:
                inner |= predicate_atoms(sw)
        for bi, si, pl, rv, ln in f.stmts():
            if pl == [0]:
                e = f.expr_of_rvalue(rv)

                class _S:
                    pass
                s = _S()
                s.subject = e
                s.kind = 'bool'
                s.labels = {}
                inner |= predicate_atoms(s)
        for bi, t in f.calls():
            if t['d'] == [0]:
                if t['fn'].startswith(('proto::', 'frame::', 'codec::', 'hpack::', 'client::', 'server::', 'share::')):
                    inner.add('call:' + t['fn'].rsplit('::', 1)[-1])
                else:
                    for x in t['a'][:1]:
                        s = type('S', (), {})()
                        s.subject = f.expr_of_op(x)
                        s.kind = 'bool'
                        s.labels = {}
                        inner |= predicate_atoms(s)
        if not inner:
            out.add(a)
        else:
            out |= expand_atoms(facts, inner, keep, depth - 1)
    return out


def postdominators(fn):
    """block -> set of blocks that post-dominate it (virtual exit = returns and diverging blocks); live blocks only"""
    cached = getattr(fn, '_expr_cache', {}).get('__pdom__')
    if cached is not None:
        return cached
    live = sorted(fn.reachable([0]))
    succ = {b: [s for s in fn.succ[b] if s in live] for b in live}
    EXIT = -1
    allb = set(live) | {EXIT}
    pd = {b: set(allb) for b in live}
    pd[EXIT] = {EXIT}
    changed = True
    order = list(reversed(live))
    while changed:
        changed = False
        for b in order:
            ss = succ[b] if succ[b] else [EXIT]
            new = set.intersection(*[pd[s] for s in ss]) | {b}
            if new != pd[b]:
                pd[b] = new
                changed = True
    fn._expr_cache['__pdom__'] = pd
    return pd


def control_switches(facts, fn, site):
    """switch blocks the execution of `site` is (transitively) control dependent on"""
    pd = postdominators(fn)
    live = set(pd) - {-1}
    deps = {}
    for a in live:
        ss = [s for s in fn.succ[a] if s in live]
        if len(ss) < 2:
            continue
        for b in live:
            if b == a and False:
                continue
            yes = [s for s in ss if b in pd[s]]
            if yes and len(yes) < len(ss) and b not in (pd[a] - {a}):
                deps.setdefault(b, set()).add(a)
    out = set()
    work = [site]
    seen = {site}
    while work:
        b = work.pop()
        for a in deps.get(b, ()):
            if a not in out:
                out.add(a)
            if a not in seen:
                seen.add(a)
                work.append(a)
    return out


def control_atoms(facts, fn, site):
    """atoms of every test the execution of `site` depends on — conjunctions and disjunctions alike (control dependence),
    tracing / drop-flag switches excluded (both their arms reconverge, so nothing is control dependent on them)"""
    sws = all_switches(facts, fn)
    atoms = set()
    for a in control_switches(facts, fn, site):
        sw = sws.get(a)
        if sw is None:
            continue
        t = fn.term(a)
        if t.get('exp') and any(k in t['exp'] for k in ('trace', 'debug', 'event', 'span', 'warn', 'error!', 'info!')):
            continue
        atoms |= predicate_atoms(sw)
    return atoms


def control_terms(facts, fn, site, polar=True):
    """like control_atoms, but one term per controlling switch ('a&b' = the atoms that switch tests), as a sorted
    multiset — so dropping one conjunct is visible even when the same field is also tested elsewhere.  polar=True appends
    '@<outcome>': the outcome of the test (edge_polarity) on the edges after which the site is inevitable, or else on the
    edges from which it is still reachable — so an inverted test (== for !=, a dropped `!`) changes the term"""
    sws = all_switches(facts, fn)
    terms = []
    pd = postdominators(fn) if polar else None
    for a in control_switches(facts, fn, site):
        sw = sws.get(a)
        if sw is None:
            continue
        t = fn.term(a)
        if t.get('exp') and any(k in t['exp'] for k in ('trace', 'debug', 'event', 'span', 'warn', 'error!', 'info!')):
            continue
        # the test of a `for` loop (`iter.next()` of a std iterator) says how the elements are visited, not what is decided
        # about them: `for &d in src` and `for i in 0..src.len() { let d = src[i]; .. }` differ only there
        sj = strip(sw.subject)
        if sw.kind == 'variant' and sj[0] == 'call' and sj[1].endswith('::next') and ('Iterator' in sj[1] or 'iter::' in sj[1]) and not sj[1].lstrip('<').startswith(('proto::', 'frame::', 'codec::', 'hpack::')):
            continue
        at = predicate_atoms(sw, fn, rich=True)
        # `s.is_empty()` of a std collection is `s.len() == 0`
        empty_test = sw.kind == 'bool' and sj[0] == 'call' and sj[1].endswith('::is_empty') and bool(sj[2]) and \
            not sj[1].lstrip('<').startswith(('proto::', 'frame::', 'codec::', 'hpack::', 'client::', 'server::', 'share::'))
        if empty_test:
            at = set(predicate_atoms(sw, fn, True, only=sj[2][0])) | {'const:0'}
        # `match x { 3 => .., 4 => .., _ => .. }` is the chain `x == 3`, `x == 4`: an integer switch is presented as
        # equality tests against its values (value arm: `x&const:v@eq`; default arm: `x&const:v@ne` for every value)
        int_vals = None
        if sw.kind == 'int':
            vals = [l for l in sw.labels.values() if l != 'else']
            if vals and all(isinstance(v, int) for v in vals) and 'else' in sw.labels.values():
                int_vals = sorted(set(vals))
        if not at and int_vals is None:
            continue
        base = set(at)
        pol = ''
        weak = False
        edges = []
        if polar:
            ss = [s for s in sw.labels if s in pd]
            # strong outcome: the site can only be reached after this outcome; weak ('~'): the site can be reached after
            # either outcome (a join point, a disjunct) but is inevitable only after this one
            reach = [s for s in ss if site in fn.reachable([s], cut_blocks=[a])]
            if reach and len(reach) < len(ss):
                edges = reach
            else:
                inev = [s for s in ss if site in pd[s]]
                if inev and len(inev) < len(ss):
                    edges = inev
                    weak = True
        if int_vals is not None and edges:
            labs = set(sw.labels.get(s) for s in edges)
            pre = '~' if weak else ''
            if len(labs) == 1 and next(iter(labs)) in int_vals:
                terms.append('&'.join(sorted(base | {'const:%d' % next(iter(labs))})) + '@' + pre + 'eq')
                continue
            if labs == {'else'}:
                for v in int_vals:
                    terms.append('&'.join(sorted(base | {'const:%d' % v})) + '@' + pre + 'ne')
                continue
        if not base:
            continue
        term = '&'.join(sorted(base))
        if edges:
            pol = edge_polarity(sw, edges, fn)
            if empty_test and pol in ('T', 'F'):
                pol = 'eq' if pol == 'T' else 'ne'
            if pol and weak:
                pol = '~' + pol
        if pol:
            term += '@' + pol
        terms.append(term)
    return sorted(terms)
