"""table rules: Huffman code tables vs RFC 7541 Appendix B, static table vs Appendix A."""
import json
import os
import struct

from . import core

REF = os.path.join(os.path.dirname(os.path.dirname(os.path.abspath(__file__))), 'ref')


def load_ref(name):
    with open(os.path.join(REF, name)) as fh:
        return json.load(fh)


def huffman_codes():
    d = load_ref('rfc7541_huffman.json')
    codes = {c['sym']: (c['bits'], c['code']) for c in d['codes']}
    assert len(codes) == 257
    return codes


def check_huffman_reference(codes):
    """sanity of the reference itself: prefix-free and complete (Kraft sum = 1)"""
    from fractions import Fraction
    k = sum(Fraction(1, 1 << b) for b, _ in codes.values())
    strs = sorted(format(c, '0%db' % b) for b, c in codes.values())
    for a, b in zip(strs, strs[1:]):
        if b.startswith(a):
            return False
    return k == 1


def huffman_decode_rule(r, facts):
    """C11.R1: DECODE_TABLE is exactly the 8-bit-stride trie of the RFC code"""
    codes = huffman_codes()
    r.check(check_huffman_reference(codes), 'ref|prefix-free-complete', 'ref/rfc7541_huffman.json', 'reference code is prefix-free and complete')
    c = facts.consts.get('hpack::huffman::table::DECODE_TABLE')
    if not c or not c.get('bytes'):
        r.bad('anchor|DECODE_TABLE', '', 'hpack::huffman::table::DECODE_TABLE not found / not evaluable: fail closed')
        return
    raw = bytes.fromhex(c['bytes'])
    tab = struct.unpack('<%dH' % (len(raw) // 2), raw)
    BRANCH = facts.const_val('hpack::huffman::BRANCH')
    MASK = facts.const_val('hpack::huffman::TABLE_INDEX_MASK')
    WIDTH = facts.const_val('hpack::huffman::TABLE_WIDTH')
    r.check(BRANCH == 0x8000 and MASK == 0x7f00 and WIDTH == 256, 'consts', 'src/hpack/huffman/mod.rs',
            'BRANCH=%s TABLE_INDEX_MASK=%s TABLE_WIDTH=%s (entry layout: bit15 branch, bits 8..14 next table / bits used, low byte symbol)' % (BRANCH, MASK, WIDTH))
    if not (BRANCH and MASK and WIDTH):
        return
    ntab = len(tab) // WIDTH
    # code words as bit strings
    words = {format(code, '0%db' % bits): sym for sym, (bits, code) in codes.items()}
    prefixes = set()
    for w in words:
        for i in range(1, len(w)):
            prefixes.add(w[:i])
    mapping = {0: ''}
    rev = {'': 0}
    work = [0]
    done = set()
    nob = 0
    nbad = 0
    while work:
        t = work.pop()
        if t in done:
            continue
        done.add(t)
        p = mapping[t]
        for b in range(256):
            bits = format(b, '08b')
            entry = tab[t * WIDTH + b]
            # expected
            exp = None
            for n in range(1, 9):
                w = p + bits[:n]
                if w in words:
                    exp = ('leaf', words[w], n)
                    break
            if exp is None:
                exp = ('branch', p + bits)
                if (p + bits) not in prefixes:
                    exp = ('invalid',)
            if exp[0] == 'leaf' and exp[1] == 256:
                exp = ('invalid',)  # EOS inside the string is a decoding error
            nob += 1
            ok = True
            got = ''
            if entry & BRANCH == 0:
                got = 'leaf sym=%d bits=%d' % (entry & 0xff, entry >> 8)
                ok = exp[0] == 'leaf' and (entry & 0xff) == exp[1] and (entry >> 8) == exp[2]
            else:
                nt = (entry & MASK) >> 8
                got = 'branch->%d' % nt
                if exp[0] == 'invalid':
                    ok = nt == 0
                elif exp[0] == 'branch':
                    if nt == 0 or nt >= ntab:
                        ok = False
                    elif nt in mapping:
                        ok = mapping[nt] == exp[1]
                    elif exp[1] in rev:
                        ok = rev[exp[1]] == nt
                    else:
                        mapping[nt] = exp[1]
                        rev[exp[1]] = nt
                        work.append(nt)
                else:
                    ok = False
            if not ok:
                nbad += 1
                if nbad <= 8:
                    r.bad('entry|t%d|b%d' % (t, b), 'src/hpack/huffman/table.rs', 'DECODE_TABLE[%d*256+%d] = 0x%04x (%s) but RFC 7541 App. B prescribes %s for prefix "%s"+%s' % (t, b, entry, got, exp, p, bits))
    r.stat('table_entries_checked', nob)
    r.stat('entries_wrong', nbad)
    if nbad == 0:
        r.ok('entries|all', 'src/hpack/huffman/table.rs', '%d entries of %d sub-tables equal the RFC trie' % (nob, len(done)))
    # every sub-table reachable and the count equals the number of 8k-bit internal prefixes
    internal = set(p for p in prefixes if len(p) % 8 == 0)
    r.check(len(done) == ntab and len(internal) + 1 == ntab, 'tables|count', 'src/hpack/huffman/table.rs',
            '%d sub-tables reachable of %d; RFC trie has %d byte-aligned internal nodes (+ root)' % (len(done), ntab, len(internal)))
    return nob


def huffman_encode_rule(r, facts):
    """C10.R5: ENCODE_TABLE = RFC 7541 Appendix B"""
    codes = huffman_codes()
    c = facts.consts.get('hpack::huffman::table::ENCODE_TABLE')
    if not c or not c.get('bytes'):
        r.bad('anchor|ENCODE_TABLE', '', 'hpack::huffman::table::ENCODE_TABLE not found / not evaluable: fail closed')
        return
    raw = bytes.fromhex(c['bytes'])
    n = len(raw) // 16
    r.check(n == 257, 'rows', 'src/hpack/huffman/table.rs', 'ENCODE_TABLE has %d rows' % n)
    bad = 0
    for i in range(min(n, 257)):
        nbits, code = struct.unpack_from('<QQ', raw, i * 16)
        eb, ec = codes[i]
        if (nbits, code) != (eb, ec):
            bad += 1
            if bad <= 8:
                r.bad('row|%d' % i, 'src/hpack/huffman/table.rs', 'ENCODE_TABLE[%d] = (%d, 0x%x) but RFC 7541 App. B has (%d, 0x%x)' % (i, nbits, code, eb, ec))
    if bad == 0:
        r.ok('rows|all', 'src/hpack/huffman/table.rs', '257 rows equal RFC 7541 Appendix B')
    r.stat('rows_checked', min(n, 257))


# --------------------------------------------------------------------------- HPACK static table

PSEUDO = {'Authority': ':authority', 'Method': ':method', 'Scheme': ':scheme', 'Path': ':path', 'Protocol': ':protocol', 'Status': ':status'}


def static_ref():
    d = load_ref('rfc7541_static.json')
    t = {e['index']: (e['name'], e['value']) for e in d['entries']}
    assert len(t) == 61 and sorted(t) == list(range(1, 62))
    return t


def const_header_name(text):
    # "http::header::ACCEPT_CHARSET" -> accept-charset
    if text and text.startswith('http::header::'):
        return text.split('::')[-1].lower().replace('_', '-')
    return None


def extract_get_static(facts, r):
    """index -> (name, value) from hpack::decoder::get_static"""
    fn = r.fn('hpack::decoder::get_static')
    if not fn:
        return None
    t = fn.term(0)
    if t['k'] != 'sw':
        r.bad('shape|get_static', fn.file, 'get_static does not start with a switch on its index argument: cannot extract (fail closed)')
        return None
    out = {}
    for v, b in t['ts']:
        # follow the straight line to the assignment of the return place
        cur = b
        entry = None
        for _ in range(8):
            for s in fn.blocks[cur]['s']:
                if s[0] == [0] and s[1][0] == 'aggr':
                    entry = fn.expr_of_rvalue(s[1])
            if entry is not None or len(fn.succ[cur]) != 1:
                break
            cur = fn.succ[cur][0]
        if entry is None:
            out[v] = None
            continue
        variant = entry[2].split('::')[-1]
        name = None
        value = None
        ops = entry[3]
        if variant == 'Field':
            for o in ops:
                o = core.strip(o)
                if o[0] == 'const' and const_header_name(o[2]):
                    name = const_header_name(o[2])
                if o[0] == 'call' and o[1].endswith('HeaderValue::from_static'):
                    value = core.const_str(o[2][0][2]) if o[2][0][0] == 'const' else None
        elif variant in PSEUDO:
            name = PSEUDO[variant]
            o = core.strip(ops[0])
            if o[0] == 'call' and o[1].endswith('BytesStr::from_static'):
                value = core.const_str(o[2][0][2]) if o[2][0][0] == 'const' else None
            elif o[0] == 'const':
                if variant == 'Status':
                    value = str(o[1]) if o[1] is not None else None
                elif variant == 'Method':
                    value = o[2].split('::')[-1]
        out[v] = (name, value)
    # the default arm must diverge (index 0 / > 61 are rejected by the caller: C11.R3)
    return out


def extract_index_static(facts, r):
    """list of (name, value-or-None, idx, exact) from hpack::table::index_static"""
    fn = r.fn('hpack::table::index_static')
    if not fn:
        return None
    rows = []
    paths = core.decision_paths(facts, fn)
    for conds, blocks in paths:
        name = None
        value = None
        for sw, label, succ in conds:
            if sw.kind == 'variant' and sw.adt == 'hpack::header::Header' and label and len(label) == 1:
                v = list(label)[0]
                name = PSEUDO.get(v, name if v != 'Field' else None)
                if v == 'Field':
                    name = ('field',)
            elif sw.kind == 'variant' and sw.adt == 'http::header::name::StandardHeader':
                if label and len(label) == 1:
                    name = core.camel_to_kebab(list(label)[0])
                else:
                    name = ('other-standard',)
            elif sw.kind == 'variant' and sw.adt == 'http::header::name::Repr':
                if label != frozenset(['Standard']):
                    name = ('custom',)
            elif sw.kind == 'variant' and sw.adt == 'http::method::Inner':
                if label and len(label) == 1:
                    value = list(label)[0].upper()
            elif sw.kind == 'bool' and sw.subject[0] == 'call' and sw.subject[1].endswith('::eq'):
                args = [core.strip(a) for a in sw.subject[2]]
                lit = [core.const_str(a[2]) for a in args if a[0] == 'const' and core.const_str(a[2]) is not None]
                if lit and label is True:
                    value = lit[0]
            elif sw.kind == 'int':
                if label != 'else':
                    value = str(label)
        # result
        res = None
        for b in blocks:
            for s in fn.blocks[b]['s']:
                if s[0] == [0] and s[1][0] == 'aggr':
                    e = fn.expr_of_rvalue(s[1])
                    if e[2].endswith('::None'):
                        res = 'None'
                    elif e[2].endswith('::Some'):
                        tup = core.strip(e[3][0])
                        if tup[0] == 'aggr' and len(tup[3]) == 2 and tup[3][0][0] == 'const' and tup[3][1][0] == 'const':
                            res = (tup[3][0][1], bool(tup[3][1][1]))
        rows.append((name, value, res))
    return rows


def static_table_rules(r, facts, which=('get', 'index')):
    ref = static_ref()
    if 'get' in which:
        g = extract_get_static(facts, r)
        if g is not None:
            r.check(sorted(g) == list(range(1, 62)), 'get_static|domain', 'src/hpack/decoder.rs', 'get_static has arms for indices %d..%d (%d arms)' % (min(g), max(g), len(g)))
            for i in range(1, 62):
                got = g.get(i)
                r.check(got == ref[i], 'get_static|%d' % i, 'src/hpack/decoder.rs', 'get_static(%d) = %s, RFC 7541 App. A: %s' % (i, got, ref[i]))
    if 'index' in which:
        rows = extract_index_static(facts, r)
        if rows is not None:
            n = 0
            for (name, value, res) in rows:
                if res == 'None' or res is None:
                    if res is None:
                        r.bad('index_static|unresolved|%s' % (name,), 'src/hpack/table.rs', 'a path of index_static returns a value the extractor cannot read (fail closed)')
                    continue
                n += 1
                idx, exact = res
                key = 'index_static|%s|%s' % (name, value if exact else '*')
                if idx not in ref or not isinstance(name, str):
                    r.bad(key, 'src/hpack/table.rs', 'index_static returns index %s for %s' % (idx, name))
                    continue
                rn, rv = ref[idx]
                if exact:
                    ok = rn == name and rv == value
                    r.check(ok, key, 'src/hpack/table.rs', 'index_static(%s: %s) = (%d, exact); RFC entry %d = (%s, %s)' % (name, value, idx, idx, rn, rv))
                else:
                    r.check(rn == name, key, 'src/hpack/table.rs', 'index_static(%s: *) = (%d, name only); RFC entry %d = (%s, ..)' % (name, idx, idx, rn))
            r.floor(n, 60, 'indexed paths of index_static')


# ------------------------------------------------------------------------------------------------ frame flag / stream id predicates

FLAG_PREDICATES = {
    # RFC 9113 section 6.1 (DATA), 6.2 (HEADERS), 6.5 (SETTINGS), 6.6 (PUSH_PROMISE): flag bit per frame type
    'frame::data::DataFlags': {'mask': 0x1 | 0x8, 'is': {'is_end_stream': 0x1, 'is_padded': 0x8}, 'set': {'set_end_stream': 0x1, 'set_padded': 0x8}, 'unset': {'unset_end_stream': 0x1}},
    'frame::headers::HeadersFlag': {'mask': 0x1 | 0x4 | 0x8 | 0x20, 'is': {'is_end_stream': 0x1, 'is_end_headers': 0x4, 'is_padded': 0x8, 'is_priority': 0x20},
                                    'set': {'set_end_stream': 0x1, 'set_end_headers': 0x4}, 'unset': {}},
    'frame::headers::PushPromiseFlag': {'mask': 0x4 | 0x8, 'is': {'is_end_headers': 0x4, 'is_padded': 0x8}, 'set': {'set_end_headers': 0x4}, 'unset': {}},
    'frame::settings::SettingsFlags': {'mask': 0x1, 'is': {'is_ack': 0x1}, 'set': {}, 'unset': {}},
}


def flag_predicates(r, F):
    """every flag predicate / setter / loader of the four flag types, evaluated on all 256 flag octets by abstract
    interpretation of its MIR, equals the RFC 9113 bit: is_X(b) = (b & X == X), set_X(b) = b | X, load(b) keeps every defined bit and invents none"""
    from . import absint
    from .absint import I, TOP
    it = absint.Interp(F)
    n = 0
    for adt, spec in sorted(FLAG_PREDICATES.items()):
        def obj(b):
            return ('ref', ('s', adt, (('0', I(b)),)))

        def final(fin):
            v = dict(fin).get(1)
            try:
                return dict(v[1][2])['0'][1]
            except Exception:
                return None
        for name, bit in sorted(spec['is'].items()):
            f = F.fn(adt + '::' + name)
            if not f:
                continue
            bad = [b for b in range(256) if set(ret for ret, fin in it.run(f, {1: obj(b)})) != {('b', (b & bit) == bit)}]
            n += 1
            r.check(not bad, 'flag|%s::%s' % (adt.split('::')[-1], name), f.file, '%s::%s(b) = (b & 0x%x == 0x%x) on all 256 octets%s' % (adt.split('::')[-1], name, bit, bit, '' if not bad else ' -- differs at 0x%02x' % bad[0]))
        for kind in ('set', 'unset'):
            for name, bit in sorted(spec[kind].items()):
                f = F.fn(adt + '::' + name)
                if not f:
                    continue
                want = (lambda b: b | bit) if kind == 'set' else (lambda b: b & ~bit & 0xff)
                bad = [b for b in range(256) if set(final(fin) for ret, fin in it.run(f, {1: obj(b)})) != {want(b)}]
                n += 1
                r.check(not bad, 'flag|%s::%s' % (adt.split('::')[-1], name), f.file, '%s::%s %s bit 0x%x and nothing else, on all 256 octets%s' % (adt.split('::')[-1], name, 'sets' if kind == 'set' else 'clears', bit, '' if not bad else ' -- differs at 0x%02x' % bad[0]))
        f = F.fn(adt + '::load')
        if f:
            def loaded(ret):
                try:
                    return dict(ret[2])['0'][1]
                except Exception:
                    return None
            def fine(b):
                got = set(loaded(ret) for ret, fin in it.run(f, {1: I(b)}))
                if len(got) != 1 or None in got:
                    return False
                g = next(iter(got))
                return (g & spec['mask']) == (b & spec['mask']) and (g & ~b) == 0
            bad = [b for b in range(256) if not fine(b)]
            n += 1
            r.check(not bad, 'flag|%s::load' % adt.split('::')[-1], f.file, '%s::load keeps every defined bit (0x%x) and invents none%s' % (adt.split('::')[-1], spec['mask'], '' if not bad else ' -- differs at 0x%02x' % bad[0]))
    r.floor(n, 16, 'flag predicates / setters / loaders evaluated')


def stream_id_predicates(r, F):
    """StreamId parity predicates (RFC 9113 section 5.1.1): client-initiated = odd, server-initiated = even and non-zero, zero = 0"""
    from . import absint
    from .absint import I
    it = absint.Interp(F)
    adt = 'frame::stream_id::StreamId'
    ref = {'is_client_initiated': lambda i: i % 2 == 1, 'is_server_initiated': lambda i: i != 0 and i % 2 == 0, 'is_zero': lambda i: i == 0}
    vals = [0, 1, 2, 3, 4, 5, 2 ** 31 - 2, 2 ** 31 - 1]
    n = 0
    for name, fn in sorted(ref.items()):
        f = r.fn(adt + '::' + name)
        if not f:
            continue
        bad = [v for v in vals if set(ret for ret, fin in it.run(f, {1: ('ref', ('s', adt, (('0', I(v)),)))})) != {('b', fn(v))}]
        n += 1
        r.check(not bad, 'stream-id|%s' % name, f.file, 'StreamId::%s agrees with RFC 9113 5.1.1 on %s%s' % (name, vals, '' if not bad else ' -- differs at %d' % bad[0]))
    r.floor(n, 3, 'stream id predicates evaluated')
