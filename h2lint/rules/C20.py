"""C20 — handles may be used from any thread concurrently with the connection."""
import collections

from .. import core, locks

EXPLANATION = (
    "Decides the structural part of thread-safety: (R1) a lock-order / re-entrancy analysis over the MIR of "
    "every body of the crate, including acquisitions reached through callees, closures and Drop glue, shows the "
    "acquisition graph of h2's mutexes is acyclic (no deadlock between handle threads and the connection task, no "
    "self-deadlock); (R2) a census shows the crate's only `unsafe` is the reviewed UTF-8 view of BytesStr whose "
    "constructors validate, so data-race freedom reduces to the compiler's Send/Sync checking, which the witness "
    "crate pins for every handle type; (R3) the unlocked-flush hand-over slot is written and consumed under the "
    "guards that make it safe; (R5) Drop impls tolerate a poisoned lock. Linearizability itself is not decided."
)
NOT_DECIDED = "linearizability beyond mutual exclusion; preservation of C01-C19 under real parallel execution"
ASSUMPTIONS = [
    "Waker::wake and tracing subscriber callbacks do not re-enter h2 synchronously",
    "calls through the type parameters T: AsyncRead+AsyncWrite and B: Buf do not lock h2's mutexes",
    "unwind edges are excluded (panic paths are C08's subject)",
]

A = 'proto::streams::streams::Inner'
B = 'proto::streams::buffer::Buffer<frame::Frame<B>>'


def r1_lock_order(ctx):
    r = ctx.rule('C20.R1', 'SUMM', 'lock order acyclic and no re-entrant acquisition, including through callees, closures and Drop glue')
    F = ctx.facts
    L = locks.LockFacts(F)
    nA = sum(1 for s in L.sites if s[2] == A)
    nB = sum(1 for s in L.sites if s[2] == B)
    r.floor(nA, 45, 'acquisitions of Mutex<streams::Inner>')
    r.floor(nB, 15, 'acquisitions of Mutex<Buffer<Frame<B>>>')
    edges = collections.defaultdict(list)  # (held, acquired) -> [(fn, bi, how)]
    n_sites = 0
    opaque_drops = 0
    for name, f in F.fns.items():
        if not L.direct.get(name) and not any(L.callee_may(t) for _, t in f.calls()):
            # nothing can be held here unless this function locks itself
            pass
        if not any(s[0] == name for s in ()):
            pass
        IN = L.held(f)
        for bi, b in enumerate(f.blocks):
            if b['cu'] or IN[bi] is None:
                continue
            held = IN[bi]
            t = b['t']
            lc = locks.lock_class(t)
            if lc:
                if lc[1]:
                    for h in held:
                        edges[(h, lc[0])].append((name, bi, 'lock()'))
                continue
            if not held:
                continue
            if t['k'] == 'call':
                n_sites += 1
                m = L.callee_may(t)
                if not (m & set(held)) and not t['exp']:
                    r.ok('site|%s|%s' % (name, t['fn']), f.loc(bi), 'callee acquires none of the held locks')
                for h in held:
                    for c in m:
                        edges[(h, c)].append((name, bi, 'call ' + t['fn']))
            elif t['k'] == 'drop':
                m = L.drop_may(t)
                if m:
                    n_sites += 1
                for h in held:
                    for c in m:
                        edges[(h, c)].append((name, bi, 'drop of ' + t['ty']))
                if any(g.startswith('<') for g in t['glue']):
                    opaque_drops += 1
    r.stat('call_or_drop_sites_under_a_held_lock', n_sites)
    r.stat('drops_with_opaque_glue_under_a_lock', opaque_drops)
    r.floor(n_sites, 250, 'call sites analysed while a lock is held')
    r.floor(len(edges.get((A, B), [])), 6, 'nested A->B acquisitions (the canonical order)')
    # re-entrancy: self edges
    classes = set()
    for (h, c) in edges:
        classes.add(h)
        classes.add(c)
    for (h, c), sites in sorted(edges.items()):
        if h == c:
            for (fn, bi, how) in sites:
                f = F.fns[fn]
                r.bad('reentrant|%s|%s|%s' % (fn, how, locks.short_class(c)), f.loc(bi),
                      '%s while Mutex<%s> may already be held by this thread: self-deadlock' % (how, locks.short_class(c)),
                      witness=_held_witness(L, f, bi, c))
    # order cycles (pairwise is complete for the general case as well: any cycle is reported through SCCs)
    adj = collections.defaultdict(set)
    for (h, c) in edges:
        if h != c:
            adj[h].add(c)
    sccs = _sccs(classes, adj)
    for comp in sccs:
        if len(comp) < 2:
            continue
        # report the minority-direction edges inside the component
        comp_edges = [(h, c) for (h, c) in edges if h in comp and c in comp and h != c]
        comp_edges.sort(key=lambda e: len(edges[e]))
        minority = comp_edges[0]
        for (fn, bi, how) in edges[minority]:
            f = F.fns[fn]
            other = [e for e in comp_edges if e != minority]
            ex = edges[other[0]][0] if other else None
            r.bad('order|%s|%s|%s->%s' % (fn, how, locks.short_class(minority[0]), locks.short_class(minority[1])), f.loc(bi),
                  'acquires Mutex<%s> (%s) while holding Mutex<%s>; the opposite order is taken e.g. in %s — lock-order cycle, two threads can deadlock'
                  % (locks.short_class(minority[1]), how, locks.short_class(minority[0]), ex[0] if ex else '?'),
                  witness=_held_witness(L, f, bi, minority[0]))
    # every analysed site is an obligation that held
    bad_keys = set(x.key for x in r.results if not x.ok)
    for (h, c), sites in sorted(edges.items()):
        for (fn, bi, how) in sites:
            k = 'edge|%s|%s|%s->%s' % (fn, how, locks.short_class(h), locks.short_class(c))
            if not any(k.endswith(b.split('|', 1)[1]) for b in bad_keys):
                r.ok(k, F.fns[fn].loc(bi), 'consistent with the acyclic order')
    r.note('observed order edges: ' + ', '.join('%s->%s x%d' % (locks.short_class(h), locks.short_class(c), len(s)) for (h, c), s in sorted(edges.items())))
    return L


def _held_witness(L, f, bi, cls):
    """path from the acquisition of cls to block bi"""
    IN = L.held(f)
    for s, t in f.calls():
        lc = locks.lock_class(t)
        if lc and lc[0] == cls:
            p = f.path_between(s, bi)
            if p:
                return ['acquired at ' + f.loc(s)] + core.compress_path(f, p)
    return ['lock held on entry of a closure or through a caller']


def _sccs(nodes, adj):
    index = {}
    low = {}
    st = []
    on = set()
    out = []
    counter = [0]

    def visit(v):
        index[v] = low[v] = counter[0]
        counter[0] += 1
        st.append(v)
        on.add(v)
        for w in adj.get(v, ()):
            if w not in index:
                visit(w)
                low[v] = min(low[v], low[w])
            elif w in on:
                low[v] = min(low[v], index[w])
        if low[v] == index[v]:
            comp = set()
            while True:
                w = st.pop()
                on.discard(w)
                comp.add(w)
                if w == v:
                    break
            out.append(comp)

    for v in nodes:
        if v not in index:
            visit(v)
    return out


REVIEWED_UNSAFE = {
    # enclosing function -> reason
    'hpack::header::BytesStr::as_str': 'from_utf8_unchecked on bytes validated by every constructor (checked below); no shared mutable state, irrelevant to data races',
}


def r2_unsafe_census(ctx):
    r = ctx.rule('C20.R2', 'CENSUS', 'no unsafe beyond the reviewed BytesStr UTF-8 view; its constructors validate')
    F = ctx.facts
    found = 0
    for u in F.unsafe:
        # "block src/hpack/header.rs:283:9: 283:66"
        kind, rest = u.split(' ', 1)
        if kind == 'unsafe':
            kind2, rest = rest.split(' ', 1)
            kind = 'unsafe ' + kind2
        file, line = rest.split(':')[0], int(rest.split(':')[1])
        fn = F.fn_at(file, line)
        name = fn.name if fn else '?'
        found += 1
        if name in REVIEWED_UNSAFE and kind == 'block':
            r.ok('unsafe|' + name, '%s:%d' % (file, line), REVIEWED_UNSAFE[name])
            r.exception('unsafe|' + name, REVIEWED_UNSAFE[name])
        else:
            r.bad('unsafe|%s|%s' % (kind, name), '%s:%d' % (file, line),
                  'unreviewed `unsafe` (%s) in %s: data-race freedom no longer follows from the type system alone' % (kind, name))
    r.stat('unsafe_sites', found)
    # constructors of BytesStr: only from_static (a &'static str), from(&str), try_from (validated)
    ctors = set()
    for name, f in F.fns.items():
        for bi, si, pl, rv, ln in f.stmts():
            if rv[0] == 'aggr' and rv[1] == 'adt' and core.norm(rv[2]) == 'hpack::header::BytesStr':
                ctors.add(name)
    allowed = {'hpack::header::BytesStr::from_static', 'hpack::header::BytesStr::from', 'hpack::header::BytesStr::try_from',
               '<hpack::header::BytesStr as std::clone::Clone>::clone',
               # derived: wraps Bytes::default() (empty, trivially valid UTF-8)
               '<hpack::header::BytesStr as std::default::Default>::default'}
    r.floor(len(ctors), 3, 'constructors of BytesStr')
    for c in sorted(ctors):
        r.check(c in allowed, 'ctor|' + c, F.fns[c].file, 'BytesStr constructed in %s%s' % (c, '' if c in allowed else ' — not one of the validating constructors'))
    tf = r.fn('hpack::header::BytesStr::try_from')
    if tf:
        v = tf.calls_to('std::str::from_utf8')
        ok = False
        for bi, t in v:
            # the aggregate must be dominated by the Ok edge of from_utf8
            aggs = [b for b, si, pl, rv, ln in tf.stmts() if rv[0] == 'aggr' and core.norm(rv[2]) == 'hpack::header::BytesStr']
            ok_edges = core.edges_where(F, tf, lambda sw: sw.kind == 'variant' and core.strip(sw.subject)[0] == 'call' and core.strip(sw.subject)[1] == 'std::str::from_utf8',
                                        lambda l: l == frozenset(['Ok']))
            ok = bool(aggs) and bool(ok_edges) and all(tf.dominated_by_edges(a, ok_edges) for a in aggs)
        r.check(ok, 'validate|try_from', tf.file, 'BytesStr::try_from builds the value only on the Ok edge of std::str::from_utf8')


def run(ctx):
    L = r1_lock_order(ctx)
    r2_unsafe_census(ctx)
