"""C20 — handles may be used from any thread concurrently with the connection."""
import collections

from .. import core, locks

EXPLANATION = (
    "Decides the structural part of thread-safety: (R1) a lock-order / re-entrancy analysis over the MIR of "
    "every body of the crate, including acquisitions reached through callees, closures and Drop glue, shows the "
    "acquisition graph of h2's mutexes is acyclic (no deadlock between handle threads and the connection task, no "
    "self-deadlock); (R2) a census shows the crate's only `unsafe` is the reviewed UTF-8 view of BytesStr whose "
    "constructors validate, so data-race freedom reduces to the compiler's Send/Sync checking, which the witness "
    "crate pins for every handle type; (R3) the unlocked-flush hand-over slot is written and consumed under the "
    "guards that make it safe; (R5) Drop impls tolerate a poisoned lock. Linearizability itself is not decided."
)
NOT_DECIDED = "linearizability beyond mutual exclusion; preservation of C01-C19 under real parallel execution"
ASSUMPTIONS = [
    "Waker::wake and tracing subscriber callbacks do not re-enter h2 synchronously",
    "calls through the type parameters T: AsyncRead+AsyncWrite and B: Buf do not lock h2's mutexes",
    "unwind edges are excluded (panic paths are C08's subject)",
]

A = 'proto::streams::streams::Inner'
B = 'proto::streams::buffer::Buffer<frame::Frame<B>>'


def r1_lock_order(ctx):
    r = ctx.rule('C20.R1', 'SUMM', 'lock order acyclic and no re-entrant acquisition, including through callees, closures and Drop glue')
    F = ctx.facts
    L = locks.LockFacts(F)
    nA = sum(1 for s in L.sites if s[2] == A)
    nB = sum(1 for s in L.sites if s[2] == B)
    r.floor(nA, 45, 'acquisitions of Mutex<streams::Inner>')
    r.floor(nB, 15, 'acquisitions of Mutex<Buffer<Frame<B>>>')
    edges = collections.defaultdict(list)  # (held, acquired) -> [(fn, bi, how)]
    n_sites = 0
    opaque_drops = 0
    for name, f in F.fns.items():
        if not L.direct.get(name) and not any(L.callee_may(t) for _, t in f.calls()):
            # nothing can be held here unless this function locks itself
            pass
        if not any(s[0] == name for s in ()):
            pass
        IN = L.held(f)
        for bi, b in enumerate(f.blocks):
            if b['cu'] or IN[bi] is None:
                continue
            held = IN[bi]
            t = b['t']
            lc = locks.lock_class(t)
            if lc:
                if lc[1]:
                    for h in held:
                        edges[(h, lc[0])].append((name, bi, 'lock()'))
                continue
            if not held:
                continue
            if t['k'] == 'call':
                n_sites += 1
                m = L.callee_may(t)
                if not (m & set(held)) and not t['exp']:
                    r.ok('site|%s|%s' % (name, t['fn']), f.loc(bi), 'callee acquires none of the held locks')
                for h in held:
                    for c in m:
                        edges[(h, c)].append((name, bi, 'call ' + t['fn']))
            elif t['k'] == 'drop':
                m = L.drop_may(t)
                if m:
                    n_sites += 1
                for h in held:
                    for c in m:
                        edges[(h, c)].append((name, bi, 'drop of ' + t['ty']))
                if any(g.startswith('<') for g in t['glue']):
                    opaque_drops += 1
    r.stat('call_or_drop_sites_under_a_held_lock', n_sites)
    r.stat('drops_with_opaque_glue_under_a_lock', opaque_drops)
    r.floor(n_sites, 250, 'call sites analysed while a lock is held')
    r.floor(len(edges.get((A, B), [])), 6, 'nested A->B acquisitions (the canonical order)')
    # re-entrancy: self edges
    classes = set()
    for (h, c) in edges:
        classes.add(h)
        classes.add(c)
    for (h, c), sites in sorted(edges.items()):
        if h == c:
            for (fn, bi, how) in sites:
                f = F.fns[fn]
                r.bad('reentrant|%s|%s|%s' % (fn, how, locks.short_class(c)), f.loc(bi),
                      '%s while Mutex<%s> may already be held by this thread: self-deadlock' % (how, locks.short_class(c)),
                      witness=_held_witness(L, f, bi, c))
    # order cycles (pairwise is complete for the general case as well: any cycle is reported through SCCs)
    adj = collections.defaultdict(set)
    for (h, c) in edges:
        if h != c:
            adj[h].add(c)
    sccs = _sccs(classes, adj)
    for comp in sccs:
        if len(comp) < 2:
            continue
        # report the minority-direction edges inside the component
        comp_edges = [(h, c) for (h, c) in edges if h in comp and c in comp and h != c]
        comp_edges.sort(key=lambda e: len(edges[e]))
        minority = comp_edges[0]
        for (fn, bi, how) in edges[minority]:
            f = F.fns[fn]
            other = [e for e in comp_edges if e != minority]
            ex = edges[other[0]][0] if other else None
            r.bad('order|%s|%s|%s->%s' % (fn, how, locks.short_class(minority[0]), locks.short_class(minority[1])), f.loc(bi),
                  'acquires Mutex<%s> (%s) while holding Mutex<%s>; the opposite order is taken e.g. in %s — lock-order cycle, two threads can deadlock'
                  % (locks.short_class(minority[1]), how, locks.short_class(minority[0]), ex[0] if ex else '?'),
                  witness=_held_witness(L, f, bi, minority[0]))
    # every analysed site is an obligation that held
    bad_keys = set(x.key for x in r.results if not x.ok)
    for (h, c), sites in sorted(edges.items()):
        for (fn, bi, how) in sites:
            k = 'edge|%s|%s|%s->%s' % (fn, how, locks.short_class(h), locks.short_class(c))
            if not any(k.endswith(b.split('|', 1)[1]) for b in bad_keys):
                r.ok(k, F.fns[fn].loc(bi), 'consistent with the acyclic order')
    r.note('observed order edges: ' + ', '.join('%s->%s x%d' % (locks.short_class(h), locks.short_class(c), len(s)) for (h, c), s in sorted(edges.items())))
    return L


def _held_witness(L, f, bi, cls):
    """path from the acquisition of cls to block bi"""
    IN = L.held(f)
    for s, t in f.calls():
        lc = locks.lock_class(t)
        if lc and lc[0] == cls:
            p = f.path_between(s, bi)
            if p:
                return ['acquired at ' + f.loc(s)] + core.compress_path(f, p)
    return ['lock held on entry of a closure or through a caller']


def _sccs(nodes, adj):
    index = {}
    low = {}
    st = []
    on = set()
    out = []
    counter = [0]

    def visit(v):
        index[v] = low[v] = counter[0]
        counter[0] += 1
        st.append(v)
        on.add(v)
        for w in adj.get(v, ()):
            if w not in index:
                visit(w)
                low[v] = min(low[v], low[w])
            elif w in on:
                low[v] = min(low[v], index[w])
        if low[v] == index[v]:
            comp = set()
            while True:
                w = st.pop()
                on.discard(w)
                comp.add(w)
                if w == v:
                    break
            out.append(comp)

    for v in nodes:
        if v not in index:
            visit(v)
    return out


REVIEWED_UNSAFE = {
    # enclosing function -> reason
    'hpack::header::BytesStr::as_str': 'from_utf8_unchecked on bytes validated by every constructor (checked below); no shared mutable state, irrelevant to data races',
}


def r2_unsafe_census(ctx):
    r = ctx.rule('C20.R2', 'CENSUS', 'no unsafe beyond the reviewed BytesStr UTF-8 view; its constructors validate')
    F = ctx.facts
    found = 0
    for u in F.unsafe:
        # "block src/hpack/header.rs:283:9: 283:66"
        kind, rest = u.split(' ', 1)
        if kind == 'unsafe':
            kind2, rest = rest.split(' ', 1)
            kind = 'unsafe ' + kind2
        file, line = rest.split(':')[0], int(rest.split(':')[1])
        fn = F.fn_at(file, line)
        name = fn.name if fn else '?'
        found += 1
        if name in REVIEWED_UNSAFE and kind == 'block':
            r.ok('unsafe|' + name, '%s:%d' % (file, line), REVIEWED_UNSAFE[name])
            r.exception('unsafe|' + name, REVIEWED_UNSAFE[name])
        else:
            r.bad('unsafe|%s|%s' % (kind, name), '%s:%d' % (file, line),
                  'unreviewed `unsafe` (%s) in %s: data-race freedom no longer follows from the type system alone' % (kind, name))
    r.stat('unsafe_sites', found)
    # constructors of BytesStr: only from_static (a &'static str), from(&str), try_from (validated)
    ctors = set()
    for name, f in F.fns.items():
        for bi, si, pl, rv, ln in f.stmts():
            if rv[0] == 'aggr' and rv[1] == 'adt' and core.norm(rv[2]) == 'hpack::header::BytesStr':
                ctors.add(name)
    allowed = {'hpack::header::BytesStr::from_static', 'hpack::header::BytesStr::from', 'hpack::header::BytesStr::try_from',
               '<hpack::header::BytesStr as std::clone::Clone>::clone',
               # derived: wraps Bytes::default() (empty, trivially valid UTF-8)
               '<hpack::header::BytesStr as std::default::Default>::default'}
    r.floor(len(ctors), 3, 'constructors of BytesStr')
    for c in sorted(ctors):
        r.check(c in allowed, 'ctor|' + c, F.fns[c].file, 'BytesStr constructed in %s%s' % (c, '' if c in allowed else ' — not one of the validating constructors'))
    tf = r.fn('hpack::header::BytesStr::try_from')
    if tf:
        v = tf.calls_to('std::str::from_utf8')
        ok = False
        for bi, t in v:
            # the aggregate must be dominated by the Ok edge of from_utf8
            aggs = [b for b, si, pl, rv, ln in tf.stmts() if rv[0] == 'aggr' and core.norm(rv[2]) == 'hpack::header::BytesStr']
            ok_edges = core.edges_where(F, tf, lambda sw: sw.kind == 'variant' and core.strip(sw.subject)[0] == 'call' and core.strip(sw.subject)[1] == 'std::str::from_utf8',
                                        lambda l: l == frozenset(['Ok']))
            ok = bool(aggs) and bool(ok_edges) and all(tf.dominated_by_edges(a, ok_edges) for a in aggs)
        r.check(ok, 'validate|try_from', tf.file, 'BytesStr::try_from builds the value only on the Ok edge of std::str::from_utf8')


P = 'proto::streams::'
PRIO = P + 'prioritize::Prioritize'
IFD = P + 'prioritize::InFlightData'


def r3_flush_handover(ctx, rid='C20.R3'):
    r = ctx.rule(rid, 'GUARD', 'the unlocked flush hand-over: in-flight DATA marker written at buffer time, consumed at reclaim, dropped on clear_queue; flush outside every lock')
    F = ctx.facts
    # writers of Prioritize.in_flight_data_frame by variant
    writers = {}
    for name, f in F.fns.items():
        if '::tests::' in name:
            continue
        for bi, si, pl, rv, ln in f.stmts():
            if core.write_target(f, pl) == (PRIO, 'in_flight_data_frame'):
                e = core.strip(f.expr_of_rvalue(rv))
                v = e[2].split('::')[-1] if e[0] == 'aggr' else '?'
                writers.setdefault(v, []).append((name, f, bi))
    bp = r.fn(PRIO + '::buffer_pending')
    r.check(sorted(n for n, f, b in writers.get('DataFrame', [])) == [PRIO + '::buffer_pending'], 'marker|who|DataFrame', '', 'InFlightData::DataFrame is written only in buffer_pending: %s' % sorted(n for n, f, b in writers.get('DataFrame', [])))
    r.check(sorted(set(n for n, f, b in writers.get('Drop', []))) == [PRIO + '::clear_queue'], 'marker|who|Drop', '', 'InFlightData::Drop is written only in clear_queue: %s' % sorted(set(n for n, f, b in writers.get('Drop', []))))
    if bp:
        bufs = [bi for bi, t in bp.calls_to('codec::Codec::buffer')]
        for n, f, b in writers.get('DataFrame', []):
            arm = core.edges_where(F, bp, lambda sw: sw.kind == 'variant' and sw.adt == 'frame::Frame', lambda l: l == frozenset(['Data']))
            ok = bool(bufs) and bool(arm) and bp.dominated_by_edges(b, arm) and any(x in bp.reachable(bp.succ[b]) for x in bufs)
            # nothing between the marker and Codec::buffer may return
            reach = bp.reachable(bp.succ[b], cut_blocks=bufs)
            ok = ok and not any(x in reach for x in bp.returns())
            r.check(ok, 'marker|set-with-buffer', bp.loc(b), 'the marker is set for Frame::Data only and is always followed by Codec::buffer')
        # reclaim before accepting another frame: every Codec::buffer is followed by reclaim_frame before the next pop_frame
        rec = [bi for bi, t in bp.calls_to(PRIO + '::reclaim_frame')]
        pops = [bi for bi, t in bp.calls_to(PRIO + '::pop_frame')]
        ok = bool(rec) and bool(pops)
        for b in bufs:
            reach = bp.reachable(bp.succ[b], cut_blocks=rec)
            if any(p in reach for p in pops):
                ok = False
        r.check(ok, 'reclaim|before-next-frame', bp.file, 'after Codec::buffer the frame is reclaimed before the next pop_frame (single codec slot)')
        r.check(bool(rec) and all(bp.dominated_by_blocks(p, rec) for p in pops), 'reclaim|at-entry', bp.file, 'buffer_pending reclaims a previously written frame before popping')
    cq = r.fn(PRIO + '::clear_queue')
    if cq:
        ds = [b for n, f, b in writers.get('Drop', []) if n == cq.name]
        edges = core.edges_where(F, cq, lambda sw: core.cmp_of(sw) is not None and core.cmp_of(sw)[0] == 'Eq' and any(x[0] == 'call' and x[1].endswith('store::Ptr::key') for x in core.walk(sw.subject)), lambda l: l is True)
        r.check(bool(ds) and bool(edges) and all(cq.dominated_by_edges(d, edges) for d in ds), 'marker|drop-own-key', cq.file, 'clear_queue marks the in-flight frame as dropped only when it belongs to the stream being cleared')
    ri = r.fn(PRIO + '::reclaim_frame_inner')
    if ri:
        rs = [bi for bi, t in ri.calls(lambda t: t['fn'].endswith('Resolve>::resolve') or t['fn'] == P + 'store::Store::resolve')]
        dropedges = core.edges_where(F, ri, lambda sw: sw.kind == 'variant' and sw.adt == IFD, lambda l: l == frozenset(['Drop']))
        dfedges = core.edges_where(F, ri, lambda sw: sw.kind == 'variant' and sw.adt == IFD, lambda l: l == frozenset(['DataFrame']))
        ok = bool(rs) and bool(dropedges) and bool(dfedges) and all(ri.dominated_by_edges(x, dfedges) for x in rs)
        for (a, b) in dropedges:
            if any(x in ri.reachable([b]) for x in rs):
                ok = False
        r.check(ok, 'reclaim|no-resolve-after-drop', ri.file, 'reclaim_frame_inner resolves the stream key only in the DataFrame arm (a cancelled stream may already be gone)')
        rep = ri.calls(lambda t: t['fn'] == 'std::mem::replace')
        r.check(bool(rep), 'reclaim|consumes-marker', ri.file, 'the marker is consumed (mem::replace with Nothing)')
    pc = r.fn(P + 'streams::Streams::poll_complete')
    if pc:
        L = locks.LockFacts(F)
        IN = L.held(pc)
        fl = [bi for bi, t in pc.calls(lambda t: t['fn'] in ('codec::Codec::flush', 'codec::Codec::poll_ready'))]
        r.floor(len(fl), 2, 'transport calls (poll_ready, flush) in Streams::poll_complete')
        for b in fl:
            r.check(IN[b] is not None and not IN[b], 'flush|unlocked', pc.loc(b), '%s runs with no h2 mutex held (handles on other threads can make progress during socket I/O)' % pc.term(b)['fn'].split('::')[-1])
        rw = [bi for bi, t in pc.calls_to(P + 'streams::Inner::reclaim_written_frame')]
        bpn = [bi for bi, t in pc.calls_to(P + 'streams::Inner::buffer_pending')]
        flush = [bi for bi, t in pc.calls_to('codec::Codec::flush')]
        ok = bool(rw) and bool(bpn) and bool(flush)
        for fb in flush:
            reach = pc.reachable(pc.succ[fb], cut_blocks=rw)
            if any(x in reach for x in bpn):
                ok = False
        r.check(ok, 'flush|reclaim-after-relock', pc.file, 'after the unlocked flush the written frame is reclaimed before buffer_pending runs again')


def r5_poison(ctx):
    r = ctx.rule('C20.R5', 'GUARD', 'poison tolerance in Drop paths')
    F = ctx.facts
    d = r.fn(P + 'streams::drop_stream_ref')
    if d:
        pan = [bi for bi, t in d.calls(lambda t: t['fn'].startswith('core::panicking::') and not t['exp'].startswith('debug_assert') if t['exp'] else t['fn'].startswith('core::panicking::'))]
        pk = core.guard_edges(F, d, ['std::thread::panicking'], lambda l: l is False)
        okp = bool(pk)
        for b in pan:
            if d.term(b)['exp'] and 'panic' in d.term(b)['exp']:
                if not d.dominated_by_edges(b, pk):
                    okp = False
        r.check(okp, 'drop_stream_ref|no-double-panic', d.file, 'drop_stream_ref panics on a poisoned lock only when not already panicking')
        uw = [bi for bi, t in d.calls(lambda t: t['fn'] in ('std::result::Result::unwrap', 'std::result::Result::expect'))]
        for b in uw:
            e = d.expr_of_op(d.term(b)['a'][0])
            r.check(not core.contains_call(e, 'std::sync::Mutex::lock'), 'drop_stream_ref|no-unwrap-lock', d.loc(b), 'the lock result is matched, not unwrapped')
    for fname in ('<' + P + 'streams::Streams as std::ops::Drop>::drop', '<proto::connection::Connection as std::ops::Drop>::drop', P + 'streams::DynStreams::recv_eof'):
        f = r.fn(fname)
        if not f:
            continue
        bad = []
        for bi, t in f.calls(lambda t: t['fn'] in ('std::result::Result::unwrap', 'std::result::Result::expect')):
            e = f.expr_of_op(t['a'][0])
            if core.contains_call(e, 'std::sync::Mutex::lock') or core.contains_call(e, P + 'streams::Streams::recv_eof'):
                bad.append(bi)
        r.check(not bad, 'no-unwrap|' + fname.split('::')[-3 if 'Drop' in fname else -2] + '::' + fname.split('::')[-1], f.file, '%s does not unwrap a lock result (a poisoned mutex must not abort the process during unwinding)' % fname)


def r2b_send_witness(ctx):
    from .. import run as runner
    r = ctx.rule('C20.R2b', 'TYPE', 'the public handles are Send (+Sync) for Send parameters: type-checked by rustc against the current tree')
    if ctx.facts.config != 'su-dbg':
        return      # one compilation per run is enough: auto traits do not depend on the analysed configuration
    ok, detail, secs = runner.witness_check(doc=False)
    r.stat('seconds', int(secs))
    r.check(ok, 'handles-are-send', 'witness/src/lib.rs', 'cargo check of the witness crate (21 Send / Sync obligations on client, server and share handles): %s' % detail)
    if ctx.tier == 'thorough':
        ok2, detail2, secs2 = runner.witness_check(doc=True)
        r.check(ok2, 'send-is-derived', 'witness/src/lib.rs', 'compile_fail,E0277 witnesses with compiling twins (SendStream / SendRequest / SendResponse over a !Send buffer): %s' % detail2)


def r8_user_values_outside_lock(ctx):
    r = ctx.rule('C20.R8', 'GUARD', 'user-provided http::Extensions are emptied before the stream lock is taken: their destructors (which may own handles of this connection) never run under the lock')
    F = ctx.facts
    n = 0
    for fname, msg in ((P + 'streams::Streams::send_request', 'request'), (P + 'streams::StreamRef::send_response', 'response'), (P + 'streams::StreamRef::send_push_promise', 'promised request')):
        f = r.fn(fname)
        if not f:
            continue
        clears = [bi for bi, t in f.calls(lambda t: t['fn'].endswith('Extensions::clear'))]
        locks = [bi for bi, t in f.calls(lambda t: t['fn'].endswith('Mutex::lock'))]
        n += len(clears)
        ok = bool(clears) and bool(locks) and all(f.dominated_by_blocks(l, clears) for l in locks)
        r.check(ok, 'extensions-cleared-first|' + fname.split('::')[-1], f.file,
                '%s: the %s extensions are %s' % (fname.split('::')[-1], msg, 'cleared before any lock is acquired' if ok else
                                                  'NOT cleared before the lock: they are dropped inside the locked region, and an extension owning the last handle of a stream of this connection re-enters the same non-re-entrant mutex (self-deadlock of the caller, then of the connection)'))
    r.floor(n, 3, 'Extensions::clear sites ahead of the lock')


def run(ctx):
    r8_user_values_outside_lock(ctx)
    from . import C06
    C06.r5_ping_atomics(ctx, 'C20.R9')   # lock-free user-ping state: register before check, publish before wake
    L = r1_lock_order(ctx)
    r2_unsafe_census(ctx)
    r2b_send_witness(ctx)
    r3_flush_handover(ctx)
    r5_poison(ctx)
    from . import C19
    C19.r6_idle_client(ctx, 'C20.R6')  # handles dropped on another thread during a poll are noticed by the post-poll re-check
    C19.r8_last_ref_wakes(ctx, 'C20.R7')


_run_rules = run


def run(ctx):
    _run_rules(ctx)
    from .. import boundaries
    boundaries.check_writes(ctx, 'C20.RW', 'C20')
    from .. import errdisc
    errdisc.check(ctx, 'C20.RD', 'C20', 27)
    from . import C06
    C06.r1b_path_sites(ctx, 'C20.R10')  # a handle operation on another thread announces its work: the connection task is woken after it queues anything
    from .. import boundaries as _b
    _b.check_predicates(ctx, 'C20.RP', 'C20')
    from .. import boundaries as _b
    _b.check_updates(ctx, 'C20.RU', 'C20')
    from .. import boundaries as _b
    _b.check_guards(ctx, 'C20.RG', 'C20')
    from .. import boundaries as _b
    _b.check_counts(ctx, 'C20.RQ', 'C20')
