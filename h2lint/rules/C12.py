"""C12 — frame codec: layout agreement between writers, readers and RFC 9113; size guards."""
from .. import core, tables
from ..core import strip, canon, has_field, walk, mentions_field

ENC = 'codec::framed_write::Encoder'


def reads_max_frame_size(e):
    return mentions_field(e, ENC, 'max_frame_size') or core.contains_call(e, ENC + '::max_frame_size')


def additive_leaves(e):
    """leaves of a tree of (checked) additions; None when another operator is involved"""
    e = strip(e)
    while e[0] == 'cast':
        e = strip(e[1])
    if e[0] == 'field' and e[3] == '0' and strip(e[1])[0] == 'bin' and strip(e[1])[1] == 'AddWithOverflow':
        e = strip(e[1])
    if e[0] == 'bin':
        if e[1] not in ('Add', 'AddWithOverflow', 'AddUnchecked'):
            return None
        a, b = additive_leaves(e[2]), additive_leaves(e[3])
        if a is None or b is None:
            return None
        return a + b
    return [e]


def is_head_limit(e):
    """e == max_frame_size + 9 exactly (the frame head is the only allowance on top of the peer's limit)"""
    ls = additive_leaves(e)
    if ls is None:
        return False
    consts = [l for l in ls if l[0] == 'const']
    rest = [l for l in ls if l[0] != 'const']
    return len(rest) == 1 and reads_max_frame_size(rest[0]) and rest[0][0] in ('call', 'field', 'deref') and sum(c[1] for c in consts if isinstance(c[1], int)) == 9 and all(isinstance(c[1], int) for c in consts)


EXHAUSTIVE = True
EXPLANATION = (
    "Decides layout agreement, not round-trip: every frame-type code, flag bit, setting identifier, default / limit "
    "constant, reserved-bit mask and error code evaluated by the compiler equals RFC 9113 (hand-written reference with "
    "section cites) and the writer's table equals the reader's (R1, exhaustive over the rows); the 9-byte head is "
    "written and parsed at the same offsets and the length-delimited reader is configured for them (R2); fixed payload "
    "lengths agree between each encode and its load; SETTINGS value ranges are enforced on load (R1d); the send-side "
    "size limit, the receive-side FRAME_SIZE_ERROR mapping and the partial-write slot discipline are present on all "
    "paths (R3-R5). parse(serialize(f)) = f under arbitrary I/O chunking is NOT decided."
)
NOT_DECIDED = "parse(serialize(f)) = f as values; no duplication / loss / reordering of bytes under every short-write pattern"

KIND = 'frame::head::Kind'


def arm_results(F, fn):
    """[(conds, result expr)] — per decision path the last aggregate stored in the return place"""
    out = []
    for conds, blocks in core.decision_paths(F, fn):
        res = None
        for b in blocks:
            for s in fn.blocks[b]['s']:
                if s[0] == [0] and s[1][0] in ('aggr', 'use'):
                    res = fn.expr_of_rvalue(s[1])
        out.append((conds, res))
    return out


def r1_tables(ctx):
    r = ctx.rule('C12.R1', 'TABLE', 'frame type codes, flags, setting ids, limits, masks and error codes: writer = reader = RFC 9113')
    F = ctx.facts
    ref = tables.load_ref('rfc9113_frames.json')
    # a. evaluated constants
    for name, want in list(ref['constants'].items()) + list(ref['flags'].items()):
        got = F.const_val(name)
        r.check(got == want, 'const|' + name, '', '%s = %s, RFC: %s' % (name, got, want))
    for name, want in ref['reasons'].items():
        got = F.const_val('frame::reason::Reason::' + name)
        r.check(got == want, 'reason|' + name, 'src/frame/reason.rs', 'Reason::%s = %s, RFC 9113 §7: %s' % (name, got, want))
    # b. Kind discriminants and Kind::new
    vs = F.variants(KIND) or {}
    for name, want in ref['frame_types'].items():
        got = [d for d, n in vs.items() if n == name]
        r.check(got == [want], 'kind|discr|' + name, 'src/frame/head.rs', 'Kind::%s = %s, RFC: %s' % (name, got, want))
    kn = r.fn('frame::head::Kind::new')
    if kn:
        m = {}
        for conds, res in arm_results(F, kn):
            lab = [l for sw, l, s in conds if sw.kind == 'int']
            if res is not None and res[0] == 'aggr' and lab:
                m[lab[0]] = res[2].split('::')[-1]
        for name, want in ref['frame_types'].items():
            r.check(m.get(want) == name, 'kind|new|%d' % want, 'src/frame/head.rs', 'Kind::new(%d) = %s, RFC: %s' % (want, m.get(want), name))
        r.check(m.get('else') == 'Unknown', 'kind|new|else', 'src/frame/head.rs', 'every other type byte maps to Kind::Unknown (got %s)' % m.get('else'))
        r.check(len(m) == 11, 'kind|new|arms', 'src/frame/head.rs', 'Kind::new has %d arms' % len(m))
    # c. setting identifiers
    fid = r.fn('frame::settings::Setting::from_id')
    if fid:
        m = {}
        for conds, res in arm_results(F, fid):
            lab = [l for sw, l, s in conds if sw.kind == 'int']
            if res is None or not lab:
                continue
            if res[0] == 'aggr' and res[2].endswith('::Some'):
                inner = strip(res[3][0])
                m[lab[0]] = inner[2].split('::')[-1] if inner[0] == 'aggr' else '?'
            elif res[0] == 'aggr' and res[2].endswith('::None'):
                m[lab[0]] = None
        for name, want in ref['settings'].items():
            r.check(m.get(want) == name, 'setting|from_id|%d' % want, 'src/frame/settings.rs', 'Setting::from_id(%d) = %s, RFC: %s' % (want, m.get(want), name))
        r.check(m.get('else', 'x') is None, 'setting|from_id|else', 'src/frame/settings.rs', 'unknown setting ids map to None (ignored)')
        r.check(len(m) == len(ref['settings']) + 1, 'setting|from_id|arms', 'src/frame/settings.rs', '%d arms' % len(m))
    enc = r.fn('frame::settings::Setting::encode')
    if enc:
        m = {}
        for conds, blocks in core.decision_paths(F, enc):
            lab = [l for sw, l, s in conds if sw.kind == 'variant' and sw.adt == 'frame::settings::Setting']
            for b in blocks:
                for s in enc.blocks[b]['s']:
                    if s[1][0] == 'aggr' and s[1][1] == 'tuple' and len(s[1][3]) == 2 and s[1][3][0][0] == 'k':
                        if lab and len(lab[0]) == 1:
                            m[list(lab[0])[0]] = s[1][3][0][3]
        for name, want in ref['settings'].items():
            r.check(m.get(name) == want, 'setting|encode|' + name, 'src/frame/settings.rs', 'Setting::encode(%s) writes id %s, RFC: %s' % (name, m.get(name), want))
        seq = core.sequences(enc, lambda bi, t: t['fn'].split('::')[-1] if t['k'] == 'call' and t['fn'].startswith('bytes::BufMut::put') else None)
        r.check(seq == {('put_u16', 'put_u32')}, 'setting|encode|layout', 'src/frame/settings.rs', 'each setting is written as u16 id + u32 value: %s' % sorted(seq))
    # d. value ranges on load
    ld = r.fn('frame::settings::Settings::load')
    if ld:
        SET = 'frame::settings::Settings'

        def writes(field):
            return [bi for bi, si, pl, rv, ln in ld.stmts() if core.place_fields(pl)[-1:] == [(SET, field)]]

        def cmp_edges(op_ok, const):
            # edges of comparisons against `const` on which the comparison has the accepted outcome
            def subj(sw):
                if sw.kind != 'cmp':
                    return False
                a, b = strip(sw.subject[2]), strip(sw.subject[3])
                return (a[0] == 'const' and a[1] == const) or (b[0] == 'const' and b[1] == const)
            return subj
        for field in ('enable_push', 'enable_connect_protocol'):
            ws = writes(field)
            edges = core.edges_where(F, ld, lambda sw: sw.kind == 'int', lambda l: l in (0, 1))
            ok = bool(ws) and all(ld.dominated_by_edges(w, edges) for w in ws)
            r.check(ok, 'range|' + field, 'src/frame/settings.rs', '%s is stored only for values 0 and 1' % field)
        ws = writes('initial_window_size')
        cons = [core.order_constraint(F, ld, w, 2147483647) for w in ws]
        r.check(bool(ws) and all(c[0] == frozenset(['lt', 'eq']) for c in cons), 'range|initial_window_size', 'src/frame/settings.rs',
                'initial_window_size is stored only when val <= 2^31-1 (orderings allowed at the store: %s)' % [sorted(c[0]) for c in cons])
        max_frame_size_range(r, F)
        # payload length: multiple of 6, ACK must be empty
        rems = [rv for bi, si, pl, rv, ln in ld.stmts() if rv[0] == 'bin' and rv[1] == 'Rem' and core.op_const(rv[3]) and core.op_const(rv[3])[0] == 6]
        r.check(bool(rems), 'len|settings', 'src/frame/settings.rs', 'Settings::load tests payload.len() % 6')
        ch = ld.calls(lambda t: t['fn'].endswith('::chunks'))
        r.check(bool(ch) and all(core.op_const(t['a'][1]) and core.op_const(t['a'][1])[0] == 6 for bi, t in ch), 'len|settings|chunks', 'src/frame/settings.rs', 'settings are read in chunks of 6')
    # e. fixed payload lengths: load tests vs encode constants
    fp = ref['fixed_payload']
    for fname, const, op, what in (('frame::ping::Ping::load', fp['Ping'], 'Ne', 'PING'), ('frame::reset::Reset::load', fp['Reset'], 'Ne', 'RST_STREAM'),
                                   ('frame::window_update::WindowUpdate::load', fp['WindowUpdate'], 'Ne', 'WINDOW_UPDATE'),
                                   ('frame::priority::StreamDependency::load', fp['Priority'], 'Ne', 'PRIORITY'),
                                   ('frame::go_away::GoAway::load', fp['GoAwayMin'], 'Lt', 'GOAWAY')):
        f = r.fn(fname)
        if not f:
            continue
        found = []
        for bi, b in enumerate(f.blocks):
            if b['cu'] or b['t']['k'] != 'sw':
                continue
            sw = core.resolve_switch(F, f, bi)
            if sw.kind == 'cmp':
                # the test as written and its equivalent presentations (`!(len >= 8)` is `len < 8`, `8 > len` ...)
                from .. import boundaries as _bd
                errs = _bd.action_sites(F, f, 'err')
                for pres in core.presentations(sw):
                    a, b2 = strip(pres.subject[2]), strip(pres.subject[3])
                    is_len = (a[0] == 'other' and 'PtrMetadata' in str(a[1])) or (a[0] == 'call' and a[1].endswith('::len'))
                    if b2[0] == 'const' and is_len:
                        # the edge on which this presentation of the test holds must end in an error on every path
                        yes = [s2 for s2, l in pres.labels.items() if l is True]
                        if yes and all(not any(x in f.reachable([s2], cut_blocks=errs) and x not in errs for x in f.returns()) for s2 in yes):
                            found.append((pres.subject[1], b2[1], bi))
            elif sw.kind == 'int':
                # `match bytes.len() { 8 => .., _ => Err }` is the test `len != 8`
                a = strip(sw.subject)
                if (a[0] == 'other' and 'PtrMetadata' in str(a[1])) or (a[0] == 'call' and a[1].endswith('::len')):
                    from .. import boundaries as _bd
                    errs = _bd.action_sites(F, f, 'err')
                    other = [s2 for s2, l in sw.labels.items() if l == 'else']
                    if other and all(not any(x in f.reachable([s2], cut_blocks=errs) and x not in errs for x in f.returns()) for s2 in other):
                        for v in set(sw.labels.values()):
                            if isinstance(v, int):
                                found.append(('Ne', v, bi))
        ok = any(o == op and c == const for o, c, bi in found)
        # and the failing edge returns an Err
        r.check(ok, 'len|load|' + what, f.file, '%s::load length test: %s (RFC: %s %d)' % (what, [(o, c) for o, c, _ in found], 'len <' if op == 'Lt' else 'len !=', const))
    for fname, want, what in (('frame::reset::Reset::encode', fp['Reset'], 'RST_STREAM'), ('frame::window_update::WindowUpdate::encode', fp['WindowUpdate'], 'WINDOW_UPDATE')):
        f = r.fn(fname)
        if not f:
            continue
        hs = f.calls_to('frame::head::Head::encode')
        ok = len(hs) == 1 and core.op_const(hs[0][1]['a'][1]) and core.op_const(hs[0][1]['a'][1])[0] == want
        r.check(ok, 'len|encode|' + what, f.file, '%s::encode declares payload length %d' % (what, want))
        seq = core.sequences(f, lambda bi, t: t['fn'].split('::')[-1] if t['k'] == 'call' and (t['fn'].startswith('bytes::BufMut::put') or t['fn'] == 'frame::head::Head::encode') else None)
        r.check(seq == {('encode', 'put_u32')}, 'layout|encode|' + what, f.file, 'head then one u32: %s' % sorted(seq))
    g = r.fn('frame::go_away::GoAway::encode')
    if g:
        hs = g.calls_to('frame::head::Head::encode')
        e = strip(g.expr_of_op(hs[0][1]['a'][1])) if hs else None
        ok = e is not None and e[0] == 'bin' and e[1] == 'Add' and strip(e[2])[0] == 'const' and strip(e[2])[1] == fp['GoAwayMin']
        r.check(ok, 'len|encode|GOAWAY', g.file, 'GoAway::encode declares payload length 8 + debug_data.len(): %s' % (core.show(e) if e else None))
        seq = core.sequences(g, lambda bi, t: t['fn'].split('::')[-1] if t['k'] == 'call' and (t['fn'].startswith('bytes::BufMut::put') or t['fn'] == 'frame::head::Head::encode') else None)
        r.check(seq == {('encode', 'put_u32', 'put_u32', 'put')}, 'layout|encode|GOAWAY', g.file, 'head, last-stream-id u32, error code u32, debug data: %s' % sorted(seq))
        # order of the two u32: last_stream_id then error_code
        puts = [(bi, t) for bi, t in g.calls() if t['fn'] == 'bytes::BufMut::put_u32']
        if len(puts) == 2:
            first = [bi for bi, t in puts if has_field(g.expr_of_op(t['a'][1]), 'frame::go_away::GoAway', 'last_stream_id')]
            second = [bi for bi, t in puts if has_field(g.expr_of_op(t['a'][1]), 'frame::go_away::GoAway', 'error_code')]
            r.check(bool(first) and bool(second) and g.dominated_by_blocks(second[0], first), 'layout|encode|GOAWAY|order', g.file, 'last_stream_id is written before error_code')
    pe = r.fn('frame::ping::Ping::encode')
    if pe:
        seq = core.sequences(pe, lambda bi, t: t['fn'].split('::')[-1] if t['k'] == 'call' and (t['fn'].startswith('bytes::BufMut::put') or t['fn'] == 'frame::head::Head::encode') else None)
        r.check(seq == {('encode', 'put_slice')}, 'layout|encode|PING', pe.file, 'head then the 8-byte payload: %s' % sorted(seq))
        pl = F.adts.get('frame::ping::Ping')
        ty = [f[1] for v in pl['variants'] for f in v['fields'] if f[0] == 'payload'] if pl else []
        r.check(ty == ['[u8; 8]'], 'len|encode|PING', pe.file, 'Ping.payload has type %s (RFC: 8 octets)' % ty)
    # f. stream-zero frames build their head with StreamId::zero()
    for fname, what in (('frame::settings::Settings::encode', 'SETTINGS'), ('frame::ping::Ping::encode', 'PING'), ('frame::go_away::GoAway::encode', 'GOAWAY')):
        f = r.fn(fname)
        if not f:
            continue
        hn = f.calls_to('frame::head::Head::new')
        ok = len(hn) == 1 and strip(f.expr_of_op(hn[0][1]['a'][2]))[0] == 'call' and strip(f.expr_of_op(hn[0][1]['a'][2]))[1] == 'frame::stream_id::StreamId::zero'
        r.check(ok, 'zero|' + what, f.file, '%s head uses StreamId::zero()' % what)
    # kinds used by each encode
    for fname, kind in (('frame::settings::Settings::encode', 'Settings'), ('frame::ping::Ping::encode', 'Ping'), ('frame::go_away::GoAway::encode', 'GoAway'),
                        ('frame::reset::Reset::encode', 'Reset'), ('frame::window_update::WindowUpdate::encode', 'WindowUpdate'),
                        ('frame::data::Data::head', 'Data'), ('frame::headers::Headers::head', 'Headers'), ('frame::headers::PushPromise::head', 'PushPromise'),
                        ('frame::headers::Continuation::head', 'Continuation')):
        f = r.fn(fname)
        if not f:
            continue
        hn = f.calls_to('frame::head::Head::new')
        e = strip(f.expr_of_op(hn[0][1]['a'][0])) if hn else None
        ok = e is not None and e[0] == 'aggr' and e[2] == KIND + '::' + kind
        r.check(ok, 'kind|encode|' + kind, f.file, '%s builds its head with Kind::%s (%s)' % (fname.split('::')[-2], kind, core.show(e) if e else None))


def r2_head(ctx):
    r = ctx.rule('C12.R2', 'TABLE', 'the 9-byte head: 24-bit length, type, flags, 32-bit id written and parsed at the same offsets; reader configured (3, 9, 0)')
    F = ctx.facts
    enc = r.fn('frame::head::Head::encode')
    if enc:
        evs = []

        def m(bi, t):
            if t['k'] == 'call' and t['fn'].startswith('bytes::BufMut::put'):
                return (t['fn'].split('::')[-1], bi)
            return None
        seqs = core.sequences(enc, m)
        names = set(tuple(x[0] for x in s) for s in seqs)
        r.check(names == {('put_uint', 'put_u8', 'put_u8', 'put_u32')}, 'encode|order', enc.file, 'Head::encode writes %s' % sorted(names))
        if len(seqs) == 1:
            s = list(seqs)[0]
            t0 = enc.term(s[0][1])
            c = core.op_const(t0['a'][2])
            r.check(c is not None and c[0] == 3 and strip(enc.expr_of_op(t0['a'][1])) == ('arg', 2), 'encode|len', enc.loc(s[0][1]), 'length = payload_len argument, 3 bytes')
            e1 = enc.expr_of_op(enc.term(s[1][1])['a'][1])
            r.check(mentions_field(e1, 'frame::head::Head', 'kind'), 'encode|kind', enc.loc(s[1][1]), 'type byte = self.kind: %s' % core.show(e1))
            e2 = enc.expr_of_op(enc.term(s[2][1])['a'][1])
            r.check(has_field(e2, 'frame::head::Head', 'flag'), 'encode|flag', enc.loc(s[2][1]), 'flags byte = self.flag: %s' % core.show(e2))
            e3 = enc.expr_of_op(enc.term(s[3][1])['a'][1])
            r.check(has_field(e3, 'frame::head::Head', 'stream_id'), 'encode|id', enc.loc(s[3][1]), 'id = self.stream_id: %s' % core.show(e3))
    par = r.fn('frame::head::Head::parse')
    if par:
        agg = [par.expr_of_rvalue(rv) for bi, si, pl, rv, ln in par.stmts() if pl == [0] and rv[0] == 'aggr']
        ok = len(agg) == 1
        if ok:
            kind, flag, sid = agg[0][3]
            k = strip(kind)
            okk = k[0] == 'call' and k[1] == 'frame::head::Kind::new' and strip(k[2][0])[0] == 'index' and strip(k[2][0])[2][0] == 'const' and strip(k[2][0])[2][1] == 3
            r.check(okk, 'parse|kind', par.file, 'kind = Kind::new(header[3]): %s' % core.show(k))
            fl = strip(flag)
            r.check(fl[0] == 'index' and fl[2][0] == 'const' and fl[2][1] == 4, 'parse|flag', par.file, 'flag = header[4]')
            sp = [t for bi, t in par.calls_to('frame::stream_id::StreamId::parse')]
            okid = False
            if sp:
                e = strip(par.expr_of_op(sp[0]['a'][0]))
                rng = [x for x in walk(e) if x[0] == 'aggr' and x[2] == 'std::ops::RangeFrom']
                okid = bool(rng) and rng[0][3][0][0] == 'const' and rng[0][3][0][1] == 5
            r.check(okid, 'parse|id', par.file, 'stream id = StreamId::parse(&header[5..])')
        else:
            r.bad('parse|shape', par.file, 'Head::parse does not build exactly one Head aggregate')
    # reader configuration
    users = [f for n, f in F.fns.items() if f.calls(lambda t: t['fn'].endswith('length_delimited::Builder::length_field_length'))]
    r.floor(len(users), 1, 'functions configuring length_delimited::Builder')
    for f in users:
        vals = {}
        for bi, t in f.calls():
            for meth in ('length_field_length', 'length_adjustment', 'num_skip'):
                if t['fn'].endswith('length_delimited::Builder::' + meth):
                    c = core.op_const(t['a'][1])
                    vals[meth] = c[0] if c else None
        be = bool(f.calls(lambda t: t['fn'].endswith('length_delimited::Builder::big_endian')))
        r.check(vals == {'length_field_length': 3, 'length_adjustment': 9, 'num_skip': 0} and be, 'reader|' + f.name, f.file,
                'length-delimited reader: %s big_endian=%s (must be 3-byte big-endian length, +9 header bytes kept, nothing skipped)' % (vals, be))
    sidp = r.fn('frame::stream_id::StreamId::parse')
    if sidp:
        # masks the reserved bit with STREAM_ID_MASK
        consts = [c for bi, si, pl, rv, ln in sidp.stmts() for c in core.consts_in(sidp.expr_of_rvalue(rv))]
        r.check(any(c[1] == 2147483648 for c in consts), 'parse|mask', sidp.file, 'StreamId::parse masks the reserved bit (STREAM_ID_MASK)')


def max_frame_size_range(r, F):
    ld = F.fn('frame::settings::Settings::load')
    if not ld:
        r.bad('range|max_frame_size|anchor', '', 'Settings::load not found')
        return
    ws = [bi for bi, si, pl, rv, ln in ld.stmts() if core.place_fields(pl)[-1:] == [('frame::settings::Settings', 'max_frame_size')]]
    lo = [core.order_constraint(F, ld, w, 16384) for w in ws]
    hi = [core.order_constraint(F, ld, w, 16777215) for w in ws]
    ok = bool(ws) and all(c[0] == frozenset(['eq', 'gt']) for c in lo) and all(c[0] == frozenset(['lt', 'eq']) for c in hi)
    r.check(ok, 'range|max_frame_size', 'src/frame/settings.rs',
            'a received SETTINGS_MAX_FRAME_SIZE is stored only when 16384 <= val <= 2^24-1 (at the store: val vs 16384 in %s, val vs 2^24-1 in %s)%s' % (
                [sorted(c[0]) for c in lo], [sorted(c[0]) for c in hi],
                '' if ok else ' — a smaller value (0) makes the writer emit empty CONTINUATION / DATA frames for ever; a larger one trips the codec assert'))


def r3_send_size(ctx):
    r = ctx.rule('C12.R3', 'GUARD', 'send-side frame size limit: DATA payload compared with max_frame_size before encoding; header blocks written through a limited buffer')
    F = ctx.facts
    b = r.fn('codec::framed_write::Encoder::buffer')
    if b:
        # DATA arm: comparison len > max_frame_size leading to Err(PayloadTooBig)
        errs = [bi for bi, si, pl, rv, ln in b.stmts() if rv[0] == 'aggr' and rv[2].endswith('UserError::PayloadTooBig')]
        r.check(len(errs) >= 1, 'data|too-big', b.file, 'Encoder::buffer can return UserError::PayloadTooBig')
        enc = [bi for bi, t in b.calls(lambda t: t['fn'] in ('frame::data::Data::encode_chunk', 'frame::head::Head::encode'))]
        edges = core.edges_where(F, b, lambda sw: sw.kind == 'cmp' and sw.subject[1] == 'Gt' and reads_max_frame_size(sw.subject[3]),
                                 lambda l: l is False)
        dataenc = [bi for bi, t in b.calls(lambda t: t['fn'].startswith('frame::data::Data::') and ('encode' in t['fn'] or 'head' in t['fn']))]
        r.floor(len(dataenc), 1, 'DATA encode sites in Encoder::buffer')
        ok = bool(edges) and all(b.dominated_by_edges(x, edges) for x in dataenc)
        r.check(ok, 'data|guard', b.file, 'every DATA encode in Encoder::buffer is dominated by the not-greater edge of a comparison with Encoder.max_frame_size')
        # HEADERS / PUSH_PROMISE written through BufMut::limit(max_frame_size + HEADER_LEN)
        lim = b.calls(lambda t: t['fn'] == 'bytes::BufMut::limit')
        r.floor(len(lim), 2, 'limited-buffer sites in Encoder::buffer (HEADERS, PUSH_PROMISE)')
        for bi, t in lim:
            e = b.expr_of_op(t['a'][1])
            ok = is_head_limit(e)
            r.check(ok, 'headers|limit|%d' % len([x for x in r.results if x.key.startswith('headers|limit')]), b.loc(bi), 'limit = %s (must be exactly max_frame_size + 9-byte head: the whole payload, promised id and padding included, counts against the SETTINGS_MAX_FRAME_SIZE of the peer)' % core.show(e))
    u = r.fn('codec::framed_write::Encoder::unset_frame')
    if u:
        lim = u.calls(lambda t: t['fn'] == 'bytes::BufMut::limit')
        r.floor(len(lim), 1, 'limited-buffer site in Encoder::unset_frame (CONTINUATION)')
        for bi, t in lim:
            e = u.expr_of_op(t['a'][1])
            ok = is_head_limit(e)
            r.check(ok, 'continuation|limit', u.loc(bi), 'limit = %s (exactly max_frame_size + 9)' % core.show(e))
    s = r.fn('codec::framed_write::FramedWrite::set_max_frame_size')
    if s:
        # asserts val <= MAX_MAX_FRAME_SIZE
        consts = [c for bi, b2 in enumerate(s.blocks) if not b2['cu'] and b2['t']['k'] == 'sw' for c in core.consts_in(core.resolve_switch(F, s, bi).subject)]
        r.check(any(c[1] == 16777215 for c in consts), 'set_max|assert', s.file, 'set_max_frame_size checks against MAX_MAX_FRAME_SIZE (2^24-1)')
    hc = r.fn('codec::framed_write::Encoder::has_capacity')
    if hc:
        reads = [1 for bi, si, pl, rv, ln in hc.stmts() if has_field(hc.expr_of_rvalue(rv), 'codec::framed_write::Encoder', 'next')]
        r.check(bool(reads), 'has_capacity|next', hc.file, 'Encoder::has_capacity reads Encoder.next (a pending CONTINUATION / DATA blocks further frames)')


def r4_recv_size(ctx):
    r = ctx.rule('C12.R4', 'PASS', 'receive-side limit: an over-long frame becomes a connection error FRAME_SIZE_ERROR; the limit is set from the local setting')
    F = ctx.facts
    m = r.fn('codec::framed_read::map_err')
    if m:
        cs = m.calls(lambda t: t['fn'].startswith('proto::error::Error::library_go_away'))
        ok = False
        for bi, t in cs:
            e = strip(m.expr_of_op(t['a'][0]))
            if e[0] == 'const' and e[1] == 6:
                ok = True
        r.check(ok, 'map_err', m.file, 'framed_read::map_err maps the length-delimited codec error to library_go_away(FRAME_SIZE_ERROR)')
        # and it is applied to the reader's errors
        users = F.rcg.get('codec::framed_read::map_err', set())
        r.check(any('poll_next' in u for u in users), 'map_err|used', m.file, 'map_err is applied in FramedRead::poll_next: %s' % sorted(users))
    s = r.fn('codec::framed_read::FramedRead::set_max_frame_size')
    if s:
        fw = s.calls(lambda t: t['fn'].endswith('set_max_frame_length'))
        r.check(len(fw) == 1, 'set_max|forward', s.file, 'FramedRead::set_max_frame_size forwards to LengthDelimitedCodec::set_max_frame_length')
        consts = [c for bi, b2 in enumerate(s.blocks) if not b2['cu'] and b2['t']['k'] == 'sw' for c in core.consts_in(core.resolve_switch(F, s, bi).subject)]
        r.check(any(c[1] == 16777215 for c in consts) and any(c[1] == 16384 for c in consts), 'set_max|range', s.file, 'asserts 2^14 <= val <= 2^24-1')
    callers = F.rcg.get('codec::Codec::set_max_recv_frame_size', set())
    r.floor(len(callers), 3, 'callers of Codec::set_max_recv_frame_size (client handshake, server handshake, settings ACK)')


def r7_payload_range(ctx, rid='C12.R7'):
    r = ctx.rule(rid, 'FLOW', 'decode_frame hands every loader exactly the bytes after the 9-byte head (range provenance of the frame buffer on every path)')
    F = ctx.facts
    d = r.fn('codec::framed_read::decode_frame')
    if not d:
        return
    BY = [i for i in range(1, d.argc + 1) if d.local_ty(i) == 'bytes::BytesMut']
    if len(BY) != 1:
        r.bad('payload|anchor', d.file, 'frame buffer argument of decode_frame not found')
        return
    by = BY[0]

    def is_buf(e):
        e = strip(e)
        return e == ('arg', by)

    def kind_of(e):
        """'whole-tail' for bytes[9..] , 'self' for the buffer itself (by value / freeze), None when unrelated"""
        e0 = strip(e)
        if e0[0] == 'call' and e0[1].endswith('::index') and len(e0[2]) == 2 and any(x == ('arg', by) for x in walk(e0[2][0])):
            rng = e0[2][1]
            consts = [c[1] for c in core.consts_in(rng)]
            if rng[0] == 'aggr' and 'RangeFrom' in str(rng[2]) and consts == [9]:
                return 'tail9'
            return 'other-range'
        if e0 == ('arg', by):
            return 'self'
        if e0[0] == 'call' and e0[1].endswith('BytesMut::freeze') and e0[2] and strip(e0[2][0]) == ('arg', by):
            return 'self'
        if any(x == ('arg', by) for x in walk(e0)) and e0[0] == 'call' and e0[1].endswith(('BytesMut::split_off', 'BytesMut::split_to')):
            return 'split:' + e0[1].rsplit('::', 1)[-1] + ':' + ','.join(str(c[1]) for c in core.consts_in(e0[2][1]))
        return None

    sites = []

    def on_term(us, bi, t):
        if t['k'] != 'call':
            return us
        fn = t['fn']
        if fn.endswith('Buf>::advance') or fn.endswith('Buf::advance'):
            if t['a'] and is_buf(d.expr_of_op(t['a'][0])):
                c = strip(d.expr_of_op(t['a'][1]))
                return 'P' if (us == 'W' and c[0] == 'const' and c[1] == 9) else 'X'
        if fn.endswith('BytesMut::split_off') and t['a'] and is_buf(d.expr_of_op(t['a'][0])):
            return 'H' if us == 'W' else 'X'
        if fn.endswith('BytesMut::split_to') and t['a'] and is_buf(d.expr_of_op(t['a'][0])):
            return 'P' if us == 'W' else 'X'
        consumer = (fn.startswith('frame::') and fn.endswith('::load')) or fn.endswith('BytesMut::extend_from_slice')
        if consumer:
            for a in t['a']:
                k = kind_of(d.expr_of_op(a))
                if k is not None:
                    sites.append((bi, fn, k, us))
        return us

    def on_stmt(us, bi, si, pl, rv):
        if core.write_target(d, pl) == ('codec::framed_read::Partial', 'buf'):
            k = kind_of(d.expr_of_rvalue(rv))
            if k is not None:
                sites.append((bi, 'Partial.buf =', k, us))
        return us
    try:
        core.scan(d, 'W', on_stmt, on_term, cap=64, track_ret=False)
    except core.Cap as e:
        r.bad('payload|cap', d.file, str(e))
        return
    seen = set()
    for bi, fn, k, us in sites:
        key = (fn, k, us)
        if key in seen:
            continue
        seen.add(key)
        if k == 'tail9':
            ok = us == 'W'
        elif k == 'self':
            ok = us == 'P'
        elif k.startswith('split:'):
            ok = k == 'split:split_off:9' and us in ('W', 'H')   # evaluated after the call moved the buffer state
        else:
            ok = False
        r.check(ok, 'payload|%s|%s|%s' % (fn.split('::')[-2] + '::' + fn.split('::')[-1] if '::' in fn else fn, k, us), d.loc(bi),
                '%s receives %s while the frame buffer is %s%s' % (fn, {'tail9': 'bytes[9..]', 'self': 'the buffer itself'}.get(k, k), {'W': 'whole (head + payload)', 'P': 'advanced past the head', 'H': 'cut down to the head', 'X': 'in an unexpected state'}[us],
                                                                    '' if ok else ' — the loader is not given the payload (the 9-byte head, or a shifted range, is decoded as payload)'))
    r.floor(len(seen), 10, 'loader / reassembly sites fed from the frame buffer')


def r10_delegation(ctx, rid='C12.R10'):
    r = ctx.rule(rid, 'TABLE', 'delegating accessors agree across variants: every arm of a Continuable accessor calls the same-named method of its payload (HEADERS and PUSH_PROMISE blocks are continued on the same stream id)')
    F = ctx.facts
    H2 = ('proto::', 'frame::', 'codec::', 'hpack::')
    n = 0
    for fname in ('codec::framed_read::Continuable::stream_id', 'codec::framed_read::Continuable::is_over_size', 'codec::framed_read::Continuable::load_hpack'):
        f = r.fn(fname)
        if not f:
            continue
        own = fname.rsplit('::', 1)[-1]
        sws = [(bi, sw) for bi, sw in core.all_switches(F, f).items() if sw is not None and sw.kind == 'variant' and strip(sw.subject)[0] == 'arg']
        r.check(len(sws) >= 1, 'delegate|%s|dispatch' % own, f.file, 'Continuable::%s dispatches on the variant' % own)
        if not sws:
            continue
        bi, sw = sws[0]
        for s2, lab in sw.labels.items():
            if not lab:
                continue
            reach = f.reachable([s2])
            calls = [t['fn'] for b, t in f.calls(lambda t: t['fn'].startswith(H2)) if b in reach and not any(b in f.reachable([o]) for o in sw.labels if o != s2)]
            n += 1
            ok = len(calls) == 1 and calls[0].rsplit('::', 1)[-1] == own
            r.check(ok, 'delegate|%s|%s' % (own, '+'.join(sorted(lab))), f.file, 'Continuable::%s, arm %s calls %s%s' % (own, sorted(lab), [c.split('::')[-2] + '::' + c.split('::')[-1] for c in calls],
                    '' if ok else ' — not the same-named accessor: e.g. a PUSH_PROMISE block compared by its promised id is rejected as soon as it needs a CONTINUATION'))
    r.floor(n, 6, 'delegating arms')


def r6_final_flush(ctx, rid='C12.R6'):
    r = ctx.rule(rid, 'GUARD', 'close: the final flush is marked done only after flush() returned Ready(Ok); the transport is shut down only behind it')
    F = ctx.facts
    FW = 'codec::framed_write::FramedWrite'
    f = r.fn(FW + '::shutdown')
    if not f:
        return
    flush = [bi for bi, t in f.calls_to(FW + '::flush')]
    r.check(len(flush) == 1, 'flush|site', f.file, 'FramedWrite::shutdown calls flush at %d site(s)' % len(flush))
    ready = core.guard_edges(F, f, [FW + '::flush'], lambda l: l == frozenset(['Ready']))
    okay = core.guard_edges(F, f, [FW + '::flush'], lambda l: isinstance(l, frozenset) and bool(l) and l <= frozenset(['Ok', 'Ready(Ok)']))
    done = core.edges_where(F, f, lambda sw: sw.kind == 'bool' and core.last_field(strip(sw.subject)) == (FW, 'final_flush_done'), lambda l: l is True)
    ws = [(bi, ln) for bi, si, pl, rv, ln in f.stmts() if core.write_target(f, pl) == (FW, 'final_flush_done')]
    r.check(len(ws) >= 1, 'flag|written', f.file, 'final_flush_done is set in shutdown')
    for bi, ln in ws:
        ok = bool(okay) and f.dominated_by_edges(bi, okay) and (not ready or f.dominated_by_edges(bi, ready))
        r.check(ok, 'flag|after-flush-ok', '%s:%d' % (f.file, ln), 'final_flush_done = true %s' % ('only on the Ready(Ok) edge of flush()' if ok else 'before flush() has completed: after a Pending the next poll skips the flush and everything still staged (final GOAWAY, DATA tail, CONTINUATION) is lost'))
    for bi, t in f.calls(lambda t: t['fn'].endswith('AsyncWrite::poll_shutdown')):
        ok = bool(okay) and bool(done) and f.dominated_by_edges(bi, okay + done)
        r.check(ok, 'shutdown|behind-flush', f.loc(bi), 'poll_shutdown is reached only with the flag set or right after a completed flush')
    r.floor(len(f.calls(lambda t: t['fn'].endswith('AsyncWrite::poll_shutdown'))), 1, 'poll_shutdown sites')
    # the flag has no other writer
    writers = set()
    for name, g in F.fns.items():
        for bi, si, pl, rv, ln in g.stmts():
            if core.write_target(g, pl) == (FW, 'final_flush_done') and not (rv[0] == 'use' and core.op_const(rv[1]) is not None and core.op_const(rv[1])[0] == 0):
                writers.add(name)
    r.check(writers <= {FW + '::shutdown'}, 'flag|writers', '', 'final_flush_done is raised only in shutdown: %s' % sorted(writers))


def run(ctx):
    r10_delegation(ctx)
    r6_final_flush(ctx)
    r7_payload_range(ctx)
    r1_tables(ctx)
    r2_head(ctx)
    r3_send_size(ctx)
    r4_recv_size(ctx)


_run_rules = run


def run(ctx):
    _run_rules(ctx)
    from .. import boundaries
    boundaries.check(ctx, 'C12.RB', 'C12')
    from . import C03
    C03.r12_pad_length_octet(ctx, 'C12.R9')
    boundaries.check_inits(ctx, 'C12.RI', 'C12')
    boundaries.check_codes(ctx, 'C12.RE', 'C12')
    boundaries.check_writes(ctx, 'C12.RW', 'C12')
    from . import C14
    C14.r4_local(ctx, 'C12.R8', 'C12.R8b')  # the reader's frame-size limit follows the acknowledged local SETTINGS, parameter by parameter
    boundaries.check_calls(ctx, 'C12.RC', 'C12')
    from .. import errdisc
    errdisc.check(ctx, 'C12.RD', 'C12', 9)
    boundaries.check_guards(ctx, 'C12.RG', 'C12')
    from .. import tables
    r11 = ctx.rule('C12.R11', 'TABLE', 'flag predicates, setters and loaders of DATA / HEADERS / PUSH_PROMISE / SETTINGS agree with the RFC 9113 flag bits on all 256 flag octets (exhaustive)')
    tables.flag_predicates(r11, ctx.facts)
    from .. import boundaries as _b
    _b.check_predicates(ctx, 'C12.RP', 'C12')
    from .. import boundaries as _b
    _b.check_updates(ctx, 'C12.RU', 'C12')
    from .. import boundaries as _b
    _b.check_amounts(ctx, 'C12.RA', 'C12')
    from .. import boundaries as _b
    _b.check_counts(ctx, 'C12.RQ', 'C12')
