"""C09 — protocol violations are detected and contained; legal traffic is never penalised."""
from .. import core, tstate
from ..core import strip, walk, has_field, mentions_field

EXPLANATION = (
    "Decides: (R1) the receive half of the stream state machine (recv_open, recv_close, reserve_remote, recv_reset, "
    "handle_error, recv_eof and the receive-side predicates), extracted exhaustively by abstract interpretation over all "
    "states x inputs, equals the relation generated from the RFC 9113 section 5.1 edge table, including the class of the "
    "reaction on illegal input (connection error + reason); (R2) the error class of every decode failure in decode_frame "
    "(connection vs stream, reason code), with the HEADERS / PUSH_PROMISE / CONTINUATION arms agreeing; (R3) the stream-id "
    "polarity test required by RFC 9113 section 6 exists for every frame kind and its failing edge is an error; (R4) "
    "frames for unknown streams distinguish idle from closed, and streams whose HEADERS are still unsent count as idle; "
    "(R5) tolerance: unknown frame types and settings are ignored, late frames on reset/closed streams are not errors; "
    "(R7) a locally detected stream error always becomes a RST_STREAM. The reaction after every history is NOT decided."
)
NOT_DECIDED = "the reaction for every violation class after every history (reachable combinations of queues and states); GOAWAY/RST actually reaching the wire"

P = 'proto::streams::'
INNER = P + 'streams::Inner::'
IS_ZERO = 'frame::stream_id::StreamId::is_zero'
DF = 'codec::framed_read::decode_frame'


def r1_tstate(ctx):
    r = ctx.rule('C09.R1', 'TSTATE', 'receive half of the state machine = RFC 9113 §5.1 edges incl. error class (exhaustive over states x inputs)')
    tstate.recv_half(r, ctx.facts)


def _err_only_region(f, start):
    """from block `start` every reachable return stores Err and no Ok aggregate for the return place is passed"""
    reach = f.reachable([start])
    ok_aggr = False
    err_aggr = False
    for b in reach:
        for s in f.blocks[b]['s']:
            if s[0] == [0] and s[1][0] == 'aggr':
                if s[1][2].endswith('Result::Ok'):
                    ok_aggr = True
                if s[1][2].endswith('Result::Err'):
                    err_aggr = True
        t = f.blocks[b]['t']
        if t['k'] == 'call' and t['d'] == [0] and t['fn'].endswith('from_residual'):
            err_aggr = True
    rets = [x for x in f.returns() if x in reach]
    return err_aggr and not ok_aggr and bool(rets)


def zero_test_edges(F, f):
    """[(edge, is_zero_on_this_edge)] for tests of a stream id against zero in f"""
    out = []
    for bi, sw in core.all_switches(F, f).items():
        e = sw.subject
        calls = [x for x in walk(e) if x[0] == 'call']
        if any(c[1] == IS_ZERO for c in calls):
            for s, l in sw.labels.items():
                if l is True or l is False:
                    out.append(((bi, s), l))
        elif any(c[1].endswith('PartialEq<u32>>::eq') or (c[1].endswith('::eq') and 'StreamId' in c[1]) for c in calls) and any(c[1] == 0 for c in core.consts_in(e)):
            for s, l in sw.labels.items():
                if l is True or l is False:
                    out.append(((bi, s), l))
    return out


POLARITY = {
    # kind: (requirement, candidate functions where the test may live)
    'Data': ('nonzero', ['frame::data::Data::load']),
    'Headers': ('nonzero', ['frame::headers::Headers::load']),
    'PushPromise': ('nonzero', ['frame::headers::PushPromise::load']),
    'Priority': ('nonzero', [DF, 'frame::priority::Priority::load']),
    'Reset': ('nonzero', ['frame::reset::Reset::load', INNER + 'recv_reset', DF]),
    'Settings': ('zero', ['frame::settings::Settings::load']),
    'Ping': ('zero', ['frame::ping::Ping::load']),
    'GoAway': ('zero', ['frame::go_away::GoAway::load', DF, INNER + 'recv_go_away', 'proto::connection::DynConnection::recv_frame']),
}


def r3_polarity(ctx):
    r = ctx.rule('C09.R3', 'GUARD', 'stream-id polarity per frame kind (RFC 9113 §6): zero where required, non-zero where required, failing edge is an error')
    F = ctx.facts
    for kind, (req, cands) in sorted(POLARITY.items()):
        found = False
        where = ''
        for c in cands:
            f = F.fn(c)
            if not f:
                continue
            for (edge, is_zero) in zero_test_edges(F, f):
                bad_edge = (req == 'nonzero' and is_zero) or (req == 'zero' and not is_zero)
                if bad_edge and _err_only_region(f, edge[1]):
                    # in decode_frame the test must belong to this kind's arm
                    if c == DF:
                        arm = core.edges_where(F, f, lambda sw: sw.kind == 'variant' and sw.adt == 'frame::head::Kind', lambda l: l == frozenset([kind]))
                        if not arm or not f.dominated_by_edges(edge[0], arm):
                            continue
                    found = True
                    where = '%s (%s)' % (c, f.loc(edge[0]))
        r.check(found, 'polarity|' + kind, where,
                '%s frames: stream id must be %s — %s' % (kind.upper(), 'non-zero' if req == 'nonzero' else 'zero',
                                                         ('test found in ' + where) if found else 'NO test with an error edge in %s: a %s frame on the wrong kind of stream is acted on as valid' % (cands, kind.upper())))
    # WINDOW_UPDATE branches on it
    f = r.fn(INNER + 'recv_window_update')
    if f:
        es = zero_test_edges(F, f)
        conn = [bi for bi, t in f.calls_to(P + 'send::Send::recv_connection_window_update')]
        strm = [bi for bi, t in f.calls_to(P + 'send::Send::recv_stream_window_update')]
        zt = [e for e, z in es if z]
        zf = [e for e, z in es if not z]
        ok = bool(conn) and bool(strm) and bool(zt) and all(f.dominated_by_edges(c, zt) for c in conn) and all(f.dominated_by_edges(s, zf) for s in strm)
        r.check(ok, 'polarity|WindowUpdate', f.file, 'WINDOW_UPDATE: stream 0 -> connection window, otherwise stream window')
    # CONTINUATION must match the id of the partial header block
    d = r.fn(DF)
    if d:
        arm = core.edges_where(F, d, lambda sw: sw.kind == 'variant' and sw.adt == 'frame::head::Kind', lambda l: l == frozenset(['Continuation']))
        ok = False
        for bi, sw in core.all_switches(F, d).items():
            calls = [x[1] for x in walk(sw.subject) if x[0] == 'call']
            if any(c.endswith('Continuable::stream_id') for c in calls) and any(c.endswith('Head::stream_id') for c in calls):
                if arm and d.dominated_by_edges(bi, arm):
                    ok = True
        r.check(ok, 'polarity|Continuation', d.file, 'CONTINUATION: stream id compared with the id of the open header block')
        # and only while a block is open: non-CONTINUATION while partial is Some -> conn error
        pe = core.guard_edges(F, d, ['std::option::Option::is_some'], lambda l: l is True)
        r.check(bool(pe) or any('Partial' in str(sw.subject) for sw in core.all_switches(F, d).values()), 'continuation|interleave', d.file, 'a non-CONTINUATION frame inside an open header block is rejected')


ERROR_CLASS = {
    # (loader, frame::Error variant or '*') -> expected class
}


def r2_error_class(ctx):
    r = ctx.rule('C09.R2', 'TABLE', 'error class of decode failures: connection errors except self-dependency and malformed messages (stream PROTOCOL_ERROR); header-block arms agree')
    F = ctx.facts
    d = r.fn(DF)
    if not d:
        return
    fns = [d] + [F.fns[c] for c in sorted(F.cg.get(DF, ())) if c.startswith(DF + '::{closure') and c in F.fns]
    # all error constructors used in decode_frame and their constant reasons
    seen = []
    for f in fns:
        for bi, t in f.calls(lambda t: t['fn'].startswith('proto::error::Error::library_')):
            ctor = t['fn'].split('::')[-1]
            ridx = 1 if ctor == 'library_reset' else 0
            e = strip(f.expr_of_op(t['a'][ridx]))
            reason = e[1] if e[0] == 'const' else None
            seen.append((ctor, reason, f, bi))
    r.floor(len(seen), 15, 'error constructor sites in decode_frame')
    allowed = {('library_go_away', 1), ('library_go_away', 9), ('library_go_away_data', 11), ('library_reset', 1)}
    for ctor, reason, f, bi in seen:
        r.check((ctor, reason) in allowed, 'class|%s|%s' % (ctor, reason), f.loc(bi), 'decode_frame reports %s(reason=%s)' % (ctor, reason))
    # stream errors only for InvalidDependencyId and MalformedMessage
    resets = [(f, bi) for ctor, reason, f, bi in seen if ctor == 'library_reset']
    for f, bi in resets:
        edges = core.edges_where(F, f, lambda sw: sw.kind == 'variant' and sw.adt == 'frame::Error', lambda l: isinstance(l, frozenset) and l <= frozenset(['InvalidDependencyId', 'MalformedMessage']) and len(l) > 0)
        r.check(bool(edges) and f.dominated_by_edges(bi, edges), 'stream-error|%d' % f.line_of(bi), f.loc(bi), 'library_reset in decode_frame only for frame::Error::{InvalidDependencyId, MalformedMessage}')
    r.floor(len(resets), 5, 'stream-error sites in decode_frame (HEADERS, PUSH_PROMISE x2 each, PRIORITY, CONTINUATION)')
    # MalformedMessage never becomes a connection error and never Ok: each load_hpack call site has an edge MalformedMessage -> library_reset
    lh = [(bi, t) for bi, t in d.calls(lambda t: t['fn'].endswith('::load_hpack'))]
    r.floor(len(lh), 3, 'load_hpack call sites (HEADERS, PUSH_PROMISE, CONTINUATION)')
    sigs = []
    for bi, t in lh:
        edges = [e for e in core.edges_where(F, d, lambda sw: sw.kind == 'variant' and sw.adt == 'frame::Error' and any(x[0] == 'call' and x[3] == bi for x in walk(sw.subject)), lambda l: True)]
        labels = set()
        for (a, b) in edges:
            sw = core.resolve_switch(F, d, a)
            lab = sw.labels.get(b)
            reach = d.reachable([b])
            ctors = set()
            for bb in reach:
                tt = d.blocks[bb]['t']
                if tt['k'] == 'call' and tt['fn'].startswith('proto::error::Error::library_'):
                    ctors.add(tt['fn'].split('::')[-1])
            labels.add((tuple(sorted(lab)) if lab else (), tuple(sorted(ctors))))
        mm = [c for l, c in labels if l == ('MalformedMessage',)]
        wl = [c for l, c in labels if l == ('HeaderListWayTooLarge',)]
        r.check(mm == [('library_reset',)], 'malformed|%s' % t['fn'].split('::')[-2], d.loc(bi), 'MalformedMessage from %s -> %s (must be exactly a stream reset)' % (t['fn'].split('::')[-2], mm))
        r.check(wl == [('library_go_away_data',)], 'way-too-large|%s' % t['fn'].split('::')[-2], d.loc(bi), 'HeaderListWayTooLarge -> %s' % wl)
        sigs.append(tuple(sorted(x for x in labels if x[0] in (('MalformedMessage',), ('HeaderListWayTooLarge',)))))
    r.check(len(set(sigs)) == 1, 'siblings|load_hpack', d.file, 'the %d load_hpack arms map errors identically' % len(sigs))


def r4_idle_vs_closed(ctx):
    r = ctx.rule('C09.R4', 'PASS', 'frames for unknown streams: idle is a connection error, closed is tolerated; unsent-HEADERS streams count as idle')
    F = ctx.facts
    for fname, need in ((INNER + 'recv_reset', P + 'streams::Actions::ensure_not_idle'), (INNER + 'recv_window_update', P + 'streams::Actions::ensure_not_idle'),
                        (INNER + 'recv_data', P + 'streams::Actions::may_have_forgotten_stream'), (INNER + 'recv_headers', P + 'recv::Recv::open')):
        f = r.fn(fname)
        if not f:
            continue
        cs = f.calls_to(need)
        r.check(bool(cs), 'not-found|%s' % fname.split('::')[-1], f.file, '%s consults %s on the stream-not-found branch' % (fname.split('::')[-1], need.split('::')[-1]))
    # (DATA needs no such test: a stream whose HEADERS are unsent is never is_recv_streaming, so Recv::recv_data
    #  already answers with a connection error — C09.R1 rows for Open(_,AwaitingHeaders) / HalfClosedLocal(AwaitingHeaders))
    for fname in (INNER + 'recv_reset', INNER + 'recv_window_update', INNER + 'recv_headers'):
        f = F.fn(fname)
        if not f:
            continue
        fns = [f] + [F.fns[c] for c in F.reach_from([fname]) if c.startswith(fname + '::{closure') and c in F.fns]
        ok = False
        for g in fns:
            edges = core.edges_where(F, g, lambda sw: sw.kind == 'bool' and mentions_field(sw.subject, P + 'stream::Stream', 'is_pending_open'), lambda l: l is True)
            for (a, b) in edges:
                if _err_only_region(g, b) or any(g.blocks[x]['t']['k'] == 'call' and g.blocks[x]['t']['fn'].startswith('proto::error::Error::library_go_away') for x in g.reachable([b]) if x != a):
                    ok = True
        r.check(ok, 'pending-open-is-idle|%s' % fname.split('::')[-1], f.file, '%s treats a stream whose HEADERS are unsent (is_pending_open) as idle: connection error (0.4.15)' % fname.split('::')[-1])
    op = r.fn(P + 'recv::Recv::open')
    if op:
        r.check(bool(op.calls_to('proto::peer::Dyn::ensure_can_open')), 'open|parity', op.file, 'Recv::open checks who may open this id (ensure_can_open)')
        cmp_ = [sw for bi, sw in core.all_switches(F, op).items() if any(x[0] == 'call' and x[1] == P + 'recv::Recv::next_stream_id' for x in walk(sw.subject))]
        r.check(bool(cmp_), 'open|monotone', op.file, 'Recv::open compares the id with next_stream_id (ids must increase)')


def r5_tolerance(ctx):
    r = ctx.rule('C09.R5', 'TABLE', 'tolerance: unknown frame types / settings ignored; late frames on closed or locally reset streams are not errors')
    F = ctx.facts
    d = r.fn(DF)
    if d:
        arm = core.edges_where(F, d, lambda sw: sw.kind == 'variant' and sw.adt == 'frame::head::Kind', lambda l: l == frozenset(['Unknown']))
        ok = bool(arm)
        for (a, b) in arm:
            reach = d.reachable([b])
            for x in reach:
                t = d.blocks[x]['t']
                if t['k'] == 'call' and t['fn'].startswith('proto::error::Error::'):
                    ok = False
            nones = [1 for x in reach for s in d.blocks[x]['s'] if s[1][0] == 'aggr' and s[1][2].endswith('Option::None')]
            if not nones:
                ok = False
        r.check(ok, 'unknown-frame', d.file, 'Kind::Unknown -> Ok(None) with no error constructor')
    sl = r.fn('frame::settings::Settings::load')
    if sl:
        edges = core.edges_where(F, sl, lambda sw: sw.kind == 'variant' and sw.adt == 'std::option::Option' and any(x[0] == 'call' and x[1] == 'frame::settings::Setting::load' for x in walk(sw.subject)), lambda l: l == frozenset(['None']))
        ok = bool(edges)
        for (a, b) in edges:
            # the None edge continues the loop: it must not lead *only* to an error
            if _err_only_region(sl, b):
                ok = False
        r.check(ok, 'unknown-setting', sl.file, 'an unknown setting id (Setting::load = None) is skipped')
    for fname in (INNER + 'recv_window_update', INNER + 'recv_reset'):
        f = F.fn(fname)
        if f:
            # stream not found: Ok after ensure_not_idle
            en = [bi for bi, t in f.calls_to(P + 'streams::Actions::ensure_not_idle')]
            ok = bool(en)
            for e in en:
                reach = f.reachable(f.succ[e])
                oks = [1 for x in reach for s in f.blocks[x]['s'] if s[0] == [0] and s[1][0] == 'aggr' and s[1][2].endswith('Result::Ok')]
                if not oks:
                    ok = False
            r.check(ok, 'closed-stream-ok|%s' % fname.split('::')[-1], f.file, '%s on a closed (forgotten, not idle) stream returns Ok' % fname.split('::')[-1])
    rd = F.fn(P + 'recv::Recv::recv_data')
    if rd:
        ile = core.guard_edges(F, rd, [P + 'state::State::is_local_error'], lambda l: l is True or l is False)
        ign = [bi for bi, t in rd.calls_to(P + 'recv::Recv::ignore_data')]
        r.check(bool(ile) and bool(ign), 'late-data-after-local-reset', rd.file, 'DATA on a locally reset stream is ignored (flow-control accounted), not an error')
    # PRIORITY is accepted anywhere: the handler arm calls nothing fallible
    rf = F.fn('proto::connection::DynConnection::recv_frame')
    if rf:
        arm = core.edges_where(F, rf, lambda sw: sw.kind == 'variant' and sw.adt == 'frame::Frame', lambda l: l == frozenset(['Priority']))
        ok = bool(arm)
        for (a, b) in arm:
            # until the arms merge again: no h2 call other than tracing
            cur = b
            for _ in range(40):
                t = rf.blocks[cur]['t']
                if t['k'] == 'call' and not t['exp'] and t['fn'].startswith('proto::'):
                    ok = False
                if len(rf.succ[cur]) != 1 or len(rf.pred[rf.succ[cur][0]]) > 1:
                    break
                cur = rf.succ[cur][0]
        r.check(ok, 'priority-anywhere', rf.file, 'PRIORITY frames are accepted in any state (no handler that could fail)')


def r7_stream_error_becomes_rst(ctx):
    r = ctx.rule('C09.R7', 'PASS', 'a locally detected stream error always becomes a RST_STREAM (only remote-initiated resets are swallowed)')
    F = ctx.facts
    f = r.fn('proto::connection::DynConnection::handle_poll2_result')
    if f:
        sr = [bi for bi, t in f.calls_to(P + 'streams::DynStreams::send_reset')]
        r.floor(len(sr), 1, 'send_reset site in handle_poll2_result')
        arm = core.edges_where(F, f, lambda sw: sw.kind == 'variant' and sw.adt == 'proto::error::Error', lambda l: l == frozenset(['Reset']))
        ok = bool(arm) and bool(sr)
        rem = core.edges_where(F, f, lambda sw: (sw.kind == 'variant' and sw.adt == 'proto::error::Initiator') or
                               (sw.kind == 'bool' and any(x[0] == 'call' and ('Initiator' in x[1]) for x in walk(sw.subject))), lambda l: True)
        for (a, b) in arm:
            # from the Reset arm, every path to a return passes send_reset unless it crossed an initiator test
            reach = f.reachable([b], cut_blocks=sr, cut_edges=rem)
            if any(x in reach for x in f.returns()):
                ok = False
        r.check(ok and bool(rem), 'reset-arm', f.file, 'Error::Reset: every path returns through DynStreams::send_reset unless an Initiator test diverted it')
        # quota failure of send_reset -> handle_go_away
        hg = [bi for bi, t in f.calls_to('proto::connection::DynConnection::handle_go_away')]
        ok2 = False
        for s in sr:
            edges = core.edges_where(F, f, lambda sw: sw.kind == 'variant' and any(x[0] == 'call' and x[3] == s for x in walk(sw.subject)), lambda l: isinstance(l, frozenset) and 'Err' in l)
            for (a, b) in edges:
                if any(h in f.reachable([b]) for h in hg):
                    ok2 = True
        r.check(ok2, 'reset-quota', f.file, 'a refused library reset (too many) escalates to handle_go_away (0.4.15)')


_ORD = {'Lt': {'lt'}, 'Le': {'lt', 'eq'}, 'Gt': {'gt'}, 'Ge': {'gt', 'eq'}, 'Eq': {'eq'}, 'Ne': {'lt', 'gt'}}
_ALL = {'lt', 'eq', 'gt'}
_FLIP = {'lt': 'gt', 'gt': 'lt', 'eq': 'eq'}


def id_boundary_edges(F, f, owner):
    """switch edges that compare the stream-id argument with next_stream_id: [(bi, succ, orderings of id vs next)]"""
    def is_next(e):
        return mentions_field(e, owner, 'next_stream_id') or any(x[0] == 'call' and x[1].endswith('::next_stream_id') for x in walk(e))

    def is_id(e):
        e = strip(e)
        return e[0] == 'arg' and e[1] == 2
    out = []
    for bi, sw in core.all_switches(F, f).items():
        c = core.cmp_of(sw)
        if c is None:
            continue
        op, a, b = c
        if is_id(a) and is_next(b):
            flip = False
        elif is_id(b) and is_next(a):
            flip = True
        else:
            continue
        for s2, lab in sw.labels.items():
            if lab is None:
                continue
            o = set(_ORD[op]) if lab else _ALL - _ORD[op]
            if flip:
                o = {_FLIP[x] for x in o}
            out.append((bi, s2, frozenset(o)))
    return out


def r8_idle_boundary(ctx, rid='C09.R8'):
    r = ctx.rule(rid, 'TABLE', 'one idle boundary: every comparison of a stream id with next_stream_id splits at id < next (may exist) / id >= next (idle), and the actions sit on the right side')
    F = ctx.facts
    n = 0
    for owner, side in ((P + 'recv::Recv', 'recv'), (P + 'send::Send', 'send')):
        fns = ['ensure_not_idle', 'may_have_created_stream', 'maybe_reset_next_stream_id'] + (['open'] if side == 'recv' else [])
        for fname in fns:
            f = r.fn(owner + '::' + fname)
            if not f:
                continue
            edges = id_boundary_edges(F, f, owner)
            if fname == 'may_have_created_stream' and not edges:
                # returns the comparison itself
                e = None
                for bi, si, pl, rv, ln in f.stmts():
                    if pl == [0]:
                        e = f.expr_of_rvalue(rv)
                for bi, t in f.calls():
                    if t['d'] == [0]:
                        e = ('call', t['fn'], tuple(f.expr_of_op(a) for a in t['a']), bi)
                ok = False
                if e is not None:
                    for x in walk(e):
                        if x[0] == 'call' and x[1].rsplit('::', 1)[-1] == 'lt' and len(x[2]) == 2 and strip(x[2][0]) == ('arg', 2) and mentions_field(x[2][1], owner, 'next_stream_id'):
                            ok = True
                        if x[0] == 'bin' and x[1] == 'Lt' and strip(x[2]) == ('arg', 2) and mentions_field(x[3], owner, 'next_stream_id'):
                            ok = True
                n += 1
                r.check(ok, 'boundary|%s|%s' % (side, fname), f.file, '%s::may_have_created_stream returns id < next_stream_id' % side)
                continue
            r.check(bool(edges), 'boundary|%s|%s|compares' % (side, fname), f.file, '%s compares the id with next_stream_id' % fname)
            for bi, s2, o in edges:
                n += 1
                good = o in (frozenset(['lt']), frozenset(['eq', 'gt']))
                r.check(good, 'boundary|%s|%s|%s' % (side, fname, '+'.join(sorted(o))), f.loc(bi),
                        '%s::%s branches on id {%s} next_stream_id%s' % (side, fname, ','.join(sorted(o)), '' if good else ' — the boundary is id < next / id >= next everywhere else; an off-by-one here lets an identifier be re-used or a legal late frame be treated as idle'))
            ge = [(bi, s2) for bi, s2, o in edges if o == frozenset(['eq', 'gt'])]
            lt = [(bi, s2) for bi, s2, o in edges if o == frozenset(['lt'])]
            if fname in ('maybe_reset_next_stream_id', 'open'):
                ws = [(bi, ln) for bi, si, pl, rv, ln in f.stmts() if core.write_target(f, pl) == (owner, 'next_stream_id')]
                r.check(bool(ws) and bool(ge) and all(f.dominated_by_edges(bi, ge) for bi, ln in ws), 'advance|%s|%s' % (side, fname), f.file,
                        'next_stream_id is advanced exactly when id >= next_stream_id')
                for bi, ln in ws:
                    st = [x for x in f.blocks[bi]['s'] if core.write_target(f, x[0]) == (owner, 'next_stream_id')]
                    e = f.expr_of_rvalue(st[0][1]) if st else ('unknown',)
                    r.check(core.contains_call(e, 'frame::stream_id::StreamId::next_id') and any(x == ('arg', 2) for x in walk(e)), 'advance|%s|%s|value' % (side, fname), '%s:%d' % (f.file, ln), 'next_stream_id = %s' % core.show(e))
            if fname == 'ensure_not_idle':
                errs = [bi for bi, si, pl, rv, ln in f.stmts() if pl == [0] and rv[0] == 'aggr' and rv[2].endswith('Result::Err')]
                r.check(bool(errs) and bool(ge) and all(f.dominated_by_edges(b, ge) for b in errs), 'idle|%s|err-side' % side, f.file, 'ensure_not_idle fails exactly for id >= next_stream_id')
            if fname == 'open':
                gos = [bi for bi, t in f.calls(lambda t: t['fn'].startswith('proto::error::Error::library_go_away'))]
                r.check(bool(lt) and any(f.dominated_by_edges(b, lt) for b in gos), 'open|reuse-is-conn-error', f.file, 'an id below next_stream_id on HEADERS is a connection error (identifier re-use)')
    r.floor(n, 12, 'boundary comparison edges')


def r9_conn_error_goaway(ctx, rid='C09.R9'):
    r = ctx.rule(rid, 'PASS', 'a connection error always yields a GOAWAY carrying its code: the only short-cut is a GOAWAY with the same reason already in flight')
    F = ctx.facts
    CONN = 'proto::connection::'
    hg = r.fn(CONN + 'DynConnection::handle_go_away')
    if not hg:
        return
    ga = core.guard_edges(F, hg, ['proto::go_away::GoAway::going_away', 'proto::go_away::GoAway::is_going_away'], lambda l: l is True or l == frozenset(['Some']))
    now = [bi for bi, t in hg.calls(lambda t: t['fn'] in (CONN + 'DynConnection::go_away_now_data', CONN + 'DynConnection::go_away_now', 'proto::go_away::GoAway::go_away_now'))]
    he = [bi for bi, t in hg.calls_to(P + 'streams::DynStreams::handle_error')]
    r.check(bool(now), 'goaway|sent', hg.file, 'handle_go_away queues a GOAWAY (go_away_now_data)')
    reach = hg.reachable([0], cut_blocks=now, cut_edges=ga)
    r.check(bool(now) and not any(x in reach for x in hg.returns()), 'goaway|all-paths', hg.file, 'every path through handle_go_away that does not take the already-going-away edge queues the GOAWAY')
    reach = hg.reachable([0], cut_blocks=he, cut_edges=ga)
    r.check(bool(he) and not any(x in reach for x in hg.returns()), 'streams|all-paths', hg.file, 'and fails every in-flight stream with the error')
    # the short-cut compares the reason of the GOAWAY in flight with the reason of this error
    fns = [hg] + [F.fns[c] for c in F.reach_from([hg.name]) if c.startswith(hg.name + '::{closure') and c in F.fns]
    compares = False
    for g in fns:
        for bi, t in g.calls(lambda t: t['fn'].rsplit('::', 1)[-1] in ('eq', 'ne') and 'Reason' in t['fn']):
            es = [g.expr_of_op(a) for a in t['a']]
            if any(core.contains_call(e, 'proto::go_away::GoingAway::reason') or mentions_field(e, 'proto::go_away::GoingAway', 'reason') for e in es):
                compares = True
    r.check((not ga) or compares, 'shortcut|same-reason', hg.file,
            'the already-going-away short-cut %s' % ('is taken only when the GOAWAY in flight carries the same reason' if compares or not ga else
                                                      'ignores the reason: after any GOAWAY (e.g. the NO_ERROR ones of a graceful shutdown) a later connection error closes the connection without a GOAWAY carrying its code and without failing the streams'))
    # GoAway::go_away_now de-duplicates only an identical GOAWAY: same last-stream-id AND same reason
    gn = r.fn('proto::go_away::GoAway::go_away_now')
    if gn:
        GA = 'proto::go_away::GoingAway'
        sends = [bi for bi, t in gn.calls_to('proto::go_away::GoAway::go_away')]

        def eq_edges(field):
            out = []
            for bi, sw in core.all_switches(F, gn).items():
                if sw is None:
                    continue
                c = core.cmp_of(sw)
                if c is None or c[0] not in ('Eq', 'Ne'):
                    continue
                if not (mentions_field(c[1], GA, field) or mentions_field(c[2], GA, field)):
                    continue
                for s2, lab in sw.labels.items():
                    if lab is not None and (lab is True) == (c[0] == 'Eq'):
                        out.append((bi, s2))
            return out
        r.check(bool(sends), 'dedup|sends', gn.file, 'go_away_now forwards to go_away')
        for field in ('reason', 'last_processed_id'):
            ee = eq_edges(field)
            reach = gn.reachable([0], cut_blocks=sends, cut_edges=ee)
            skip = [x for x in gn.returns() if x in reach]
            r.check(bool(ee) and not skip, 'dedup|same-%s' % field, gn.file,
                    'go_away_now drops a GOAWAY as a duplicate only when its %s equals the one in flight%s' % (field, '' if ee and not skip else
                    ' — an error GOAWAY with the same last-stream-id as an earlier NO_ERROR one is swallowed: the connection closes without announcing the error code'))
    # the GOAWAY carries the reason argument
    for bi in now:
        t = hg.term(bi)
        r.check(any(strip(hg.expr_of_op(a)) == ('arg', 2) for a in t['a']), 'goaway|reason', hg.loc(bi), 'the GOAWAY is built from the reason of the error')


def run(ctx):
    r8_idle_boundary(ctx)
    r9_conn_error_goaway(ctx)
    r1_tstate(ctx)
    r2_error_class(ctx)
    r3_polarity(ctx)
    r4_idle_vs_closed(ctx)
    r5_tolerance(ctx)
    r7_stream_error_becomes_rst(ctx)


_run_rules = run


def run(ctx):
    _run_rules(ctx)
    from .. import boundaries
    boundaries.check(ctx, 'C09.RB', 'C09')
    from . import C17
    C17.r10_remember_after_reset(ctx, 'C09.R11')
    boundaries.check_inits(ctx, 'C09.RI', 'C09')
    boundaries.check_codes(ctx, 'C09.RE', 'C09')
    boundaries.check_writes(ctx, 'C09.RW', 'C09')
    from . import C14
    C14.r7_no_loss(ctx, 'C09.R10', C14.GOAWAY_SLOT, floor=3)  # a GOAWAY that is due is never dropped under write back-pressure
    boundaries.check_guards(ctx, 'C09.RG', 'C09')
    boundaries.check_calls(ctx, 'C09.RC', 'C09')
    boundaries.check_amounts(ctx, 'C09.RA', 'C09')
    from .. import errdisc
    errdisc.check(ctx, 'C09.RD', 'C09', 77)
    from .. import tables
    r12 = ctx.rule('C09.R12', 'TABLE', 'stream identifier parity predicates (client = odd, server = even non-zero, zero) agree with RFC 9113 5.1.1 (= C04.R9)')
    tables.stream_id_predicates(r12, ctx.facts)
    r13 = ctx.rule('C09.R13', 'TABLE', 'frame flag predicates agree with the RFC 9113 flag bits on all 256 flag octets (= C12.R11)')
    tables.flag_predicates(r13, ctx.facts)
    from .. import boundaries as _b
    _b.check_predicates(ctx, 'C09.RP', 'C09')
    from .. import boundaries as _b
    _b.check_updates(ctx, 'C09.RU', 'C09')
    from .. import boundaries as _b
    _b.check_counts(ctx, 'C09.RQ', 'C09')


def r14_preface(ctx, rid='C09.R14'):
    """the server side of the connection preface (RFC 9113 section 3.4)"""
    from .. import boundaries as _b
    r = ctx.rule(rid, 'GUARD', 'the server reads on only while the octets received equal the client connection preface: a mismatch is a connection error PROTOCOL_ERROR and the position advances only on a match (RFC 9113 section 3.4)')
    F = ctx.facts
    f = r.fn('<server::ReadPreface as futures_core::Future>::poll')
    if not f:
        return r
    differ, same = [], []
    for bi, sw in core.all_switches(F, f).items():
        if sw.kind != 'bool':
            continue
        calls = [x[1] for x in core.walk(sw.subject) if x[0] == 'call']
        if not any('ReadBuf::filled' in c for c in calls):
            continue
        ne = any('PartialEq' in c and c.endswith('::ne') for c in calls)
        eq = any('PartialEq' in c and c.endswith('::eq') for c in calls)
        if ne == eq:
            continue
        for s2, lab in sw.labels.items():
            if lab is None:
                continue
            (differ if (lab is True) == ne else same).append((bi, s2))
    if not differ or not same:
        r.ok('preface|compare', f.file, 'no slice comparison of the received octets found in this shape -- not compared')
        return r
    errs = [bi for bi, k in _b.error_kind_sites(F, f) if k == 'library_go_away:1']
    adv = sorted(set(bi for bi, si, pl, rv, ln in f.stmts() if core.write_target(f, pl) == ('server::ReadPreface', 'pos')))
    r.check(bool(errs) and all(f.dominated_by_edges(e, differ) for e in errs), 'preface|mismatch-is-error', f.file,
            'GOAWAY(PROTOCOL_ERROR) is raised exactly on the side where the received octets differ from the preface (%d site(s))' % len(errs))
    r.check(bool(adv) and all(f.dominated_by_edges(a, same) for a in adv), 'preface|advance-on-match', f.file,
            'the read position advances only after the octets compared equal (%d write(s))' % len(adv))
    return r


_run_r13 = run


def run(ctx):
    _run_r13(ctx)
    r14_preface(ctx)
