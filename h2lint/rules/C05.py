"""C05 — concurrent-stream limits are honoured in both directions and slots are recycled."""
from .. import core
from ..core import strip, walk, has_field, mentions_field

EXPLANATION = (
    "Decides: (R1) every increment of a concurrency counter is dominated, in its own function, by the true edge of the "
    "matching can_inc_* limit test (so the counter never passes the limit and the assert in inc_* is unreachable); (R2) one "
    "decrement per counted stream: dec_num_streams only from transition_after behind a read of Stream.is_counted, both "
    "arms clear the flag, both increments set it, and the increment in Recv::recv_headers is additionally guarded by "
    "!is_counted; (R3) transition discipline: every entry point that can change a stream towards closed runs "
    "Counts::transition_after on every path (interprocedural dirty/clean summary), which is what frees the slot; (R4) an "
    "over-limit peer stream is refused: Recv::open returns Some(id) only on the can_inc edge, stores the refusal otherwise, "
    "and callers insert nothing on None. That waiting requests are sent 'as soon as' a slot frees is NOT decided."
)
NOT_DECIDED = "that waiting requests are sent as soon as a slot frees (scheduling); the count on the wire as a number"

P = 'proto::streams::'
COUNTS = P + 'counts::Counts'
STREAM = P + 'stream::Stream'

GUARDED = [
    # (increment, guard)
    (COUNTS + '::inc_num_send_streams', COUNTS + '::can_inc_num_send_streams'),
    (COUNTS + '::inc_num_recv_streams', COUNTS + '::can_inc_num_recv_streams'),
]
ABUSE = [
    (COUNTS + '::inc_num_reset_streams', COUNTS + '::can_inc_num_reset_streams'),
    (COUNTS + '::inc_num_remote_reset_streams', COUNTS + '::can_inc_num_remote_reset_streams'),
    (COUNTS + '::inc_num_local_error_resets', COUNTS + '::can_inc_num_local_error_resets'),
]


def guarded_increments(ctx, rid, text, pairs, floor):
    r = ctx.rule(rid, 'GUARD', text)
    F = ctx.facts
    n = 0
    for inc, guard in pairs:
        for name, f in sorted(F.fns.items()):
            if '::tests::' in name or name.startswith(COUNTS + '::'):
                continue
            for bi, t in f.calls_to(inc):
                n += 1
                edges = core.guard_edges(F, f, [guard], lambda l: l is True)
                ok = bool(edges) and f.dominated_by_edges(bi, edges)
                key = 'inc|%s|%s' % (inc.split('::')[-1], name)
                r.check(ok, key, f.loc(bi),
                        '%s in %s is %s' % (inc.split('::')[-1], core.short(name),
                                            'dominated by the true edge of %s' % guard.split('::')[-1] if ok else
                                            'NOT dominated by %s in the same function: the limit can be exceeded and assert!(%s) in %s is reachable' % (guard.split('::')[-1], guard.split('::')[-1], inc.split('::')[-1])),
                        witness=core.compress_path(f, f.path_between(0, bi, cut_edges=edges) or []) if not ok else None)
    r.floor(n, floor, 'increment call sites')
    return r


def r2_single_decrement(ctx):
    r = ctx.rule('C05.R2', 'PAIR', 'one decrement per counted stream (is_counted discipline)')
    F = ctx.facts
    dec = COUNTS + '::dec_num_streams'
    callers = sorted(F.rcg.get(dec, ()))
    r.check(callers == [COUNTS + '::transition_after'], 'who|dec_num_streams', '', 'callers of dec_num_streams: %s' % callers)
    ta = r.fn(COUNTS + '::transition_after')
    if ta:
        for bi, t in ta.calls_to(dec):
            edges = core.edges_where(F, ta, lambda sw: sw.kind == 'bool' and mentions_field(sw.subject, STREAM, 'is_counted'), lambda l: l is True)
            r.check(bool(edges) and ta.dominated_by_edges(bi, edges), 'guard|dec_num_streams', ta.loc(bi), 'dec_num_streams is dominated by the true edge of a read of Stream.is_counted')
            ce = core.guard_edges(F, ta, [STREAM + '::is_closed'], lambda l: l is True)
            r.check(bool(ce) and ta.dominated_by_edges(bi, ce), 'guard|dec_num_streams|closed', ta.loc(bi), 'dec_num_streams only for a closed stream')
    d = r.fn(dec)
    if d:
        # every path to a return writes is_counted = false and decrements exactly one counter
        ws = [(bi, rv) for bi, si, pl, rv, ln in d.stmts() if core.place_fields(pl)[-1:] == [(STREAM, 'is_counted')]]
        okw = bool(ws) and all(core.op_const(rv[1]) and core.op_const(rv[1])[0] == 0 for bi, rv in ws if rv[0] == 'use')
        wb = [bi for bi, rv in ws]
        reach = d.reachable([0], cut_blocks=wb)
        r.check(okw and not any(x in reach and x not in wb for x in d.returns()), 'dec|clears-flag', d.file, 'every path through dec_num_streams stores is_counted = false')
    for inc in (COUNTS + '::inc_num_send_streams', COUNTS + '::inc_num_recv_streams'):
        f = r.fn(inc)
        if f:
            ws = [(bi, rv) for bi, si, pl, rv, ln in f.stmts() if core.place_fields(pl)[-1:] == [(STREAM, 'is_counted')]]
            okw = bool(ws) and all(rv[0] == 'use' and core.op_const(rv[1]) and core.op_const(rv[1])[0] == 1 for bi, rv in ws)
            wb = [bi for bi, rv in ws]
            reach = f.reachable([0], cut_blocks=wb)
            r.check(okw and not any(x in reach and x not in wb for x in f.returns()), 'inc|sets-flag|' + inc.split('::')[-1], f.file, '%s stores is_counted = true on every path' % inc.split('::')[-1])
    rh = r.fn(P + 'recv::Recv::recv_headers')
    if rh:
        for bi, t in rh.calls_to(COUNTS + '::inc_num_recv_streams'):
            edges = core.edges_where(F, rh, lambda sw: sw.kind == 'bool' and mentions_field(sw.subject, STREAM, 'is_counted'), lambda l: l is False)
            r.check(bool(edges) and rh.dominated_by_edges(bi, edges), 'recv_headers|not-yet-counted', rh.loc(bi),
                    'the increment in Recv::recv_headers is dominated by !stream.is_counted (interim 1xx responses on a pushed stream report is_initial again; 0.4.16 double count)')


def r4_refusal(ctx, rid='C05.R4'):
    r = ctx.rule(rid, 'GUARD', 'over-limit peer streams are refused: no Some(id) without the limit test, refusal recorded, nothing inserted on None')
    F = ctx.facts
    op = r.fn(P + 'recv::Recv::open')
    if op:
        edges_t = core.guard_edges(F, op, [COUNTS + '::can_inc_num_recv_streams'], lambda l: l is True)
        edges_f = core.guard_edges(F, op, [COUNTS + '::can_inc_num_recv_streams'], lambda l: l is False)
        returned = set(core.op_local(rv[3][0]) for bi, si, pl, rv, ln in op.stmts() if pl == [0] and rv[0] == 'aggr' and rv[2].endswith('Result::Ok') and rv[3])
        somes = [bi for bi, si, pl, rv, ln in op.stmts() if rv[0] == 'aggr' and rv[2].endswith('Option::Some') and len(pl) == 1 and pl[0] in returned]
        r.check(bool(somes) and bool(edges_t) and all(op.dominated_by_edges(s, edges_t) for s in somes), 'open|some-guarded', op.file, 'Recv::open builds Some(id) only on the can_inc_num_recv_streams() edge')
        ws = [bi for bi, si, pl, rv, ln in op.stmts() if core.place_fields(pl)[-1:] == [(P + 'recv::Recv', 'refused')]]
        ok = bool(ws) and bool(edges_f)
        for (a, b) in edges_f:
            reach = op.reachable([b], cut_blocks=ws)
            if any(x in reach for x in op.returns()):
                ok = False
        r.check(ok, 'open|refusal-recorded', op.file, 'on the over-limit edge Recv.refused is stored before returning')
        # the id boundary is advanced before the limit test (a refused stream is not idle any more)
        nid = [bi for bi, si, pl, rv, ln in op.stmts() if core.place_fields(pl)[-1:] == [(P + 'recv::Recv', 'next_stream_id')]]
        guards = [bi for bi, t in op.calls_to(COUNTS + '::can_inc_num_recv_streams')]
        r.check(bool(nid) and all(op.dominated_by_blocks(g, nid) for g in guards), 'open|next-id-first', op.file, 'next_stream_id is advanced before the limit test')
    # callers: insert only on Some
    for c in sorted(F.rcg.get(P + 'recv::Recv::open', ())):
        cf = F.fns.get(c)
        if not cf or '::tests::' in c:
            continue
        ins = [bi for bi, t in cf.calls(lambda t: t['fn'] in (P + 'store::VacantEntry::insert', P + 'store::Store::insert'))]
        if not ins:
            r.ok('caller|%s|no-insert' % c, cf.file, 'no insertion in %s' % c)
            continue
        edges = core.guard_edges(F, cf, [P + 'recv::Recv::open'], lambda l: isinstance(l, frozenset) and l == frozenset(['Some']))
        for i in ins:
            # only insertions reachable after the open call matter
            opens = [bi for bi, t in cf.calls_to(P + 'recv::Recv::open')]
            after = any(i in cf.reachable(cf.succ[o]) for o in opens)
            if not after:
                continue
            r.check(bool(edges) and cf.dominated_by_edges(i, edges, extra_cut_blocks=[]) or not _reach_without(cf, opens, i, edges), 'caller|%s|insert-on-some' % c, cf.loc(i),
                    'the stream is inserted only on the Some(id) edge of Recv::open')


def _reach_without(f, starts, target, edges):
    for s in starts:
        if target in f.reachable(f.succ[s], cut_edges=edges):
            return True
    return False


def r5_promotion_counts(ctx):
    r = ctx.rule('C05.R5', 'PASS', 'every stream promoted from pending_open takes a concurrency slot (counted before its HEADERS can be sent)')
    F = ctx.facts
    f = r.fn(P + 'prioritize::Prioritize::pop_pending_open')
    if not f:
        return
    pops = [bi for bi, t in f.calls(lambda t: t['fn'] == P + 'store::Queue::pop' and t['ga'] and t['ga'][0].endswith('NextOpen'))]
    incs = [bi for bi, t in f.calls_to(COUNTS + '::inc_num_send_streams')]
    r.floor(len(pops), 1, 'pending_open.pop site')
    some = core.guard_edges(F, f, [P + 'store::Queue::pop'], lambda l: l == frozenset(['Some']))
    ok = bool(incs) and bool(some)
    wit = None
    for (a, b) in some:
        reach = f.reachable([b], cut_blocks=incs)
        leak = [x for x in f.returns() if x in reach]
        if leak:
            ok = False
            wit = core.compress_path(f, f.path_between(b, leak[0], cut_blocks=incs) or [])
    r.check(ok, 'promoted-is-counted', f.file, 'every path from pending_open.pop() == Some to a return passes inc_num_send_streams' if ok else
            'a stream can leave pending_open without inc_num_send_streams: its queued HEADERS are sent although it holds no slot, so more streams than SETTINGS_MAX_CONCURRENT_STREAMS reach the wire', witness=wit)
    # and the promotion itself is behind the limit test (C05.R1) in the same function
    e = core.guard_edges(F, f, [COUNTS + '::can_inc_num_send_streams'], lambda l: l is True)
    r.check(bool(e) and all(f.dominated_by_edges(p, e) for p in pops), 'pop-behind-limit', f.file, 'pending_open is popped only while can_inc_num_send_streams()')


def r6_open_queue_membership(ctx):
    r = ctx.rule('C05.R6', 'GUARD', 'every locally initiated stream whose HEADERS are queued goes through pending_open unless its PUSH_PROMISE is still queued (which hands it over)')
    F = ctx.facts
    f = r.fn(P + 'send::Send::send_headers')
    if not f:
        return
    qo = [bi for bi, t in f.calls_to(P + 'prioritize::Prioritize::queue_open')]
    qf = [bi for bi, t in f.calls_to(P + 'prioritize::Prioritize::queue_frame')]
    r.floor(len(qo), 1, 'queue_open site in Send::send_headers')
    li_t = core.guard_edges(F, f, ['proto::peer::Dyn::is_local_init'], lambda l: l is True)
    pp_f = core.edges_where(F, f, lambda sw: sw.kind == 'bool' and mentions_field(sw.subject, STREAM, 'is_pending_push'), lambda l: l is False)
    ok = bool(li_t) and bool(pp_f) and all(f.dominated_by_edges(q, li_t) and f.dominated_by_edges(q, pp_f) for q in qo)
    r.check(ok, 'queue_open|condition', f.file, 'queue_open is executed exactly under is_local_init(id) && !stream.is_pending_push' if ok else
            'the condition under which Send::send_headers queues a stream on pending_open is not is_local_init && !is_pending_push: a locally initiated (e.g. pushed) stream can send its HEADERS without ever being counted against the peer\'s SETTINGS_MAX_CONCURRENT_STREAMS')
    # completeness: from the conjunction every path to queue_frame passes queue_open
    okc = ok
    for (a, b) in pp_f:
        if li_t and f.dominated_by_edges(a, li_t):
            reach = f.reachable([b], cut_blocks=qo)
            if any(q in reach for q in qf):
                okc = False
    r.check(okc, 'queue_open|complete', f.file, 'under that condition no path reaches queue_frame without queue_open')
    # the hand-over: pop_frame's PushPromise arm clears is_pending_push and counts or queues the promised stream
    pf = F.fn(P + 'prioritize::Prioritize::pop_frame')
    if pf:
        arm = core.edges_where(F, pf, lambda sw: sw.kind == 'variant' and sw.adt == 'frame::Frame', lambda l: l == frozenset(['PushPromise']))
        clr = [bi for bi, si, pl, rv, ln in pf.stmts() if core.write_target(pf, pl) == (STREAM, 'is_pending_push')]
        inc = [bi for bi, t in pf.calls_to(COUNTS + '::inc_num_send_streams')]
        qop = [bi for bi, t in pf.calls_to(P + 'prioritize::Prioritize::queue_open')]
        r.check(bool(arm) and bool(clr) and bool(inc) and bool(qop) and all(pf.dominated_by_edges(x, arm) for x in clr + inc + qop), 'handover|push-promise-arm', pf.file,
                'when a PUSH_PROMISE is written the promised stream stops being pending_push and is counted (or queued on pending_open) there')


def run(ctx):
    guarded_increments(ctx, 'C05.R1', 'concurrency counters move only behind their limit check (same function, true edge)', GUARDED, 3)
    r2_single_decrement(ctx)
    r3_transition_discipline(ctx)
    r4_refusal(ctx)
    r5_promotion_counts(ctx)
    r6_open_queue_membership(ctx)


ENTRY_OWNERS = [P + 'streams::Streams::', P + 'streams::StreamRef::', P + 'streams::OpaqueStreamRef::', P + 'streams::DynStreams::',
                '<' + P + 'streams::Streams as std::ops::Drop>::', '<' + P + 'streams::OpaqueStreamRef as std::ops::Drop>::', '<share::RecvStream as std::ops::Drop>::']
R3_EXCEPTIONS = {
    # entry -> (reason); both reach one infeasible path: the `is_closed && is_empty` early return of Send::send_reset reached from
    # Send::recv_stream_window_update, which returns before inc_window for send-closed streams
}


def r3_transition_discipline(ctx, rid='C05.R3', only_event=None, text=None):
    from .. import transition
    r = ctx.rule(rid, 'SUMM', 'transition discipline: no entry point returns with a stream state change that did not pass Counts::transition_after')
    F = ctx.facts
    D = transition.Discipline(F)
    r.stat('candidate_functions', len(D.cands))
    r.stat('fixpoint_iterations', D.iterations)
    entries = sorted(n for n in F.fns if any(n.startswith(o) for o in ENTRY_OWNERS) and 'closure' not in n and '::tests::' not in n)
    entries += [P + 'streams::drop_stream_ref']
    r.floor(len(entries), 60, 'entry points (Streams / StreamRef / OpaqueStreamRef / DynStreams methods and Drop impls)')
    n_dirty_fns = sum(1 for v in D.summ.values() if v)
    r.stat('functions_that_may_return_dirty', n_dirty_fns)
    for (fn, what) in sorted(D.idioms):
        r.exception('idiom|%s' % fn, '%s: %s — the caller holds a Ptr to that stream and transitions it itself' % (core.short(fn), what))
    r.floor(n_dirty_fns, 8, 'helper functions that may return with a pending state change (the rule is live)')
    culprits = {}
    for e in entries:
        if e not in F.fns:
            continue
        if D.summ.get(e):
            fn, ev = D.culprit(e)
            culprits.setdefault((fn, ev), []).append(e)
        else:
            r.ok('entry|' + e, F.fns[e].file, 'no path returns with a pending state change' if e in D.cands else 'no state-changing event reachable')
    for (fn, ev), es in sorted(culprits.items()):
        if only_event and not only_event(F, fn, ev):
            continue
        f = F.fns.get(fn)
        chain = D.explain(es[0])
        r.bad('site|%s|%s' % (fn, ev), f.file if f else '',
              '%s: a path from %s to a return does not pass Counts::transition_after (nor re-queues / puts back): a stream that %s is never '
              'looked at again, so its concurrency slot / store record is not released. Reached from %d entry point(s): %s'
              % (core.short(fn), ev, 'was popped from a connection queue' if 'pop' in ev else 'moved towards closed', len(es), ', '.join(core.short(x) for x in es[:6])),
              witness=chain)


_run_rules = run


def run(ctx):
    _run_rules(ctx)
    from .. import boundaries
    boundaries.check(ctx, 'C05.RB', 'C05')
    boundaries.check_layering(ctx, 'C05.RL')
    from . import C19
    C19.r10_drains_loop(ctx, 'C05.R8')  # slots of unreachable promised streams are all recycled
    boundaries.check_inits(ctx, 'C05.RI', 'C05')
    boundaries.check_codes(ctx, 'C05.RE', 'C05')
    boundaries.check_writes(ctx, 'C05.RW', 'C05')
    boundaries.check_guards(ctx, 'C05.RG', 'C05')
    boundaries.check_calls(ctx, 'C05.RC', 'C05')
    from . import C14
    C14.r7_no_loss(ctx, 'C05.R7', C14.REFUSAL_SLOT, floor=2)
    from .. import boundaries as _b
    _b.check_predicates(ctx, 'C05.RP', 'C05')
    from .. import boundaries as _b
    _b.check_updates(ctx, 'C05.RU', 'C05')
    from .. import tstate
    r9x = ctx.rule('C05.R9', 'TSTATE', 'a received RST_STREAM releases the slot from every state: State::recv_reset, read by abstract interpretation over the 15 reference states x {queued, not queued}, leaves no stream in a state Counts::transition_after refuses to release (a reset of our own that is only scheduled) unless it was really closed already')
    tstate.recv_reset_rows(r9x, ctx.facts)
    from .. import boundaries as _b
    _b.check_counts(ctx, 'C05.RQ', 'C05')
