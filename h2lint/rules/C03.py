"""C03 — receive windows are conserved: never over-credited, never leaked."""
from .. import core
from ..core import strip, walk, has_field, canon

EXPLANATION = (
    "Decides the pairing (double-entry) structure behind receive-window conservation on every path of the MIR: "
    "every connection-window charge in Recv::recv_data is handed to the stream's in-flight ledger, credited back, or "
    "leaves through an error exit whose stream-error case the caller credits (R1,R2); every DATA frame is charged "
    "exactly once and every discarded one credited (R3); the stream and connection in-flight ledgers always move "
    "together by the same value (R4); the amounts are the flow-controlled (padded) length (R5); a WINDOW_UPDATE "
    "increment is taken from unclaimed_capacity and added to the same window exactly once after buffering (R6); "
    "dropping the receive handle or the last reference returns buffered capacity (R7); window arithmetic is checked (R8). "
    "The numeric conservation law over histories is NOT decided."
)
NOT_DECIDED = ("'returns to its configured size' / 'never exceeds what was configured' as numeric facts over histories; "
               "the interaction of apply_local_settings / set_target_connection_window with data already released")

P = 'proto::streams::'
RECV = P + 'recv::Recv::'
RECV_DATA = RECV + 'recv_data'
CONSUME = RECV + 'consume_connection_window'
RELEASE_CONN = RECV + 'release_connection_capacity'
IGNORE = RECV + 'ignore_data'
INNER_RECV_DATA = P + 'streams::Inner::recv_data'
FCLEN = 'frame::data::Data::flow_controlled_len'
PAYLOAD = 'frame::data::Data::payload'
STREAM = P + 'stream::Stream'


def writes_field(fn, owner, field):
    out = []
    for bi, si, pl, rv, ln in fn.stmts():
        fs = core.place_fields(pl)
        if fs and fs[-1][1] == field and (fs[-1][0] == owner):
            out.append((bi, si, pl, rv, ln))
    return out


def derives_from(e, callee):
    return core.contains_call(e, callee)


def r1_charge_credit(ctx):
    r = ctx.rule('C03.R1', 'POST', 'every connection-window charge in Recv::recv_data is handed off, credited, or leaves by an error exit')
    F = ctx.facts
    f = r.fn(RECV_DATA)
    if not f:
        return
    charges = f.calls_to(CONSUME)
    r.floor(len(charges), 1, 'charge sites (consume_connection_window) in Recv::recv_data')
    handoffs = writes_field(f, STREAM, 'in_flight_recv_data')
    r.floor(len(handoffs), 1, 'hand-off sites (Stream.in_flight_recv_data += ..) in Recv::recv_data')
    handoff_sites = set((bi, si) for bi, si, *_ in handoffs)

    # state: 'u' uncharged, 'c' charged-unsettled, 's' settled
    def on_stmt(us, bi, si, pl, rv):
        if (bi, si) in handoff_sites and us == 'c':
            return 's'
        return us

    def on_term(us, bi, t):
        if t['k'] == 'call':
            if t['fn'] == CONSUME:
                return 'c'
            if t['fn'] == RELEASE_CONN and us == 'c':
                return 's'
        return us

    exits, ins, parent = core.scan(f, 'u', on_stmt, on_term)
    n = 0
    for (bi, us, rc, st) in exits:
        n += 1
        ok = us != 'c' or rc.startswith('Err')
        key = 'exit|%s|%s' % ({'u': 'uncharged', 'c': 'charged', 's': 'settled'}[us], rc)
        if ok:
            r.ok(key, f.loc(bi), 'exit state %s, return class %s' % (us, rc))
        else:
            w = core.witness_path(f, parent, bi, st)
            r.bad(key, f.loc(bi),
                  'a path through Recv::recv_data charges the connection window and returns %s without handing the bytes to '
                  'Stream.in_flight_recv_data or releasing them: the connection window leaks' % rc,
                  witness=core.compress_path(f, [x['bb'] for x in w]))
    r.stat('exit_states', n)


def r2_caller_credits(ctx):
    r = ctx.rule('C03.R2', 'GUARD', 'the caller of Recv::recv_data releases the connection window on a stream (Reset) error')
    F = ctx.facts
    callers = sorted(c for c in F.rcg.get(RECV_DATA, ()) if c in F.fns)
    r.floor(len(callers), 1, 'callers of Recv::recv_data')
    for c in callers:
        f = F.fns[c]
        edges = core.edges_where(F, f, lambda sw: sw.kind == 'variant' and sw.adt == 'proto::error::Error',
                                 lambda l: l == frozenset(['Reset']))
        rel = [bi for bi, t in f.calls_to(RELEASE_CONN)]
        sinks = [bi for bi, t in f.calls_to(P + 'streams::Actions::reset_on_recv_stream_err')] or f.returns()
        ok = bool(edges) and bool(rel)
        wit = []
        if ok:
            for (a, b) in edges:
                reach = f.reachable([b], cut_blocks=rel)
                for s in sinks:
                    if s in reach and s not in rel:
                        ok = False
                        wit = core.compress_path(f, f.path_between(b, s, cut_blocks=rel) or [])
            # the release must not happen on the non-Reset paths (over-credit)
            for x in rel:
                if not f.dominated_by_edges(x, edges):
                    ok = False
                    wit = ['release at %s is not confined to the Err(Reset) edge' % f.loc(x)]
        r.check(ok, 'caller|' + c, f.loc(edges[0][0]) if edges else f.file,
                'on Err(Error::Reset) the result of Recv::recv_data is followed by release_connection_capacity before reset_on_recv_stream_err'
                if ok else 'a stream error after the connection window was charged is not credited back (no release_connection_capacity on the Err(Reset) edge)',
                witness=wit)
        # R5 part: amount
        for bi, t in f.calls_to(RELEASE_CONN):
            e = f.expr_of_op(t['a'][1])
            r.check(derives_from(e, FCLEN) and not derives_from(e, PAYLOAD), 'amount|' + c, f.loc(bi),
                    'credited amount = %s (must be the flow-controlled length incl. padding)' % core.show(e))


def r3_every_frame_charged(ctx):
    r = ctx.rule('C03.R3', 'PASS', 'every DATA frame is charged exactly once; discarded frames are credited (ignore_data)')
    F = ctx.facts
    f = r.fn(INNER_RECV_DATA)
    if f:
        recv_closure_calls = set()
        for bi, t in f.calls():
            reach = F.reach_from(t['cls']) if t['cls'] else set()
            if RECV_DATA in reach:
                recv_closure_calls.add(bi)
        ign = set(bi for bi, t in f.calls_to(IGNORE))
        r.floor(len(recv_closure_calls), 1, 'path to Recv::recv_data in Inner::recv_data')
        r.floor(len(ign), 2, 'ignore_data calls in Inner::recv_data (beyond-GOAWAY and forgotten-stream branches)')

        def on_term(us, bi, t):
            if bi in recv_closure_calls or bi in ign:
                return min(us + 1, 2)
            return us
        exits, ins, parent = core.scan(f, 0, None, on_term)
        for (bi, us, rc, st) in exits:
            conn_error = rc.startswith('Err:') and ('library_go_away' in rc)
            residual_of_charge = rc == 'Err'  # `?` on ignore_data: connection FLOW_CONTROL_ERROR
            ok = us == 1 or ((conn_error or residual_of_charge) and us <= 1)
            key = 'exit|%d|%s' % (us, rc)
            if ok:
                r.ok(key, f.loc(bi), 'charged %d time(s), returns %s' % (us, rc))
            else:
                w = core.witness_path(f, parent, bi, st)
                r.bad(key, f.loc(bi), 'Inner::recv_data returns %s on a path that charges the DATA frame %d times (must be exactly once unless it is a connection error): '
                      'flow-controlled bytes are %s' % (rc, us, 'never accounted / never credited back' if us == 0 else 'accounted twice'),
                      witness=core.compress_path(f, [x['bb'] for x in w]))
    g = r.fn(IGNORE)
    if g:
        def on_term2(us, bi, t):
            if t['k'] == 'call':
                if t['fn'] == CONSUME:
                    return us | 1
                if t['fn'] == RELEASE_CONN:
                    return us | 2
            return us
        exits, ins, parent = core.scan(g, 0, None, on_term2)
        for (bi, us, rc, st) in exits:
            ok = us == 3 or rc.startswith('Err')
            r.check(ok, 'ignore_data|exit|%d|%s' % (us, rc), g.loc(bi),
                    'ignore_data exit: charged=%s credited=%s returns %s' % (bool(us & 1), bool(us & 2), rc))
        for bi, t in g.calls_to(CONSUME) + g.calls_to(RELEASE_CONN):
            e = strip(g.expr_of_op(t['a'][1]))
            r.check(e == ('arg', 2), 'ignore_data|amount|' + t['fn'].split('::')[-1], g.loc(bi), 'amount is the sz parameter unchanged: ' + core.show(e))
    # callers of ignore_data pass the flow-controlled length
    for c in sorted(F.rcg.get(IGNORE, ())):
        cf = F.fns.get(c)
        if not cf:
            continue
        for bi, t in cf.calls_to(IGNORE):
            e = cf.expr_of_op(t['a'][1])
            okv = derives_from(e, FCLEN) or (c == RECV_DATA and True)
            if c == RECV_DATA:
                # sz local derives from flow_controlled_len at function top
                okv = derives_from(e, FCLEN)
            r.check(okv and not derives_from(e, PAYLOAD), 'ignore_amount|' + c, cf.loc(bi), 'ignore_data(%s)' % core.show(e))


def r4_ledgers(ctx):
    r = ctx.rule('C03.R4', 'PAIR', 'Stream.in_flight_recv_data and the connection ledger move together by the same value')
    F = ctx.facts
    writers = {}
    for name, f in F.fns.items():
        w = writes_field(f, STREAM, 'in_flight_recv_data')
        if w:
            writers[name] = w
    # constructors (Stream::new) initialise to 0 through an aggregate, not a field write
    r.floor(len(writers), 4, 'functions writing Stream.in_flight_recv_data')
    for name, ws in sorted(writers.items()):
        f = F.fns[name]
        for (bi, si, pl, rv, ln) in ws:
            e = f.expr_of_rvalue(rv)
            e = strip(e)
            key = 'writer|%s|%s' % (name, core.show(e)[:60])
            if e[0] == 'bin' and e[1] in ('Add', 'Sub') and has_field(e[2], STREAM, 'in_flight_recv_data'):
                amount = strip(e[3])
                counterpart = CONSUME if e[1] == 'Add' else RELEASE_CONN
                cs = f.calls_to(counterpart)
                match = [bi2 for bi2, t in cs if canon(f.expr_of_op(t['a'][1])) == canon(amount)]
                r.check(bool(match), key, '%s:%d' % (f.file, ln),
                        'in_flight_recv_data %s= %s paired with %s(%s)' % ('+' if e[1] == 'Add' else '-', core.show(amount), counterpart.split('::')[-1],
                                                                       core.show(amount) if match else 'NO CALL WITH THE SAME VALUE'))
            elif e[0] == 'const' and e[1] == 0:
                cs = f.calls_to(RELEASE_CONN)
                match = [bi2 for bi2, t in cs if has_field(f.expr_of_op(t['a'][1]), STREAM, 'in_flight_recv_data') and strip(f.expr_of_op(t['a'][1]))[0] == 'field']
                r.check(bool(match), key, '%s:%d' % (f.file, ln), 'in_flight_recv_data = 0 paired with release_connection_capacity(stream.in_flight_recv_data)')
            else:
                if name.endswith('::tests::clear_recv_buffer_caps_capacity_before_overflow') or '::tests::' in name:
                    continue
                r.bad(key, '%s:%d' % (f.file, ln), 'unrecognised write to Stream.in_flight_recv_data: %s (cannot pair it with the connection ledger)' % core.show(e))


def r5_amounts(ctx):
    r = ctx.rule('C03.R5', 'FLOW', 'charged / credited amounts are the flow-controlled length; padding is auto-released')
    F = ctx.facts
    f = r.fn(RECV_DATA)
    if not f:
        return
    for callee, idx, what in ((CONSUME, 1, 'connection charge'), (P + 'flow_control::FlowControl::send_data', 1, 'stream window charge'),
                              (RELEASE_CONN, 1, 'credit for an unobserved stream'), (IGNORE, 1, 'ignored frame')):
        cs = f.calls_to(callee)
        r.floor(len(cs), 1, '%s site in Recv::recv_data' % what)
        for bi, t in cs:
            e = f.expr_of_op(t['a'][idx])
            ok = derives_from(e, FCLEN) and not derives_from(e, PAYLOAD)
            r.check(ok, 'amount|%s' % callee.split('::')[-1], f.loc(bi), '%s amount = %s' % (what, core.show(e)))
    # the hand-off itself
    for (bi, si, pl, rv, ln) in writes_field(f, STREAM, 'in_flight_recv_data'):
        e = f.expr_of_rvalue(rv)
        ok = derives_from(e, FCLEN) and not derives_from(e, PAYLOAD)
        r.check(ok, 'amount|handoff', '%s:%d' % (f.file, ln), 'in-flight hand-off = %s' % core.show(e))
    # padding auto-release: release_capacity(flow_controlled_len - payload().len())
    cs = f.calls_to(RECV + 'release_capacity')
    r.floor(len(cs), 1, 'padding auto-release in Recv::recv_data')
    for bi, t in cs:
        e = strip(f.expr_of_op(t['a'][1]))
        ok = e[0] == 'bin' and e[1] == 'Sub' and derives_from(e[2], FCLEN) and derives_from(e[3], PAYLOAD) and not derives_from(e[2], PAYLOAD)
        r.check(ok, 'padding', f.loc(bi), 'auto-released padding = %s' % core.show(e))
    # it must happen after the hand-off (otherwise release_capacity fails with ReleaseCapacityTooBig)
    hs = [bi for bi, *_ in writes_field(f, STREAM, 'in_flight_recv_data')]
    for bi, t in cs:
        r.check(f.dominated_by_blocks(bi, hs), 'padding|after-handoff', f.loc(bi), 'padding release is dominated by the in-flight hand-off')


def r6_window_update(ctx):
    r = ctx.rule('C03.R6', 'PAIR', 'a WINDOW_UPDATE increment comes from unclaimed_capacity and is added to the same window once, after buffering')
    F = ctx.facts
    WU = 'frame::window_update::WindowUpdate::new'
    UNCL = P + 'flow_control::FlowControl::unclaimed_capacity'
    INC = P + 'flow_control::FlowControl::inc_window'
    BUF = 'codec::Codec::buffer'
    sites = []
    for name, f in F.fns.items():
        if '::tests::' in name:
            continue
        for bi, t in f.calls_to(WU):
            sites.append((name, f, bi, t))
    r.floor(len(sites), 2, 'construction sites of frame::WindowUpdate')
    for name, f, bi, t in sites:
        incr = canon(f.expr_of_op(t['a'][1]))
        # incr = (unclaimed_capacity(X) as Some).0
        src = [c for c in walk(incr) if c[0] == 'call' and c[1] == UNCL]
        ok = bool(src)
        detail = 'increment = %s' % core.show(incr)
        if ok:
            flow = canon(src[0][2][0])
            incs = [(b2, t2) for b2, t2 in f.calls_to(INC)]
            bufs = [b2 for b2, t2 in f.calls_to(BUF)]
            m = [(b2, t2) for b2, t2 in incs if canon(f.expr_of_op(t2['a'][1])) == incr and canon(f.expr_of_op(t2['a'][0])) == flow]
            ok = len(m) == 1 and len(incs) == 1
            detail += '; inc_window on %s with the same value: %d site(s)' % (core.show(flow), len(m))
            if ok:
                ib = m[0][0]
                # after buffering, on every path from the construction to a return
                ok = bool(bufs) and f.dominated_by_blocks(ib, bufs) and f.dominated_by_blocks(ib, [bi])
                rets = f.returns()
                reach = f.reachable(bufs, cut_blocks=[ib])
                leak = [x for x in rets if x in reach]
                if leak:
                    ok = False
                    detail += '; a path from Codec::buffer to a return skips inc_window'
                # the frame is for the right stream: zero for the connection flow, stream.id for a stream flow
                sid = canon(f.expr_of_op(t['a'][0]))
                if has_field(flow, STREAM, 'recv_flow'):
                    ok = ok and has_field(sid, STREAM, 'id')
                    detail += '; stream id = %s' % core.show(sid)
                elif has_field(flow, P + 'recv::Recv', 'flow'):
                    ok = ok and sid[0] == 'call' and sid[1] == 'frame::stream_id::StreamId::zero'
                    detail += '; stream id = %s' % core.show(sid)
                else:
                    ok = False
                    detail += '; unknown flow'
        r.check(ok, 'site|' + name, f.loc(bi), detail)
    # WHO: inc_window on a *receive* flow happens nowhere else (except settings application / constructors)
    allowed = set(n for n, *_ in sites) | {RECV + 'apply_local_settings', RECV + 'new', P + 'stream::Stream::new',
                                            RECV + 'set_target_connection_window'}
    for name, f in F.fns.items():
        if '::tests::' in name or name.startswith(P + 'flow_control::'):
            continue
        for bi, t in f.calls_to(INC):
            flow = f.expr_of_op(t['a'][0])
            is_recv = has_field(flow, STREAM, 'recv_flow') or has_field(flow, P + 'recv::Recv', 'flow') or (strip(flow)[0] == 'var' and 'recv' in name)
            if is_recv:
                r.check(name in allowed or name.split('::{closure')[0] in allowed, 'who|' + name, f.loc(bi), 'inc_window on receive flow %s in %s' % (core.show(flow), name))


def r7_drop_paths(ctx, rid='C03.R7'):
    r = ctx.rule(rid, 'PASS', 'dropping RecvStream / the last stream reference returns buffered capacity')
    F = ctx.facts
    d = r.fn('<share::RecvStream as std::ops::Drop>::drop')
    if d:
        target = P + 'streams::OpaqueStreamRef::clear_recv_buffer'
        cs = [bi for bi, t in d.calls_to(target)]
        ok = bool(cs) and all(x not in d.reachable([0], cut_blocks=cs) or x in cs for x in d.returns())
        r.check(ok, 'drop|RecvStream', d.file + ':%d' % d.l0, 'every path through Drop for RecvStream calls OpaqueStreamRef::clear_recv_buffer')
    o = r.fn(P + 'streams::OpaqueStreamRef::clear_recv_buffer')
    if o:
        reach = F.reach_from([o.name])
        r.check(RECV + 'clear_recv_buffer' in reach, 'drop|reaches-clear', o.file, 'OpaqueStreamRef::clear_recv_buffer reaches Recv::clear_recv_buffer')
    g = r.fn(P + 'streams::drop_stream_ref')
    if g:
        reach = F.reach_from([g.name])
        r.check(RECV + 'release_closed_capacity' in reach, 'drop|last-ref', g.file, 'drop_stream_ref reaches Recv::release_closed_capacity')
        # the call is guarded by ref_count == 0 (not executed while other handles exist): inside the closure
        for c in sorted(reach):
            cf = F.fns.get(c)
            if not cf or not c.startswith(g.name):
                continue
            for bi, t in cf.calls_to(RECV + 'release_closed_capacity'):
                edges = core.edges_where(F, cf, lambda sw: sw.kind == 'cmp' and any(has_field(x, STREAM, 'ref_count') for x in (sw.subject[2], sw.subject[3])),
                                         lambda l: l is True or l is False)
                r.check(any(cf.dominated_by_edges(bi, [e]) for e in edges), 'drop|last-ref|guard', cf.loc(bi), 'release_closed_capacity is control-dependent on a comparison of Stream.ref_count')
    rc = r.fn(RECV + 'release_closed_capacity')
    if rc:
        cs = [bi for bi, t in rc.calls_to(RECV + 'clear_recv_buffer')]
        ok = bool(cs) and all(x not in rc.reachable([0], cut_blocks=cs) for x in rc.returns())
        r.check(ok, 'closed|clears-buffer', rc.file, 'release_closed_capacity clears the receive buffer on every path')


def r8_checked_arith(ctx, rid='C03.R8'):
    """shared with C02.R4"""
    r = ctx.rule(rid, 'FORBID', 'window arithmetic in flow_control is checked: no raw +,-,* on Window.0')
    F = ctx.facts
    WIN = P + 'flow_control::Window'
    n = 0
    for name, f in F.fns.items():
        if not name.startswith(P + 'flow_control::') and not name.startswith('<' + P + 'flow_control::'):
            continue
        if '::tests::' in name or 'sanity_' in name:
            continue
        for bi, si, pl, rv, ln in f.stmts():
            if rv[0] != 'bin':
                continue
            op = rv[1]
            if not any(op.startswith(x) for x in ('Add', 'Sub', 'Mul')):
                continue
            a = f.expr_of_op(rv[2])
            b = f.expr_of_op(rv[3])
            if has_field(a, WIN, '0') or has_field(b, WIN, '0'):
                n += 1
                key = 'raw|%s|%s' % (name, op.replace('WithOverflow', ''))
                if name == P + 'flow_control::FlowControl::unclaimed_capacity' and op.startswith('Sub'):
                    # exception: available - window_size behind `window_size >= available => return None`
                    edges = core.edges_where(F, f, lambda sw: sw.kind == 'cmp' or sw.kind == 'bool', lambda l: l is not None)
                    r.exception(key, 'available.0 - window_size.0 after the window_size >= available early return (receive flows only)')
                    r.ok(key, '%s:%d' % (f.file, ln), 'named exception')
                    continue
                r.bad(key, '%s:%d' % (f.file, ln), 'unchecked %s on a flow-control window in %s (i32 wrap-around corrupts the window instead of producing FLOW_CONTROL_ERROR)' % (op, name))
    # positive: the checked helpers are used
    used = 0
    for name, f in F.fns.items():
        if name.startswith(P + 'flow_control::FlowControl::') or name.startswith(P + 'flow_control::Window::'):
            for bi, t in f.calls():
                if t['fn'] in ('core::num::<impl i32>::checked_add', 'core::num::<impl i32>::checked_sub', 'core::num::<impl i32>::overflowing_add',
                               'std::i32::checked_add', 'std::i32::checked_sub') or t['fn'].endswith('::checked_add') or t['fn'].endswith('::checked_sub') or t['fn'].endswith('::overflowing_add'):
                    used += 1
    r.floor(used, 3, 'checked_add / checked_sub / overflowing_add sites in flow_control')
    r.stat('raw_arith_on_window', n)


def r9_window_update_queue(ctx):
    """a stream popped from pending_window_updates is processed (transition closure) or stays queued"""
    from . import C05

    def only(F, fn, ev):
        f = F.fns.get(fn)
        if not f or 'pop' not in ev:
            return False
        return any(t['fn'].startswith(P + 'store::Queue::pop') and t['ga'] and t['ga'][0].endswith('NextWindowUpdate') for bi, t in f.calls())
    C05.r3_transition_discipline(ctx, 'C03.R9', only_event=only)
    ctx.rules[-1].text = 'a stream popped from pending_window_updates is always processed (its WINDOW_UPDATE is sent or it is re-queued), never forgotten'


def run(ctx):
    for fn in (r1_charge_credit, r2_caller_credits, r3_every_frame_charged, r4_ledgers, r5_amounts, r6_window_update, r7_drop_paths, r8_checked_arith, r9_window_update_queue):
        rr_before = len(ctx.rules)
        try:
            fn(ctx)
        except core.Cap as e:
            ctx.rule('C03.R0', 'INTERNAL', 'checker integrity').bad('cap|' + fn.__name__, '', str(e))


def r12_pad_length_octet(ctx, rid='C03.R12'):
    r = ctx.rule(rid, 'FLOW', 'a PADDED DATA frame is flow-controlled as payload + padding + the Pad Length octet, whatever the pad length (also 0)')
    F = ctx.facts
    ld = r.fn('frame::data::Data::load')
    if ld:
        ints = [bi for bi, sw in core.all_switches(F, ld).items() if sw is not None and sw.kind in ('int', 'cmp') and core.contains_call(sw.subject, 'frame::util::strip_padding')]
        r.check(not ints, 'load|pad-len-as-returned', ld.file, 'Data::load stores Some(pad length) for every PADDED frame without inspecting the value%s' % ('' if not ints else ' — the value is tested: a PADDED frame with Pad Length 0 would be charged one octet less than the peer spent'))
        somes = [1 for bi, si, pl, rv, ln in ld.stmts() if rv[0] == 'aggr' and str(rv[2]).endswith('Option::Some') and core.contains_call(ld.expr_of_rvalue(rv), 'frame::util::strip_padding')]
        r.check(bool(somes), 'load|pad-len-some', ld.file, 'pad_len = Some(strip_padding(..)?)')
    fl = r.fn('frame::data::Data::flow_controlled_len')
    if fl:
        ones = [c for bi, si, pl, rv, ln in fl.stmts() for c in core.consts_in(fl.expr_of_rvalue(rv)) if c[1] == 1 and not isinstance(c[1], bool)]
        e = core.edges_where(F, fl, lambda sw: sw.kind == 'variant' and core.last_field(strip(sw.subject)) == ('frame::data::Data', 'pad_len'), lambda l: l == frozenset(['Some']))
        r.check(bool(ones) and bool(e), 'len|plus-one', fl.file, 'flow_controlled_len adds pad_len + 1 on the Some edge')


def r11_ledger_zeroed_after_release(ctx):
    r = ctx.rule('C03.R11', 'PAIR', 'the in-flight ledger of a stream is zeroed only after its value was credited back (release first, then reset the ledger)')
    F = ctx.facts
    STREAM = 'proto::streams::stream::Stream'
    n = 0
    for name, f in sorted(F.fns.items()):
        if not name.startswith('proto::streams::') or '::tests::' in name:
            continue
        for bi, si, pl, rv, ln in f.stmts():
            if core.write_target(f, pl) == (STREAM, 'in_flight_recv_data') and rv[0] == 'use' and core.op_const(rv[1]) is not None and core.op_const(rv[1])[0] == 0:
                if name.endswith('Stream::new'):
                    continue
                n += 1
                users = [b for b, t in f.calls() if any(core.mentions_field(f.expr_of_op(a), STREAM, 'in_flight_recv_data') for a in t['a'][1:])]
                ok = bool(users) and f.dominated_by_blocks(bi, users)
                # the call must come strictly before the write: same block means the call terminator ends an earlier block, so domination by a different block suffices
                r.check(ok, 'zeroed-after-release|' + name.replace('proto::streams::', ''), '%s:%d' % (f.file, ln),
                        'in_flight_recv_data = 0 %s' % ('after the value was passed to the release' if ok else 'BEFORE / without passing the value to a release: the bytes are never credited back to the connection window'))
    r.floor(n, 1, 'zeroing writes of Stream.in_flight_recv_data')


_run_rules = run


def run(ctx):
    _run_rules(ctx)
    from .. import boundaries
    boundaries.check(ctx, 'C03.RB', 'C03')
    boundaries.check_layering(ctx, 'C03.RL')
    boundaries.check_inits(ctx, 'C03.RI', 'C03')
    boundaries.check_codes(ctx, 'C03.RE', 'C03')
    boundaries.check_writes(ctx, 'C03.RW', 'C03')
    r11_ledger_zeroed_after_release(ctx)
    r12_pad_length_octet(ctx)
    boundaries.check_guards(ctx, 'C03.RG', 'C03')
    boundaries.check_calls(ctx, 'C03.RC', 'C03')
    from . import C06
    C06.r1b_path_sites(ctx, 'C03.R10')  # credit queued for a WINDOW_UPDATE is announced: the releaser wakes the connection task
    boundaries.check_amounts(ctx, 'C03.RA', 'C03')
    from .. import errdisc
    errdisc.check(ctx, 'C03.RD', 'C03', 46)
    boundaries.check_stream_new(ctx, 'C03.RN')
    from .. import boundaries as _b
    _b.check_predicates(ctx, 'C03.RP', 'C03')
    from .. import boundaries as _b
    _b.check_updates(ctx, 'C03.RU', 'C03')
    from .. import boundaries as _b
    _b.check_counts(ctx, 'C03.RQ', 'C03')
