"""C07 — when a connection ends, every outstanding handle resolves."""
from .. import core, tstate, absint, rfcstates as RS
from ..core import strip, walk, has_field, mentions_field
from . import C06

EXPLANATION = (
    "Decides the structural necessary conditions of 'nothing hangs': (R1) every Ready exit of proto::Connection::poll — "
    "including every `?` exit — passes, in this invocation, a function that notifies all streams (handle_poll2_result, "
    "handle_write_error) or lies in the State::Closed arm, whose only producers (writers of the connection state) are "
    "themselves checked to notify; every Err return of handle_poll2_result passes handle_error; handle_go_away notifies "
    "unless a GOAWAY for the same reason is already in flight; (R2) the three enders recv_eof / handle_error / "
    "recv_go_away iterate all streams inside Counts::transition calling the Recv closer and Send::handle_error and "
    "set conn_error; (R3) every Pending of a handle-facing poller is control-dependent on a liveness query; (R4) later "
    "operations see the sticky error; (R5) dropping the connection is an ending too; (R6) a reset after a received "
    "END_STREAM keeps buffered data readable. That every kind of ending reaches a checked exit is NOT decided."
)
NOT_DECIDED = "that every kind of ending at every byte offset reaches one of the checked exits (I/O behaviour of the transport); results 'at quiescence'"

P = 'proto::streams::'
CONN = 'proto::connection::'
DS = P + 'streams::DynStreams::'
INNER = P + 'streams::Inner::'
NOTIFY_ALL = {DS + 'handle_error', DS + 'recv_eof', P + 'streams::Streams::recv_eof', P + 'streams::Streams::handle_error'}


def r1_notify_all(ctx, rid='C07.R1'):
    r = ctx.rule(rid, 'PASS', 'every terminal exit of Connection::poll notifies all streams (incl. `?` exits)')
    F = ctx.facts
    f = r.fn(CONN + 'Connection::poll')
    if f:
        passers = {CONN + 'DynConnection::handle_poll2_result', CONN + 'DynConnection::handle_write_error'} | NOTIFY_ALL
        sws = core.all_switches(F, f)

        def on_term(us, bi, t):
            if t['k'] == 'call' and t['fn'] in passers:
                return 'n'
            return us

        def on_edge(us, bi, s):
            sw = sws.get(bi)
            if sw is not None and sw.kind == 'variant' and sw.adt == CONN + 'State' and sw.labels.get(s) == frozenset(['Closed']):
                return 'closed-arm'
            if sw is not None and sw.kind == 'variant' and sw.adt == CONN + 'State' and us == 'closed-arm':
                return '-'
            return us
        exits, ins, parent = core.scan(f, '-', None, on_term, on_edge)
        n = 0
        for (bi, us, rc, st) in exits:
            if rc.startswith('Pending') or rc == 'call:std::task::Poll::Pending':
                continue
            n += 1
            ok = us in ('n', 'closed-arm')
            r.check(ok, 'exit|%s|%s' % (rc, us), f.loc(bi),
                    'Connection::poll returns %s %s' % (rc, 'after notifying all streams / from the Closed arm' if ok else
                                                        'on a path that passed neither handle_poll2_result nor handle_write_error: streams are never told the connection ended (pending futures hang, send_* keep returning Ok)'),
                    witness=core.compress_path(f, [x['bb'] for x in core.witness_path(f, parent, bi, st)]) if not ok else None)
        r.floor(n, 3, 'terminal exit states of Connection::poll')
    hw = r.fn(CONN + 'DynConnection::handle_write_error')
    if hw:
        he = [bi for bi, t in hw.calls_to(DS + 'handle_error')]
        reach = hw.reachable([0], cut_blocks=he)
        r.check(bool(he) and not any(x in reach for x in hw.returns()), 'handle_write_error', hw.file, 'handle_write_error calls DynStreams::handle_error on every path')
    hp = r.fn(CONN + 'DynConnection::handle_poll2_result')
    if hp:
        he = [bi for bi, t in hp.calls_to(DS + 'handle_error')]
        exits, ins, parent = core.scan(hp, '-', None, lambda us, bi, t: 'n' if bi in he else us)
        for (bi, us, rc, st) in exits:
            if rc.startswith('Err'):
                r.check(us == 'n', 'poll2_result|err-exit|' + us, hp.loc(bi), 'an Err return of handle_poll2_result passes DynStreams::handle_error')
        # GoAway arm -> handle_go_away ; Io arm -> handle_error
        arm = core.edges_where(F, hp, lambda sw: sw.kind == 'variant' and sw.adt == 'proto::error::Error', lambda l: l == frozenset(['GoAway']))
        hg = [bi for bi, t in hp.calls_to(CONN + 'DynConnection::handle_go_away')]
        ok = bool(arm) and bool(hg)
        for (a, b) in arm:
            reach = hp.reachable([b], cut_blocks=hg)
            if any(x in reach for x in hp.returns()):
                ok = False
        r.check(ok, 'poll2_result|goaway-arm', hp.file, 'Error::GoAway -> handle_go_away on every path')
        arm = core.edges_where(F, hp, lambda sw: sw.kind == 'variant' and sw.adt == 'proto::error::Error', lambda l: l == frozenset(['Io']))
        ok = bool(arm) and bool(he)
        for (a, b) in arm:
            reach = hp.reachable([b], cut_blocks=he)
            if any(x in reach for x in hp.returns()):
                ok = False
        r.check(ok, 'poll2_result|io-arm', hp.file, 'Error::Io -> DynStreams::handle_error on every path')
    hg = r.fn(CONN + 'DynConnection::handle_go_away')
    if hg:
        he = [bi for bi, t in hg.calls_to(DS + 'handle_error')]
        ga = core.guard_edges(F, hg, ['proto::go_away::GoAway::going_away'], lambda l: l is True)
        # every path passes handle_error unless it took the already-going-away edge
        reach = hg.reachable([0], cut_blocks=he, cut_edges=ga)
        r.check(bool(he) and bool(ga) and not any(x in reach for x in hg.returns()), 'handle_go_away', hg.file, 'handle_go_away notifies all streams unless a GOAWAY with the same reason is already in flight')
    gu = r.fn(CONN + 'DynConnection::go_away_from_user')
    if gu:
        he = [bi for bi, t in gu.calls_to(DS + 'handle_error')]
        reach = gu.reachable([0], cut_blocks=he)
        r.check(bool(he) and not any(x in reach for x in gu.returns()), 'go_away_from_user', gu.file, 'go_away_from_user notifies all streams')
    rf = r.fn(CONN + 'DynConnection::recv_frame')
    if rf:
        # frame == None -> recv_eof then Done
        arm = core.edges_where(F, rf, lambda sw: sw.kind == 'variant' and sw.adt == 'std::option::Option' and strip(sw.subject) in (('arg', 2), ('var', 2)), lambda l: l == frozenset(['None']))
        # drop elaboration re-tests the discriminant at the end of the function: keep the dispatching match only
        arm = [e for e in arm if rf.dominated_by_blocks(e[0], [e[0]]) and all(rf.dominated_by_blocks(o[0], [e[0]]) for o in arm)]
        re_ = [bi for bi, t in rf.calls_to(DS + 'recv_eof')]
        ok = bool(arm) and bool(re_)
        for (a, b) in arm:
            reach = rf.reachable([b], cut_blocks=re_)
            if any(x in reach for x in rf.returns()):
                ok = False
        r.check(ok, 'recv_frame|eof', rf.file, 'end of input (frame = None) calls DynStreams::recv_eof before returning Done')
    # writers of the connection state: Closing / Closed only from functions that notify (or after one)
    writers = {}
    for name, g in F.fns.items():
        if not name.startswith(CONN):
            continue
        for bi, si, pl, rv, ln in g.stmts():
            e = strip(g.expr_of_rvalue(rv))
            if e[0] == 'aggr' and e[2] in (CONN + 'State::Closing', CONN + 'State::Closed'):
                writers.setdefault(name, []).append((bi, e[2].split('::')[-1]))
    allowed = {CONN + 'Connection::poll': 'Closing -> Closed after shutdown; Closing is only produced by the functions below',
               CONN + 'DynConnection::handle_poll2_result': 'Ok arm (EOF already notified in recv_frame / user GOAWAY notified in go_away_from_user) and UnexpectedEof arm after handle_error',
               CONN + 'DynConnection::handle_go_away': 'already-going-away: the first GOAWAY for this reason notified',
               CONN + 'Connection::new': 'constructor'}
    for w in sorted(writers):
        r.check(w in allowed, 'state-writer|' + w, F.fns[w].file, 'connection State::{Closing,Closed} written in %s%s' % (w, (': ' + allowed[w]) if w in allowed else ' — not a reviewed ender'))


def r2_enders(ctx):
    r = ctx.rule('C07.R2', 'PAIR', 'the three enders (recv_eof, handle_error, recv_go_away) notify every stream inside transition and set conn_error')
    F = ctx.facts
    enders = {INNER + 'recv_eof': P + 'recv::Recv::recv_eof', INNER + 'handle_error': P + 'recv::Recv::handle_error', INNER + 'recv_go_away': P + 'recv::Recv::handle_error'}
    for fname, closer in enders.items():
        f = r.fn(fname)
        if not f:
            continue
        fe = f.calls(lambda t: t['fn'] in (P + 'store::Store::for_each', P + 'store::Store::try_for_each'))
        reach = F.reach_from([c for bi, t in fe for c in t['cls']])
        short = fname.split('::')[-1]
        r.check(bool(fe), '%s|for_each' % short, f.file, '%s iterates the store' % short)
        # the walk happens on every non-error path: it is not nested under "no error recorded yet" or any other test
        # (a recorded conn_error does not mean every stream was told: recv_go_away records one and leaves streams alive)
        fes = [bi for bi, t in fe]
        exits, ins, parent = core.scan(f, 0, None, lambda us, bi, t: 1 if bi in fes else us)
        for (bi, us, rc, st) in exits:
            if rc.startswith('Err') or rc == 'Err':
                continue
            r.check(us == 1, '%s|walk-on-every-path|%s' % (short, rc), f.loc(bi), '%s exit %s %s the per-stream walk' % (short, rc, 'passed' if us == 1 else 'SKIPPED'),
                    witness=core.compress_path(f, [x['bb'] for x in core.witness_path(f, parent, bi, st)]))
        r.check(closer in reach, '%s|recv-closer' % short, f.file, '%s reaches %s for every stream' % (short, closer.split('::')[-1]))
        r.check(P + 'send::Send::handle_error' in reach, '%s|send-closer' % short, f.file, '%s reaches Send::handle_error for every stream' % short)
        r.check(P + 'counts::Counts::transition' in reach, '%s|transition' % short, f.file, 'the per-stream closure runs inside Counts::transition')
        # inside the innermost closure both closers are passed on EVERY path (no early "already closed" return)
        inner = [F.fns[c] for c in reach if c in F.fns and c.startswith(fname + '::{closure') and F.fns[c].calls_to(closer)]
        for g in inner:
            for callee in (closer, P + 'send::Send::handle_error'):
                cs = [bi for bi, t in g.calls_to(callee)]
                rr = g.reachable([0], cut_blocks=cs)
                r.check(bool(cs) and not any(x in rr for x in g.returns()), '%s|all-paths|%s' % (short, callee.split('::')[-1]), g.file,
                        'the per-stream closure of %s passes %s on every path' % (short, core.short(callee)))
        if fname != INNER + 'recv_go_away':
            # and the closure is run for every stream: for_each is not nested under a per-stream condition in the outer closure
            outer = [F.fns[c] for c in reach if c in F.fns and c.startswith(fname + '::{closure') and F.fns[c].calls_to(P + 'counts::Counts::transition')]
            for g in outer:
                cs = [bi for bi, t in g.calls_to(P + 'counts::Counts::transition')]
                rr = g.reachable([0], cut_blocks=cs)
                r.check(bool(cs) and not any(x in rr for x in g.returns()), '%s|every-stream' % short, g.file, '%s runs the transition for every stream in the store (no per-stream skip)' % short)
        ws = [bi for bi, si, pl, rv, ln in f.stmts() if core.write_target(f, pl) == (P + 'streams::Actions', 'conn_error')]
        rr = f.reachable([0], cut_blocks=ws)
        errs_only = all(True for x in f.returns())
        ok = bool(ws)
        if ok:
            # on every non-error exit the slot is known to be Some (written, or observed Some)
            from .. import slots
            exits, parent = slots.slot_scan(F, f, P + 'streams::Actions', 'conn_error')
            for (bi, us, rc, st) in exits:
                if not rc.startswith('Err') and us != 'S':
                    ok = False
        r.check(ok, '%s|conn_error' % short, f.file, '%s stores Actions.conn_error on every non-error path' % short)
    re_ = F.fn(INNER + 'recv_eof')
    if re_:
        r.check(bool(re_.calls_to(P + 'streams::Actions::clear_queues')), 'recv_eof|clear_queues', re_.file, 'recv_eof clears the connection-level queues')


LIVENESS = {
    P + 'recv::Recv::schedule_recv': [P + 'state::State::ensure_recv_open'],
    P + 'recv::Recv::poll_response': [P + 'state::State::ensure_recv_open'],
    P + 'recv::Recv::poll_pushed': [P + 'state::State::ensure_recv_open'],
    P + 'recv::Recv::poll_informational': [P + 'state::State::ensure_recv_open'],
    P + 'send::Send::poll_capacity': [P + 'state::State::is_send_streaming'],
    P + 'send::Send::poll_reset': [P + 'state::State::ensure_reason'],
    P + 'streams::Streams::poll_pending_open': [P + 'streams::Actions::ensure_no_conn_error'],
}


def r3_park_if_live(ctx):
    r = ctx.rule('C07.R3', 'GUARD', 'handle-facing pollers park only behind a liveness query of the stream / connection')
    F = ctx.facts
    for fname, queries in sorted(LIVENESS.items()):
        f = r.fn(fname)
        if not f:
            continue
        sites = [bi for bi, si, pl, rv, ln in f.stmts() if rv[0] == 'aggr' and rv[2].endswith('task::Poll::Pending')]
        if not sites:
            r.ok('no-pending|' + fname, f.file, 'no Pending store in %s' % fname.split('::')[-1])
            continue
        qs = [bi for bi, t in f.calls(lambda t: t['fn'] in queries)]
        for s in sites:
            # control dependence approximated by: the query dominates the site and its result is branched on before it
            edges = core.guard_edges(F, f, queries, lambda l: True)
            ok = bool(qs) and f.dominated_by_blocks(s, qs) and bool(edges) and f.dominated_by_edges(s, edges)
            r.check(ok, 'park|%s' % fname, f.loc(s), '%s parks only after branching on %s' % (fname.split('::')[-1], '/'.join(q.split('::')[-1] for q in queries)))
    # the pollers that return Pending through schedule_recv
    for fname in (P + 'recv::Recv::poll_data', P + 'recv::Recv::poll_trailers'):
        f = F.fn(fname)
        if f:
            r.check(bool(f.calls_to(P + 'recv::Recv::schedule_recv')), 'via-schedule_recv|' + fname, f.file, '%s parks through schedule_recv on an empty queue' % fname.split('::')[-1])
    pp = F.fn('proto::ping_pong::UserPings::poll_pong')
    if pp:
        closed = F.const_val('proto::ping_pong::USER_STATE_CLOSED')
        sw = [s for bi, s in core.all_switches(F, pp).items() if s is not None and ((s.kind == 'int' and closed in s.labels.values())
              or (core.cmp_of(s) is not None and core.cmp_of(s)[0] in ('Eq', 'Ne') and any(c[1] == closed for c in core.consts_in(s.subject))))]
        r.check(bool(sw), 'park|poll_pong', pp.file, 'poll_pong distinguishes USER_STATE_CLOSED (Ready(Err)) from waiting')


def r4_sticky_error(ctx):
    r = ctx.rule('C07.R4', 'GUARD', 'later operations see the sticky connection error')
    F = ctx.facts
    ENS = P + 'streams::Actions::ensure_no_conn_error'
    for fname in (P + 'streams::Streams::send_request', P + 'streams::Streams::poll_pending_open'):
        f = r.fn(fname)
        if not f:
            continue
        es = [bi for bi, t in f.calls_to(ENS)]
        edges = core.guard_edges(F, f, [ENS], lambda l: isinstance(l, frozenset) and 'Ok' in l and 'Err' not in l or l == frozenset(['Continue']))
        # every h2 work call (open / send_headers) is dominated by the Ok edge
        work = [bi for bi, t in f.calls(lambda t: t['fn'] in (P + 'send::Send::open', P + 'send::Send::send_headers', P + 'store::Store::insert'))]
        ok = bool(es) and bool(edges) and all(f.dominated_by_edges(w, edges) for w in work)
        r.check(ok, 'entry|' + fname.split('::')[-1], f.file, '%s starts with ensure_no_conn_error()? (Ok edge dominates the work)' % fname.split('::')[-1])
    e = F.fn(ENS)
    if e:
        reads = any(mentions_field(e.expr_of_rvalue(rv), P + 'streams::Actions', 'conn_error') for bi, si, pl, rv, ln in e.stmts())
        r.check(reads, 'ensure|reads', e.file, 'ensure_no_conn_error reads Actions.conn_error')


def r5_drop(ctx):
    r = ctx.rule('C07.R5', 'PASS', 'drop is an ending too')
    F = ctx.facts
    d = r.fn('<proto::connection::Connection as std::ops::Drop>::drop')
    if d:
        cs = [(bi, t) for bi, t in d.calls_to(P + 'streams::Streams::recv_eof')]
        reach = d.reachable([0], cut_blocks=[bi for bi, t in cs])
        r.check(bool(cs) and not any(x in reach for x in d.returns()), 'connection-drop', d.file, 'Drop for proto::Connection calls Streams::recv_eof on every path')
        for bi, t in cs:
            c = core.op_const(t['a'][1])
            r.check(c is not None and c[0] == 1, 'connection-drop|clear-accept', d.loc(bi), 'recv_eof(clear_pending_accept = true)')
    # the three handshake-time owners of UserPingsRx: Drop publishes CLOSED and wakes (C06.R5)
    dr = F.fn('<proto::ping_pong::UserPingsRx as std::ops::Drop>::drop')
    r.check(dr is not None, 'pings-drop', '', 'Drop for UserPingsRx exists (details C06.R5)')


def r6_complete_messages(ctx):
    r = ctx.rule('C07.R6', 'TSTATE', 'a stream that already received END_STREAM still delivers after a reset (ErrorAfterEndStream -> ensure_recv_open = Ok(false)); a connection error / EOF closes every live state and leaves closed ones as they are')
    F = ctx.facts
    tstate.enders(r, F)
    from ..rfcstates import E, SI, CA
    it = absint.Interp(F, models=RS.models(), inline={RS.ST + '::is_recv_end_stream'})
    rr = r.fn(tstate.SP + 'recv_reset')
    er = r.fn(tstate.SP + 'ensure_recv_open')
    if not rr or not er:
        return
    for s in RS.concrete_states():
        if not RS.recv_end_stream_seen(s):
            continue
        for queued in (False, True):
            out = it.run(rr, {1: RS.state_obj(s), 3: absint.B(queued)})
            for ret, fin in out:
                ns = RS.final_state(fin)
                if ns is None:
                    r.bad('unresolved|%s' % absint.show(s), rr.file, 'cannot read the state after recv_reset')
                    continue
                out2 = it.run(er, {1: RS.state_obj(ns)})
                cls = set(RS.ret_class(x).split(':')[0] for x, f2 in out2)
                r.check(cls == {'Ok(false)'}, 'after-reset|%s|queued=%s' % (absint.show(s), queued), rr.file,
                        '%s --RST_STREAM--> %s ; ensure_recv_open = %s (buffered events drain, then a clean end-of-stream or the reset error is reported only to the send half)' % (absint.show(s), absint.show(ns), sorted(cls)))


def run(ctx):
    r1_notify_all(ctx)
    r2_enders(ctx)
    r3_park_if_live(ctx)
    r4_sticky_error(ctx)
    r5_drop(ctx)
    r6_complete_messages(ctx)
    C06.r3_notify(ctx, 'C07.R7')
    C06.r5_ping_atomics(ctx, 'C07.R8')


_run_rules = run


def run(ctx):
    _run_rules(ctx)
    from .. import boundaries
    boundaries.check(ctx, 'C07.RB', 'C07')
    boundaries.check_amounts(ctx, 'C07.RA', 'C07')
    boundaries.check_writes(ctx, 'C07.RW', 'C07')
    boundaries.check_calls(ctx, 'C07.RC', 'C07')
    boundaries.check_guards(ctx, 'C07.RG', 'C07')
    from .. import boundaries as _b
    _b.check_predicates(ctx, 'C07.RP', 'C07')
    from .. import boundaries as _b
    _b.check_counts(ctx, 'C07.RQ', 'C07')
