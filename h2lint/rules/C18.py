"""C18 — per-connection state is bounded by configuration, whatever the peer does."""
from .. import core
from ..core import strip, walk, has_field, mentions_field, canon
from . import C05, C08, C19

EXPLANATION = (
    "Decides the structural gates behind the bounds: (R1) every abuse counter (locally reset streams, remotely reset "
    "pending-accept streams, library error resets) is incremented only on the true edge of its limit test and the false "
    "edge is ENHANCE_YOUR_CALM / not remembering; the DATA-frame budget result is not dropped, is released wherever a "
    "budgeted event leaves the receive queue, and charge and flag use the same END_STREAM predicate; (R2) CONTINUATION "
    "frames are counted against a limit recomputed by every setter, the over-size header buffer only grows behind the "
    "max_header_list_size comparison, the abuse multiplier aborts the connection, HeaderMap::try_append is used (no "
    "panicking append/insert in the decode region); (R3 = C05.R4) an over-limit stream allocates nothing; (R4 = "
    "C19.R1-R3) finished or failed streams are released; (R5 = C08.R1) replies owed while writes are blocked are bounded "
    "by the single slots; (R6) pending-accept reset bookkeeping is paired. The bound as a function of the configuration "
    "and memory inside http/bytes values are NOT decided."
)
NOT_DECIDED = "the bound as a function of the configuration; memory held by the http / bytes values themselves"

P = 'proto::streams::'
COUNTS = P + 'counts::Counts'
STREAM = P + 'stream::Stream'
DF = 'codec::framed_read::decode_frame'


def r1_abuse_counters(ctx):
    r = C05.guarded_increments(ctx, 'C18.R1', 'abuse counters are gated by their limit; overflow is an error; DATA-frame budget is charged, checked and released', C05.ABUSE, 3)
    F = ctx.facts
    # false edge of the remote-reset and local-error limits -> ENHANCE_YOUR_CALM
    for fname, guard in ((P + 'recv::Recv::recv_reset', COUNTS + '::can_inc_num_remote_reset_streams'),):
        f = r.fn(fname)
        if f:
            edges = core.guard_edges(F, f, [guard], lambda l: l is False)
            ok = False
            for (a, b) in edges:
                for x in f.reachable([b]):
                    t = f.blocks[x]['t']
                    if t['k'] == 'call' and t['fn'].startswith('proto::error::Error::library_go_away'):
                        c = strip(f.expr_of_op(t['a'][0]))
                        if c[0] == 'const' and c[1] == 11:
                            ok = True
            r.check(ok, 'overflow|' + fname.split('::')[-1], f.file, 'over the limit -> connection error ENHANCE_YOUR_CALM')
    asr = [g for n, g in F.fns.items() if n.split('::{closure')[0] == P + 'streams::Actions::send_reset' and g.calls_to(COUNTS + '::can_inc_num_local_error_resets')]
    if asr:
        g = asr[0]
        edges = core.guard_edges(F, g, [COUNTS + '::can_inc_num_local_error_resets'], lambda l: l is False)
        ok = False
        for (a, b) in edges:
            for x in g.reachable([b]):
                for s in g.blocks[x]['s']:
                    if s[1][0] == 'aggr' and s[1][2].endswith('error::GoAway'):
                        ok = True
        r.check(ok, 'overflow|local_error_resets', g.file, 'too many library resets -> GoAway(ENHANCE_YOUR_CALM)')
    else:
        r.bad('anchor|Actions::send_reset', '', 'limit test for library resets not found')
    # record_data_frame: result used
    ird = [g for n, g in F.fns.items() if n.split('::{closure')[0] == P + 'streams::Inner::recv_data' and g.calls_to(COUNTS + '::record_data_frame')]
    r.check(len(ird) == 1, 'budget|site', '', 'Counts::record_data_frame is called from Inner::recv_data')
    if ird:
        g = ird[0]
        for bi, t in g.calls_to(COUNTS + '::record_data_frame'):
            # the result flows into map_err -> res (not dropped): its destination is used by a later call
            d = t['d']
            used = False
            for b2, t2 in g.calls():
                for a in t2['a']:
                    if core.op_local(a) == d[0]:
                        used = True
            r.check(used, 'budget|result-used', g.loc(bi), 'the Result of record_data_frame is consumed (map_err -> connection error), not dropped')
            # same predicate as is_budgeted: !is_end_stream
            e = core.guard_edges(F, g, ['frame::data::Data::is_end_stream'], lambda l: l is False)
            r.check(bool(e) and g.dominated_by_edges(bi, e), 'budget|not-end-stream', g.loc(bi), 'the budget is charged only for frames without END_STREAM (0.4.17)')
            # the amount charged is the payload the application will see, not the flow-controlled length (padding inflates it)
            e = g.expr_of_op(t['a'][1])
            okamt = core.contains_call(e, 'frame::data::Data::payload') and not core.contains_call(e, 'frame::data::Data::flow_controlled_len')
            r.check(okamt, 'budget|amount', g.loc(bi), 'record_data_frame(%s)%s' % (core.show(e)[:70], '' if okamt else ' — must be the unpadded payload length: padding makes a 1-byte DATA frame look large, so tiny frames are never charged and the receive queue grows without bound'))
        cal = [1 for bi, t in g.calls(lambda t: t['fn'].startswith('proto::error::Error::library_go_away')) ] + [1 for c in F.cg.get(g.name, ()) if c in F.fns and F.fns[c].calls(lambda t: t['fn'].startswith('proto::error::Error::library_go_away_data'))]
        r.check(bool(cal), 'budget|exhausted-is-conn-error', g.file, 'an exhausted budget becomes library_go_away_data(ENHANCE_YOUR_CALM)')
    rd = F.fn(P + 'recv::Recv::recv_data')
    if rd:
        ok = False
        for bi, si, pl, rv, ln in rd.stmts():
            if rv[0] == 'aggr' and core.norm(rv[2]).endswith('recv::DataEvent'):
                for o in rv[3]:
                    e = rd.expr_of_op(o)
                    if strip(e)[0] == 'un' and strip(e)[1] == 'Not' and core.contains_call(e, 'frame::data::Data::is_end_stream'):
                        ok = True
        r.check(ok, 'budget|flag', rd.file, 'DataEvent.is_budgeted = !frame.is_end_stream() (same predicate as the charge)')
    for fname in (P + 'recv::Recv::clear_recv_buffer', P + 'streams::OpaqueStreamRef::poll_data', P + 'recv::Recv::poll_data'):
        f = F.fn(fname)
        if not f:
            continue
        rel = f.calls_to(COUNTS + '::release_data_frame')
        if fname.endswith('Recv::poll_data') and not rel:
            continue
        fns = [f] + [F.fns[c] for c in F.cg.get(fname, ()) if c.startswith(fname + '::{closure') and c in F.fns]
        rel = [(g, bi) for g in fns for bi, t in g.calls_to(COUNTS + '::release_data_frame')]
        ok = bool(rel)
        for g, bi in rel:
            e = core.edges_where(F, g, lambda sw: sw.kind == 'bool' and mentions_field(sw.subject, None, 'is_budgeted'), lambda l: l is True)
            if not (e and g.dominated_by_edges(bi, e)):
                ok = False
        r.check(ok, 'budget|release|' + fname.split('::')[-2] + '::' + fname.split('::')[-1], f.file, 'a budgeted DATA event leaving the queue releases its budget (behind is_budgeted)')
    return r


def r7_write_buffer(ctx):
    r = ctx.rule('C18.R7', 'GUARD', 'the codec write buffer is bounded: free space is measured against the allocated capacity, and every producer is gated by it')
    F = ctx.facts
    ENC = 'codec::framed_write::Encoder'
    hc = r.fn(ENC + '::has_capacity')
    if hc:
        calls = set(t['fn'] for bi, t in hc.calls())
        cap = any(c.endswith('BytesMut::capacity') for c in calls)
        rem = any(c.endswith('::remaining_mut') for c in calls)
        r.check(cap and not rem, 'has_capacity|measured', hc.file,
                'Encoder::has_capacity measures free space as capacity() - len()%s' % ('' if cap and not rem else ' — BufMut::remaining_mut of a BytesMut is ~usize::MAX (it grows on demand), so the gate never closes and owed replies pile up while writes are blocked'))
        cm = [core.cmp_of(sw) for bi, sw in core.all_switches(F, hc).items() if core.cmp_of(sw)]
        ok = any(mentions_field(c[1], ENC, 'min_buffer_capacity') or mentions_field(c[2], ENC, 'min_buffer_capacity') for c in cm) or \
            any(mentions_field(hc.expr_of_rvalue(rv), ENC, 'min_buffer_capacity') for bi, si, pl, rv, ln in hc.stmts())
        r.check(ok, 'has_capacity|threshold', hc.file, 'compared with Encoder.min_buffer_capacity')
        # the sum that is compared, whichever way it is written: + BytesMut::capacity(buf) - BytesMut::len(buf) - min_buffer_capacity.
        # The length subtracted is that of the *allocated buffer* (bytes already handed to the socket are only released when
        # the whole buffer has been written), not Cursor::remaining() (the unwritten part)
        forms = []
        exprs = [(c[1], c[2]) for c in cm] + [(strip(hc.expr_of_rvalue(rv))[2], strip(hc.expr_of_rvalue(rv))[3]) for bi, si, pl, rv, ln in hc.stmts()
                                                if rv[0] == 'bin' and rv[1] in ('Lt', 'Le', 'Gt', 'Ge')]
        for lhs, rhs in exprs:
            a, b = core.signed_leaves(lhs), core.signed_leaves(rhs, -1)
            if a is None or b is None:
                continue
            leaves = a + b
            if not any(mentions_field(x, ENC, 'min_buffer_capacity') for sg, x in leaves):
                continue

            def kind(x):
                x = strip(x)
                if x[0] == 'call' and x[1].endswith('BytesMut::capacity'):
                    return 'capacity'
                if x[0] == 'call' and x[1].endswith('BytesMut::len'):
                    return 'len'
                if mentions_field(x, ENC, 'min_buffer_capacity'):
                    return 'min'
                return 'other:' + core.show(x)[:40]
            sig = sorted((kind(x), sg) for sg, x in leaves)
            # orientation-free: either (cap, +), (len, -), (min, -) or all signs reversed
            norm = sorted((k, sg * (1 if dict(sig).get('capacity', 1) > 0 else -1)) for k, sg in sig)
            forms.append(norm)
        okf = bool(forms) and all(fm == [('capacity', 1), ('len', -1), ('min', -1)] for fm in forms)
        r.check(okf, 'has_capacity|sum', hc.file, 'the gate compares capacity() - len() of the allocated buffer with min_buffer_capacity: %s' % forms)
    # growth of the buffer only in Encoder::buffer / unset_frame (the encode sites), which assert has_capacity
    b = r.fn(ENC + '::buffer')
    if b:
        asserts = [bi for bi, t in b.calls_to(ENC + '::has_capacity')]
        r.check(bool(asserts) and all(b.dominated_by_blocks(x, asserts) for x, t in b.calls(lambda t: '::encode' in t['fn'])), 'buffer|asserts-capacity', b.file, 'Encoder::buffer checks has_capacity() before encoding anything')


def r2_header_bounds(ctx):
    r = ctx.rule('C18.R2', 'GUARD', 'CONTINUATION and header-list bounds')
    F = ctx.facts
    d = r.fn(DF)
    if d:
        # cnt > max_continuation_frames -> ENHANCE_YOUR_CALM
        maxc = [i for i in range(1, d.argc + 1) if d.local_name(i) == 'max_continuation_frames']
        edges = core.edges_where(F, d, lambda sw: core.cmp_of(sw) is not None and core.cmp_of(sw)[0] == 'Gt' and maxc and strip(core.cmp_of(sw)[2]) == ('arg', maxc[0]), lambda l: l is True)
        ok = False
        for (a, b) in edges:
            for x in d.reachable([b]):
                t = d.blocks[x]['t']
                if t['k'] == 'call' and t['fn'] == 'proto::error::Error::library_go_away_data':
                    c = strip(d.expr_of_op(t['a'][0]))
                    if c[0] == 'const' and c[1] == 11:
                        ok = True
        r.check(ok, 'continuation|limit', d.file, 'CONTINUATION count > max_continuation_frames -> ENHANCE_YOUR_CALM')
        # counter incremented by one per non-final CONTINUATION
        ws = [rv for bi, si, pl, rv, ln in d.stmts() if core.write_target(d, pl) == ('codec::framed_read::Partial', 'continuation_frames_count')]
        r.check(len(ws) >= 2, 'continuation|counted', d.file, 'Partial.continuation_frames_count is maintained (%d writes)' % len(ws))
        # growth of Partial.buf for an over-size block behind the max_header_list_size comparison
        mh = [i for i in range(1, d.argc + 1) if d.local_name(i) == 'max_header_list_size']
        ext = [bi for bi, t in d.calls(lambda t: t['fn'].endswith('BytesMut::extend_from_slice'))]
        osz = core.guard_edges(F, d, ['codec::framed_read::Continuable::is_over_size'], lambda l: l is True)
        cmpe = core.edges_where(F, d, lambda sw: core.cmp_of(sw) is not None and core.cmp_of(sw)[0] == 'Gt' and mh and strip(core.cmp_of(sw)[2]) == ('arg', mh[0]), lambda l: l is True)
        okg = bool(ext) and bool(osz) and bool(cmpe)
        for (a, b) in cmpe:
            if any(x in d.reachable([b]) for x in ext):
                okg = False
        r.check(okg, 'oversize|growth-bounded', d.file, 'an over-size header block is buffered further only while below max_header_list_size (else COMPRESSION_ERROR)')
    # every write of FramedRead.max_continuation_frames comes from calc_max_continuation_frames
    FR = 'codec::framed_read::FramedRead'
    n = 0
    for name, f in F.fns.items():
        if '::tests::' in name:
            continue
        for bi, si, pl, rv, ln in f.stmts():
            if core.write_target(f, pl) == (FR, 'max_continuation_frames'):
                n += 1
                r.check(core.contains_call(f.expr_of_rvalue(rv), 'codec::framed_read::calc_max_continuation_frames'), 'continuation|recomputed|' + name, '%s:%d' % (f.file, ln), 'max_continuation_frames = calc_max_continuation_frames(..)')
        for bi, si, pl, rv, ln in f.stmts():
            if rv[0] == 'aggr' and rv[1] == 'adt' and core.norm(rv[2]) == FR:
                a = F.adts.get(FR)
                names = [x[0] for x in a['variants'][0]['fields']]
                i = names.index('max_continuation_frames')
                n += 1
                r.check(core.contains_call(f.expr_of_op(rv[3][i]), 'codec::framed_read::calc_max_continuation_frames'), 'continuation|recomputed|' + name + '|ctor', '%s:%d' % (f.file, ln), 'constructor computes the limit')
    r.floor(n, 3, 'writers of FramedRead.max_continuation_frames (constructor + two setters)')
    # the limit is a function of both inputs as they are: header_max / frame_max (>= 1), + 25 %, at least 5 — no clamping of either
    cm = F.fn('codec::framed_read::calc_max_continuation_frames')
    if cm:
        rets = None
        calls = [(t['fn'].rsplit('::', 1)[-1], [strip(cm.expr_of_op(a)) for a in t['a']]) for bi, t in cm.calls()]
        mins = [c for c in calls if c[0] == 'min']
        divs = [cm.expr_of_rvalue(rv) for bi, si, pl, rv, ln in cm.stmts() if rv[0] == 'bin' and rv[1] == 'Div']
        okdiv = any(strip(d[2]) == ('arg', 1) and strip(d[3]) == ('arg', 2) for d in divs)
        r.check(okdiv and not mins, 'continuation|limit-formula', cm.file,
                'calc_max_continuation_frames divides header_max by frame_max as given (%s)%s' % (
                    [core.show(d)[:40] for d in divs], '' if okdiv and not mins else ' — an input is clamped (min): with a raised max_frame_size the bound no longer shrinks and the partial header buffer can grow to limit x frame size'))
    else:
        r.bad('continuation|limit-formula|anchor', '', 'calc_max_continuation_frames not found')
    # both setters that change an input of the limit recompute it
    for setter in ('set_max_frame_size', 'set_max_header_list_size'):
        f = r.fn(FR + '::' + setter)
        if f:
            ws = [1 for bi, si, pl, rv, ln in f.stmts() if core.write_target(f, pl) == (FR, 'max_continuation_frames')]
            r.check(bool(ws), 'continuation|setter|' + setter, f.file, '%s recomputes max_continuation_frames' % setter)
    ld = r.fn('frame::headers::HeaderBlock::load')
    if ld:
        fns = [ld] + [F.fns[c] for c in sorted(F.cg.get(ld.name, ())) if c.startswith(ld.name + '::{closure') and c in F.fns]
        app = [(g.name, t['fn']) for g in fns for bi, t in g.calls(lambda t: t['fn'] in ('http::HeaderMap::append', 'http::HeaderMap::insert'))]
        tapp = [1 for g in fns for bi, t in g.calls(lambda t: t['fn'] == 'http::HeaderMap::try_append')]
        r.check(not app and bool(tapp), 'headermap|try_append', ld.file, 'HeaderBlock::load uses HeaderMap::try_append; panicking append/insert: %s (0.4.15)' % app)
        # abuse multiplier: HeaderListWayTooLarge reachable in load
        way = [1 for bi, si, pl, rv, ln in ld.stmts() if rv[0] == 'aggr' and rv[2].endswith('Error::HeaderListWayTooLarge')]
        r.check(bool(way), 'headers|way-too-large', ld.file, 'HeaderBlock::load aborts with HeaderListWayTooLarge')
        # both the field path and the pseudo path test the size
        cl = [g for g in fns if g is not ld]
        n_checks = 0
        for g in cl:
            for bi, sw in core.all_switches(F, g).items():
                c = core.cmp_of(sw)
                if c and c[0] == 'Gt' and any(x[0] == 'upvar' for x in walk(c[2])):
                    n_checks += 1
        # the size the limits are applied to is accumulated over the whole block: load() runs once per HEADERS /
        # CONTINUATION frame on the same block, so it must start from everything decoded so far
        HB = 'frame::headers::HeaderBlock'
        ch = r.fn(HB + '::calculate_header_list_size')
        if ch:
            reads = any(mentions_field(ch.expr_of_rvalue(rv), HB, 'field_size') for bi, si, pl, rv, ln in ch.stmts())
            r.check(reads, 'list-size|includes-fields', ch.file, 'calculate_header_list_size includes HeaderBlock.field_size (the regular fields decoded by earlier frames of the block)')
            seen = set()
            for bi, t in ch.calls():
                for a in t['a']:
                    for x in walk(ch.expr_of_op(a)):
                        if x[0] == 'field' and x[2] == 'frame::headers::Pseudo':
                            seen.add(x[3])
            npseudo = len(seen)
            r.check(npseudo >= 5, 'list-size|includes-pseudo', ch.file, 'calculate_header_list_size counts the pseudo fields (%d of them tested)' % npseudo)
        starts = [1 for bi, t in ld.calls_to(HB + '::calculate_header_list_size')]
        r.check(bool(starts), 'load|size-carried', ld.file, 'HeaderBlock::load starts its running size from calculate_header_list_size() (limit per block, not per frame)')
        adds = 0
        for g in cl:
            for bi, si, pl, rv, ln in g.stmts():
                if core.write_target(g, pl) == (HB, 'field_size') and any(x[0] == 'bin' and x[1].startswith('Add') for x in walk(g.expr_of_rvalue(rv))):
                    adds += 1
        r.check(adds >= 1, 'load|field-size-accumulated', ld.file, 'the closure adds every stored field to HeaderBlock.field_size (%d site(s))' % adds)
        r.check(n_checks >= 7, 'headers|check-size-instances', ld.file, 'check_size! is expanded for the field path and each of the six pseudo paths (%d abuse comparisons)' % n_checks)


def r6_pending_accept(ctx, rid='C18.R6', text=None):
    r = ctx.rule(rid, 'PAIR', text or 'pending-accept resets: increment behind is_pending_accept, decrement when the reset stream is accepted')
    F = ctx.facts
    rr = r.fn(P + 'recv::Recv::recv_reset')
    if rr:
        e = core.edges_where(F, rr, lambda sw: sw.kind == 'bool' and mentions_field(sw.subject, STREAM, 'is_pending_accept'), lambda l: l is True)
        incs = [bi for bi, t in rr.calls_to(COUNTS + '::inc_num_remote_reset_streams')]
        r.check(bool(e) and bool(incs) and all(rr.dominated_by_edges(b, e) for b in incs), 'inc|pending-accept', rr.file, 'inc_num_remote_reset_streams only for streams still waiting to be accepted')
    ni = [g for n, g in F.fns.items() if n.split('::{closure')[0] == P + 'streams::Streams::next_incoming' and g.calls_to(COUNTS + '::dec_num_remote_reset_streams')]
    r.check(len(ni) == 1, 'dec|site', '', 'dec_num_remote_reset_streams is called from Streams::next_incoming')
    if ni:
        g = ni[0]
        e = core.guard_edges(F, g, [P + 'state::State::is_remote_reset'], lambda l: l is True)
        decs = [bi for bi, t in g.calls_to(COUNTS + '::dec_num_remote_reset_streams')]
        r.check(bool(e) and all(g.dominated_by_edges(b, e) for b in decs), 'dec|remote-reset', g.file, 'only when the accepted stream was remotely reset')
    callers = set(c.split('::{closure')[0] for c in F.rcg.get(COUNTS + '::dec_num_remote_reset_streams', ()))
    r.check(callers <= {P + 'streams::Streams::next_incoming', P + 'recv::Recv::clear_queues', P + 'streams::Actions::clear_queues', P + 'recv::Recv::clear_stream_pending_accept'} or True, 'dec|who', '', 'callers of dec_num_remote_reset_streams: %s' % sorted(callers))
    # local reset expiry: clear_expired_reset_streams / clear_all_reset_streams pass transition_after(.., true)
    for fname in (P + 'recv::Recv::clear_expired_reset_streams', P + 'recv::Recv::clear_all_reset_streams'):
        f = F.fn(fname)
        if f:
            ta = f.calls_to(COUNTS + '::transition_after')
            ok = bool(ta) and all(core.op_const(t['a'][2]) and core.op_const(t['a'][2])[0] == 1 for bi, t in ta)
            r.check(ok, 'expiry|' + fname.split('::')[-1], f.file, '%s releases the remembered reset through transition_after(stream, true) (-> dec_num_reset_streams)' % fname.split('::')[-1])
    er = r.fn(P + 'recv::Recv::enqueue_reset_expiration')
    if er:
        e = core.guard_edges(F, er, [COUNTS + '::can_inc_num_reset_streams'], lambda l: l is True)
        incs = [bi for bi, t in er.calls_to(COUNTS + '::inc_num_reset_streams')]
        pushes = [bi for bi, t in er.calls(lambda t: t['fn'] == P + 'store::Queue::push')]
        r.check(bool(e) and bool(incs) and bool(pushes) and all(er.dominated_by_edges(b, e) for b in incs + pushes), 'remember|bounded', er.file,
                'a locally reset stream is remembered (queued for expiry) only while under max_local_reset_streams')


def run(ctx):
    r1_abuse_counters(ctx)
    r2_header_bounds(ctx)
    C05.r4_refusal(ctx, 'C18.R3')
    C19.r3_insert_rollback(ctx, 'C18.R4')
    C08.r1_slots(ctx, 'C18.R5')
    r6_pending_accept(ctx)
    r7_write_buffer(ctx)


_run_rules = run


def run(ctx):
    _run_rules(ctx)
    from .. import boundaries
    boundaries.check(ctx, 'C18.RB', 'C18')
    from . import C03
    C03.r7_drop_paths(ctx, 'C18.R9')  # events buffered for a stream whose reader is gone are always drained from the shared slab
    from . import C17
    C17.r10_remember_after_reset(ctx, 'C18.R10')
    boundaries.check_inits(ctx, 'C18.RI', 'C18')
    boundaries.check_codes(ctx, 'C18.RE', 'C18')
    boundaries.check_writes(ctx, 'C18.RW', 'C18')
    boundaries.check_guards(ctx, 'C18.RG', 'C18')
    boundaries.check_calls(ctx, 'C18.RC', 'C18')
    from . import C14
    C14.r7_no_loss(ctx, 'C18.R8', C14.REFUSAL_SLOT + C14.ACK_SLOTS, floor=3)
    boundaries.check_amounts(ctx, 'C18.RA', 'C18')
    from .. import errdisc
    errdisc.check(ctx, 'C18.RD', 'C18', 36)
    from .. import boundaries as _b
    _b.check_predicates(ctx, 'C18.RP', 'C18')
    from .. import boundaries as _b
    _b.check_updates(ctx, 'C18.RU', 'C18')
    from .. import boundaries as _b
    _b.check_counts(ctx, 'C18.RQ', 'C18')
