"""C01 — end-to-end message fidelity (thin: queue discipline and END_STREAM hand-over)."""
from .. import core
from ..core import strip, walk, has_field, mentions_field, canon

EXPLANATION = (
    "The decided part is thin: byte-exact delivery under every chunking is a value property. Decided are the structural "
    "necessary conditions of order and of the end-of-stream marker: (R1) when pop_frame splits a DATA frame it reads the "
    "END_STREAM flag before clearing it and carries it in Prioritized.end_of_stream, and reclaim_frame_inner restores it "
    "on the tail before re-queuing; (R2) per-stream queues are FIFO: every Deque::push_front on a stream's send or "
    "receive queue is a put-back of the element just popped from the same queue (or the reclaimed in-flight frame); "
    "(R3) an event popped from the receive queue is returned, put back, or is the documented skip, never silently "
    "dropped; (R4) receive events are appended only from the connection task's frame handlers (arrival order, one lock); (R5) the codec accepts no new frame while a CONTINUATION / DATA remainder is staged, so header blocks stay contiguous and a staged remainder is never overwritten; (R6 = C06.R3) every event appended to a stream's receive queue is followed by a wake of the receiving task. "
    "Byte-exact, exactly-once delivery for every fragmentation is NOT decided."
)
NOT_DECIDED = ("that bytes are unmodified and delivered exactly once for every split into frames, reads, writes and window grants "
               "(FramedWrite::flush, EncodingHeaderBlock::encode offsets, Partial reassembly are value computations); end-of-stream reported exactly when everything was delivered")

P = 'proto::streams::'
PRIO = P + 'prioritize::Prioritize::'
STREAM = P + 'stream::Stream'
DEQ = P + 'buffer::Deque::'
RECV = P + 'recv::Recv::'


def r1_end_stream_handover(ctx):
    r = ctx.rule('C01.R1', 'FLOW', 'END_STREAM survives a split DATA frame (read before cleared, carried, restored on the tail)')
    F = ctx.facts
    SES = 'frame::data::Data::set_end_stream'
    IES = 'frame::data::Data::is_end_stream'
    clearers = []
    for name, f in F.fns.items():
        if '::tests::' in name or name.startswith('frame::'):
            continue
        for bi, t in f.calls_to(SES):
            c = core.op_const(t['a'][1])
            if c is not None and c[0] == 0:
                clearers.append((name, f, bi))
    r.floor(len(clearers), 1, 'sites clearing END_STREAM on a split frame')
    for name, f, bi in clearers:
        reads = [b for b, t in f.calls_to(IES)]
        ok = bool(reads) and f.dominated_by_blocks(bi, reads)
        r.check(ok, 'split|read-before-clear|' + name, f.loc(bi), 'the flag is read (is_end_stream) on every path before set_end_stream(false)')
        # and that value is what the closure returns / flows into Prioritized.end_of_stream
        e = f.ret_expr()
        carried = e is not None and any(x[0] == 'call' and x[1] == IES for x in walk(e))
        r.check(carried, 'split|carried|' + name, f.loc(bi), 'the value read is returned to pop_frame: %s' % (core.show(e)[:80] if e else None))
    pf = F.fn(PRIO + 'pop_frame')
    if pf:
        ok = False
        for n2, g in F.fns.items():
            if not n2.startswith(pf.name):
                continue
            for bi, si, pl, rv, ln in g.stmts():
                if rv[0] == 'aggr' and rv[1] == 'adt' and core.norm(rv[2]).endswith('prioritize::Prioritized'):
                    a = F.adts.get(core.norm(rv[2]))
                    names = [x[0] for x in a['variants'][0]['fields']]
                    e = g.expr_of_op(rv[3][names.index('end_of_stream')])
                    if any(x[0] == 'call' and x[1] == IES for x in walk(e)):
                        ok = True
        r.check(ok, 'split|prioritized', pf.file, 'Prioritized.end_of_stream holds the flag read before the split')
    rc = r.fn(PRIO + 'reclaim_frame_inner')
    if rc:
        setters = [(bi, t) for bi, t in rc.calls_to(SES) if core.op_const(t['a'][1]) and core.op_const(t['a'][1])[0] == 1]
        pb = [bi for bi, t in rc.calls_to(PRIO + 'push_back_frame')]
        # the put-back itself, when push_back_frame was inlined by hand
        pb += [bi for bi, t in rc.calls_to(DEQ + 'push_front') if has_field(rc.expr_of_op(t['a'][0]), STREAM, 'pending_send')]
        r.check(bool(setters) and bool(pb), 'reclaim|restores', rc.file, 'reclaim_frame_inner calls set_end_stream(true) and puts the frame back (push_back_frame / push_front on pending_send)')
        # eos variable assigned from Prioritized.end_of_stream inside the map closure
        cl = [F.fns[c] for c in F.cg.get(rc.name, ()) if c.startswith(rc.name + '::{closure') and c in F.fns]
        src = any(any(mentions_field(g.expr_of_rvalue(rv), None, 'end_of_stream') for bi, si, pl, rv, ln in g.stmts()) for g in cl)
        r.check(src, 'reclaim|source', rc.file, 'the restored flag comes from Prioritized.end_of_stream')
        # on the path where eos is true, set_end_stream(true) precedes push_back_frame: the switch on the eos variable
        for b in pb:
            sws = [(bi, sw) for bi, sw in core.all_switches(F, rc).items() if sw.kind == 'bool' and strip(sw.subject)[0] == 'var' and rc.local_name(strip(sw.subject)[1]) == 'eos']
            ok = bool(sws)
            for bi, sw in sws:
                for s, l in sw.labels.items():
                    if l is True:
                        reach = rc.reachable([s], cut_blocks=[x for x, t in setters])
                        if b in reach:
                            ok = False
            r.check(ok, 'reclaim|order', rc.loc(b), 'when the split frame carried END_STREAM the tail is re-queued only after set_end_stream(true)')


def r2_fifo(ctx):
    r = ctx.rule('C01.R2', 'PASS', 'per-stream queues are FIFO: push_front is only ever a put-back of the element just popped')
    F = ctx.facts
    n = 0
    for name, f in sorted(F.fns.items()):
        if '::tests::' in name or name.startswith(P + 'buffer::'):
            continue
        for bi, t in f.calls_to(DEQ + 'push_front'):
            q = f.expr_of_op(t['a'][0])
            which = 'pending_send' if has_field(q, STREAM, 'pending_send') else ('pending_recv' if has_field(q, STREAM, 'pending_recv') else None)
            if which is None:
                continue
            n += 1
            key = 'putback|%s|%s' % (name, which)
            if name == PRIO + 'push_back_frame':
                callers = sorted(F.rcg.get(name, ()))
                r.check(callers == [PRIO + 'reclaim_frame_inner'], key, f.loc(bi), 'push_back_frame is reached only from reclaim_frame_inner (the single in-flight frame): %s' % callers)
                continue
            if name == PRIO + 'reclaim_frame_inner' and which == 'pending_send':
                # push_back_frame inlined by hand: the frame put back is the single in-flight frame handed back by the codec
                fr = strip(f.expr_of_op(t['a'][2])) if len(t['a']) > 2 else None
                r.check(fr is not None and any(x[0] == 'arg' for x in walk(fr)), key, f.loc(bi), 'reclaim_frame_inner puts back the in-flight frame it was handed')
                continue
            pops = [b for b, t2 in f.calls_to(DEQ + 'pop_front') if has_field(f.expr_of_op(t2['a'][0]), STREAM, which)]
            pushes_back = [b for b, t2 in f.calls_to(DEQ + 'push_back') if has_field(f.expr_of_op(t2['a'][0]), STREAM, which)]
            other_fronts = [b for b, t2 in f.calls_to(DEQ + 'push_front') if b != bi and has_field(f.expr_of_op(t2['a'][0]), STREAM, which)]
            ok = bool(pops) and f.dominated_by_blocks(bi, pops)
            why = ''
            if ok:
                # between the last pop and this push_front: no push_back / second pop of the same queue
                for p in pops:
                    if bi not in f.reachable(f.succ[p]):
                        continue
                    between = f.reachable(f.succ[p], cut_blocks=[bi])
                    for x in pushes_back:
                        if x in between and bi in f.reachable(f.succ[x], cut_blocks=pops):
                            ok = False
                            why = '; a push_back lies between the pop and the put-back'
            r.check(ok, key, f.loc(bi), 'push_front on Stream.%s in %s is a put-back of the element popped from the same queue%s' % (which, core.short(name), why))
    r.floor(n, 7, 'push_front sites on stream queues')
    # appending to a stream's send queue happens only where user frames are accepted (queue_frame, send_data); anywhere else it re-orders frames
    apps = set()
    for name, f in F.fns.items():
        if '::tests::' in name:
            continue
        for bi, t in f.calls_to(DEQ + 'push_back'):
            if has_field(f.expr_of_op(t['a'][0]), STREAM, 'pending_send'):
                apps.add(name)
                r.check(name in (PRIO + 'queue_frame', PRIO + 'send_data'), 'append|pending_send|' + name, f.loc(bi), 'push_back on Stream.pending_send in %s' % core.short(name))
    r.check(PRIO + 'queue_frame' in apps, 'append|queue_frame', '', 'Prioritize::queue_frame appends to Stream.pending_send')


READERS = {
    RECV + 'poll_data': ('Data', None),
    RECV + 'poll_trailers': ('Trailers', None),
    RECV + 'poll_response': ('Headers', 'InformationalHeaders events are skipped here by design: they are consumed through poll_informational'),
    RECV + 'poll_informational': ('InformationalHeaders', None),
    RECV + 'poll_pushed': ('Headers', None),
    RECV + 'take_request': ('Headers', None),
}


def r3_popped_delivered(ctx):
    r = ctx.rule('C01.R3', 'FLOW', 'an event popped from the receive queue is returned or put back, never silently dropped')
    F = ctx.facts
    for fname, (variant, exc) in sorted(READERS.items()):
        f = r.fn(fname)
        if not f:
            continue
        cands = [g for n2, g in F.fns.items() if n2.split('::{closure')[0] == fname and g.calls_to(DEQ + 'pop_front')]
        f = cands[0] if cands else f
        pops = [bi for bi, t in f.calls_to(DEQ + 'pop_front')]
        if not pops:
            r.bad('reader|no-pop|' + fname, f.file, '%s does not pop the receive queue: reader set changed (fail closed)' % fname)
            continue
        # arms of the match on the popped Option<Event>
        sws = [(bi, sw) for bi, sw in core.all_switches(F, f).items() if sw.kind == 'variant' and sw.adt == P + 'recv::Event']
        # drop elaboration re-tests the discriminant after the arms: keep the dispatching match only
        sws = [(bi, sw) for bi, sw in sws if not any(bi in f.reachable(f.succ[o]) for o, _ in sws if o != bi)]
        pf = [bi for bi, t in f.calls_to(DEQ + 'push_front')]
        bad = []
        for bi, sw in sws:
            for s, lab in sw.labels.items():
                if not lab or variant in lab:
                    continue
                # a non-matching event: must reach push_front, a panic (diverge) or be the documented skip
                reach = f.reachable([s], cut_blocks=pf)
                leaks = [x for x in f.returns() if x in reach]
                loops = [p for p in pops if p in reach]
                if leaks or loops:
                    bad.append((sorted(lab), bi))
        key = 'reader|' + fname
        if not bad:
            r.ok(key, f.file, '%s: every non-%s event is put back (or the function diverges)' % (fname.split('::')[-1], variant))
        elif exc:
            r.exception(key, exc)
            r.ok(key, f.file, 'named exception: ' + exc)
        else:
            r.bad(key, f.loc(bad[0][1]), '%s pops an event of kind %s and neither returns nor puts it back: the event is lost' % (fname.split('::')[-1], bad[0][0]))
    # the reader set is complete: nobody else pops pending_recv except the intended bulk drops
    allowed = set(READERS) | {RECV + 'clear_recv_buffer', RECV + 'recv_headers'}
    for name, f in F.fns.items():
        if '::tests::' in name:
            continue
        for bi, t in f.calls_to(DEQ + 'pop_front'):
            if has_field(f.expr_of_op(t['a'][0]), STREAM, 'pending_recv'):
                r.check(name.split('::{closure')[0] in allowed, 'who|pop|' + name, f.loc(bi), 'pending_recv popped in %s' % name)


def r4_arrival_order(ctx):
    r = ctx.rule('C01.R4', 'WHO', 'receive events are appended only from the connection task\'s frame handlers')
    F = ctx.facts
    pushers = {}
    for name, f in F.fns.items():
        if '::tests::' in name:
            continue
        for bi, t in f.calls_to(DEQ + 'push_back'):
            if has_field(f.expr_of_op(t['a'][0]), STREAM, 'pending_recv'):
                pushers.setdefault(name, []).append(bi)
    r.floor(len(pushers), 4, 'functions appending to Stream.pending_recv')
    roots = set(n for n in F.fns if n.startswith(P + 'streams::DynStreams::recv_'))
    handle_side = set(n for n in F.fns if n.startswith(P + 'streams::StreamRef::') or n.startswith(P + 'streams::OpaqueStreamRef::') or n.startswith(P + 'streams::Streams::'))
    for p in sorted(pushers):
        up = F.callers_closure([p])
        from_handles = sorted(x for x in up if x in handle_side and not x.startswith(P + 'streams::Streams::recv_') and 'closure' not in x)
        ok = bool(up & roots) and not from_handles
        r.check(ok, 'pusher|' + p, F.fns[p].file, '%s is reachable from DynStreams::recv_* only%s' % (core.short(p), '' if not from_handles else '; ALSO from handle-side %s (events could be appended out of arrival order)' % from_handles[:3]))


def r5_block_contiguity(ctx, rid='C01.R5'):
    r = ctx.rule(rid, 'GUARD', 'a header block is contiguous on the wire and no staged frame is overwritten: the codec accepts no frame while Encoder.next is occupied')
    F = ctx.facts
    ENC = 'codec::framed_write::Encoder'
    hc = r.fn(ENC + '::has_capacity')
    if hc:
        def oracle(sw):
            if sw.kind == 'variant' and strip(sw.subject)[0] == 'field' and core.last_field(strip(sw.subject)) == (ENC, 'next'):
                return lambda l: isinstance(l, frozenset) and 'Some' in l
            return None
        try:
            exits, parent, nforced = core.assume_scan(F, hc, oracle)
            r.check(nforced >= 1, 'has_capacity|tests-next', hc.file, 'Encoder::has_capacity tests Encoder.next')
            for (bi, rc, st) in exits:
                ok = rc in ('const:false', 'const:0')
                r.check(ok, 'has_capacity|occupied|%s' % rc, hc.loc(bi),
                        'with Encoder.next occupied (pending CONTINUATION or DATA payload) has_capacity returns %s%s' % (
                            'false' if ok else rc, '' if ok else ' — another frame can be encoded between HEADERS and its CONTINUATION, or overwrite the staged remainder'),
                        witness=core.compress_path(hc, [x['bb'] for x in core.witness_path(hc, parent, bi, st)]))
            r.check(bool(exits), 'has_capacity|exits', hc.file, '%d exit(s) explored' % len(exits))
        except core.Cap as e:
            r.bad('has_capacity|cap', hc.file, str(e))
    # every producer goes through Encoder::buffer, which asserts has_capacity first; Encoder.next is written only there and in unset_frame
    writers = set()
    for name, f in F.fns.items():
        for bi, si, pl, rv, ln in f.stmts():
            if core.write_target(f, pl) == (ENC, 'next'):
                writers.add(name.split('::{closure')[0])
    allowed = {ENC + '::buffer', ENC + '::unset_frame', 'codec::framed_write::FramedWrite::new'}
    r.check(writers <= allowed and (ENC + '::buffer') in writers, 'next|writers', '', 'Encoder.next is written by %s' % sorted(writers))
    b = F.fn(ENC + '::buffer')
    if b:
        asserts = [bi for bi, t in b.calls_to(ENC + '::has_capacity')]
        ws = [bi for bi, si, pl, rv, ln in b.stmts() if core.write_target(b, pl) == (ENC, 'next')]
        r.check(bool(asserts) and bool(ws) and all(b.dominated_by_blocks(w, asserts) for w in ws), 'buffer|asserts-first', b.file, 'Encoder::buffer stages a frame only after has_capacity()')


def run(ctx):
    r5_block_contiguity(ctx)
    from . import C06
    C06.r3_notify(ctx, 'C01.R6')  # a delivered event (incl. interim 1xx heads) wakes the task waiting for it
    from . import C20
    C20.r3_flush_handover(ctx, 'C01.R7')  # clearing one stream's queue never discards another stream's in-flight DATA tail
    from . import C12
    C12.r7_payload_range(ctx, 'C01.R9')
    C12.r10_delegation(ctx, 'C01.R10')  # HEADERS / CONTINUATION / DATA payloads are cut at the right offset on every path
    from .. import tstate
    r8 = ctx.rule('C01.R8', 'TSTATE', 'end-of-stream is reported only when END_STREAM was received: RST_STREAM yields ErrorAfterEndStream iff END_STREAM had been seen, whatever its code (30 rows)')
    tstate.recv_reset_rows(r8, ctx.facts)
    tstate.local_reset_rows(r8, ctx.facts)
    r1_end_stream_handover(ctx)
    r2_fifo(ctx)
    r3_popped_delivered(ctx)
    r4_arrival_order(ctx)


_run_rules = run


def run(ctx):
    _run_rules(ctx)
    from .. import boundaries
    boundaries.check(ctx, 'C01.RB', 'C01')
    boundaries.check_amounts(ctx, 'C01.RA', 'C01')
    boundaries.check_writes(ctx, 'C01.RW', 'C01')
    boundaries.check_guards(ctx, 'C01.RG', 'C01')
    boundaries.check_calls(ctx, 'C01.RC', 'C01')
    from .. import boundaries as _b
    _b.check_predicates(ctx, 'C01.RP', 'C01')
    from .. import boundaries as _b
    _b.check_counts(ctx, 'C01.RQ', 'C01')
