"""C14 — SETTINGS and PING acknowledged exactly once, in order; settings apply at the ACK."""
from .. import core
from ..core import strip, walk, mentions_field
from . import C08, C02

EXPLANATION = (
    "Decides: (R1 = C08.R1) at most one un-acknowledged SETTINGS / PING exists when the next frame is read, so "
    "acknowledgements are one per frame and in arrival order also under write back-pressure; (R2) in Settings::poll_send "
    "the ACK frame and the application of the peer's settings happen on exactly the same paths, with no other frame "
    "buffered in between, and the slot is cleared; (R3) each honoured setting has its consumer reachable only from that "
    "ACK path; (R4) local settings are applied to the receive side only from the peer's ACK while WaitingAck, and the "
    "3-state local machine moves ToSend->WaitingAck->Synced only there; (R5) a stray ACK is a connection PROTOCOL_ERROR; "
    "(R6) the PONG echoes the received payload; (R7) an owed SETTINGS-ack / PONG slot is emptied only on paths that buffered the reply (no loss under write back-pressure); (R8 = C02.R5/R5b) the INITIAL_WINDOW_SIZE delta reaches every stream that can still send, increase and decrease alike. Ordering inside the write buffer after the ACK is NOT decided."
)
NOT_DECIDED = "'never by more' beyond the slot argument; that frames after the ACK on the wire obey the new values"

SET = 'proto::settings::Settings'
P = 'proto::streams::'
BUFFER = 'codec::Codec::buffer'


def r2_ack_apply(ctx):
    r = ctx.rule('C14.R2', 'PASS', 'SETTINGS ACK <=> apply: same paths, nothing buffered in between, slot cleared')
    F = ctx.facts
    f = r.fn(SET + '::poll_send')
    if not f:
        return
    acks = []
    for bi, t in f.calls_to(BUFFER):
        e = f.expr_of_op(t['a'][1])
        if core.contains_call(e, 'frame::settings::Settings::ack'):
            acks.append(bi)
    r.check(len(acks) == 1, 'ack|site', f.file, 'Settings::poll_send buffers Settings::ack() at %d site(s)' % len(acks))
    if len(acks) != 1:
        return
    ack = acks[0]
    apply_ = [bi for bi, t in f.calls_to(P + 'streams::Streams::apply_remote_settings')]
    hts = [bi for bi, t in f.calls_to('codec::Codec::set_send_header_table_size')]
    mfs = [bi for bi, t in f.calls_to('codec::Codec::set_max_send_frame_size')]
    r.check(len(apply_) == 1 and len(hts) == 1 and len(mfs) == 1, 'apply|sites', f.file, 'apply_remote_settings / set_send_header_table_size / set_max_send_frame_size each called once')
    for name, bs in (('apply_remote_settings', apply_), ('set_send_header_table_size', hts), ('set_max_send_frame_size', mfs)):
        for b in bs:
            r.check(f.dominated_by_blocks(b, [ack]), 'apply-after-ack|' + name, f.loc(b), '%s is dominated by the ACK buffer call (never applied without acknowledging)' % name)
    # from the ACK every path to a non-error return passes apply_remote_settings
    if apply_:
        reach = f.reachable(f.succ[ack], cut_blocks=apply_)
        exits, ins, parent = core.scan(f, 0, None, lambda us, bi, t: (us | 1) if bi == ack else ((us | 2) if bi in apply_ else us))
        for (bi, us, rc, st) in exits:
            if us & 1 and not rc.startswith('Ready:Err') and rc != 'Err' and not rc.startswith('Err'):
                r.check(bool(us & 2), 'ack-then-apply|%s|%d' % (rc, us), f.loc(bi), 'exit %s after the ACK %s apply_remote_settings' % (rc, 'passed' if us & 2 else 'SKIPPED'),
                        witness=core.compress_path(f, [x['bb'] for x in core.witness_path(f, parent, bi, st)]))
        # no other Codec::buffer between the ACK and the last applier
        others = [bi for bi, t in f.calls_to(BUFFER) if bi != ack]
        for a in apply_ + hts + mfs:
            for o in others:
                between = o in f.reachable(f.succ[ack], cut_blocks=[a]) and a in f.reachable(f.succ[o])
                r.check(not between, 'no-frame-between|%d' % o, f.loc(o), 'no other frame is buffered between the ACK and the application of the settings')
    # the conditional setters read the right getter
    for getter, setter in (('frame::settings::Settings::header_table_size', 'codec::Codec::set_send_header_table_size'),
                           ('frame::settings::Settings::max_frame_size', 'codec::Codec::set_max_send_frame_size')):
        for bi, t in f.calls_to(setter):
            e = f.expr_of_op(t['a'][1])
            r.check(core.contains_call(e, getter), 'value|' + setter.split('::')[-1], f.loc(bi), '%s(%s)' % (setter.split('::')[-1], core.show(e)[:80]))


def r3_consumers(ctx):
    r = ctx.rule('C14.R3', 'WHO', 'every honoured remote setting has its consumer reachable from (and only from) the ACK path')
    F = ctx.facts
    ack_fn = SET + '::poll_send'
    reach = F.reach_from([ack_fn])
    consumers = [
        ('initial_window_size', 'frame::settings::Settings::initial_window_size', P + 'send::Send::apply_remote_settings'),
        ('max_concurrent_streams', 'frame::settings::Settings::max_concurrent_streams', P + 'counts::Counts::apply_remote_settings'),
        ('enable_push', 'frame::settings::Settings::is_push_enabled', P + 'send::Send::apply_remote_settings'),
        ('enable_connect_protocol', 'frame::settings::Settings::is_extended_connect_protocol_enabled', P + 'send::Send::apply_remote_settings'),
        ('header_table_size', 'frame::settings::Settings::header_table_size', ack_fn),
        ('max_frame_size', 'frame::settings::Settings::max_frame_size', ack_fn),
    ]
    for what, getter, consumer in consumers:
        cf = F.fn(consumer)
        if cf is None:
            r.bad('consumer|' + what, '', 'consumer %s not found' % consumer)
            continue
        calls_getter = any(t['fn'] == getter for n in F.reach_from([consumer], stop=[]) if n.startswith(consumer) for bi, t in (F.fns[n].calls() if n in F.fns else []))
        r.check(consumer in reach and calls_getter, 'consumer|' + what, cf.file, '%s is read by %s, reachable from Settings::poll_send' % (what, consumer.split('proto::')[-1]))
    # Send::apply_remote_settings / Counts::apply_remote_settings are not called from anywhere else
    for fn in (P + 'send::Send::apply_remote_settings', P + 'counts::Counts::apply_remote_settings', P + 'streams::Streams::apply_remote_settings'):
        callers = set(c.split('::{closure')[0] for c in F.rcg.get(fn, ()))
        chain_ok = all(ack_fn in F.callers_closure([c]) for c in callers) and bool(callers)
        r.check(chain_ok and len(callers) == 1, 'who|' + fn.split('proto::')[-1], '', 'callers of %s: %s (single chain from the ACK path)' % (fn.split('proto::')[-1], sorted(callers)))
    # the encoder/decoder table size and frame size setters on the send side are only reached from the ACK
    for fn in ('codec::Codec::set_send_header_table_size', 'codec::Codec::set_max_send_frame_size'):
        callers = set(c.split('::{closure')[0] for c in F.rcg.get(fn, ()))
        r.check(callers == {ack_fn}, 'who|' + fn.split('::')[-1], '', 'callers of %s: %s' % (fn, sorted(callers)))


def r4_local(ctx, rid='C14.R4', rid5='C14.R5'):
    r = ctx.rule(rid, 'WHO', 'local settings bind the peer only after its ACK: applied from recv_settings while WaitingAck; 3-state machine')
    F = ctx.facts
    rs = r.fn(SET + '::recv_settings')
    if not rs:
        return
    for fn in (P + 'streams::Streams::apply_local_settings', 'codec::Codec::set_recv_header_table_size'):
        callers = set(c.split('::{closure')[0] for c in F.rcg.get(fn, ()))
        r.check(callers == {rs.name}, 'who|' + fn.split('::')[-1], '', 'callers of %s: %s' % (fn.split('proto::')[-1], sorted(callers)))
    ack_edges = core.guard_edges(F, rs, ['frame::settings::Settings::is_ack'], lambda l: l is True)
    wa_edges = core.edges_where(F, rs, lambda sw: sw.kind == 'variant' and sw.adt == 'proto::settings::Local', lambda l: l == frozenset(['WaitingAck']))
    for callee in (P + 'streams::Streams::apply_local_settings', 'codec::Codec::set_recv_header_table_size', 'codec::Codec::set_max_recv_frame_size', 'codec::Codec::set_max_recv_header_list_size'):
        for bi, t in rs.calls_to(callee):
            ok = bool(ack_edges) and bool(wa_edges) and rs.dominated_by_edges(bi, ack_edges) and rs.dominated_by_edges(bi, wa_edges)
            r.check(ok, 'guard|' + callee.split('::')[-1], rs.loc(bi), '%s only on is_ack && Local::WaitingAck' % callee.split('::')[-1])
    # a SETTINGS frame is a delta: a parameter it does not carry leaves the limit in force unchanged
    for callee, getter in (('codec::Codec::set_max_recv_frame_size', 'frame::settings::Settings::max_frame_size'),
                           ('codec::Codec::set_max_recv_header_list_size', 'frame::settings::Settings::max_header_list_size'),
                           ('codec::Codec::set_recv_header_table_size', 'frame::settings::Settings::header_table_size')):
        for bi, t in rs.calls_to(callee):
            e = rs.expr_of_op(t['a'][1])
            present = any(x[0] == 'variant' and x[2] == 'Some' and core.contains_call(x[1], getter) for x in walk(e))
            defaulted = any(x[0] == 'call' and x[1].rsplit('::', 1)[-1] in ('unwrap_or', 'unwrap_or_default', 'unwrap_or_else') for x in walk(e))
            edges = core.guard_edges(F, rs, [getter], lambda l: l == frozenset(['Some']) or l is True)
            from_local = any(x[0] == 'call' and x[1] == getter and x[2] and (mentions_field(x[2][0], SET, 'local') or any(y[0] == 'variant' and y[2] == 'WaitingAck' for y in walk(x[2][0]))) for x in walk(e))
            r.check(from_local, 'delta-source|' + callee.split('::')[-1], rs.loc(bi), '%s takes its value from the acknowledged local SETTINGS (Local::WaitingAck payload)%s' % (callee.split('::')[-1], '' if from_local else ' — not from the received ACK frame, which never carries parameters'))
            ok = present and not defaulted and bool(edges) and rs.dominated_by_edges(bi, edges)
            r.check(ok, 'delta|' + callee.split('::')[-1], rs.loc(bi),
                    '%s(%s)%s' % (callee.split('::')[-1], core.show(e)[:70], ' only when the acknowledged SETTINGS carried the parameter' if ok else
                                  ' — applied even when the acknowledged SETTINGS did not carry the parameter: a later partial SETTINGS (e.g. only INITIAL_WINDOW_SIZE) silently resets the limit while the old value is still advertised'))
    # R5: stray ack
    other_edges = core.edges_where(F, rs, lambda sw: sw.kind == 'variant' and sw.adt == 'proto::settings::Local', lambda l: isinstance(l, frozenset) and 'WaitingAck' not in l and len(l) > 0)
    r5 = ctx.rule(rid5, 'TABLE', 'an ACK that answers nothing is a connection error PROTOCOL_ERROR')
    ok = bool(other_edges)
    for (a, b) in other_edges:
        reach = rs.reachable([b])
        errs = [bi for bi, t in rs.calls(lambda t: t['fn'] == 'proto::error::Error::library_go_away') if bi in reach]
        good = False
        for e in errs:
            c = strip(rs.expr_of_op(rs.term(e)['a'][0]))
            if c[0] == 'const' and c[1] == 1:
                good = True
        # and no Ok return reachable on that edge
        exits = [x for x in rs.returns() if x in reach]
        if not good:
            ok = False
        okret = [bi for bi, si, pl, rv, ln in rs.stmts() if pl == [0] and rv[0] == 'aggr' and rv[2].endswith('Result::Ok') and bi in reach]
        if okret:
            ok = False
    r5.check(ok, 'stray-ack', rs.file, 'Local::{ToSend, Synced} + ACK leads only to library_go_away(PROTOCOL_ERROR)')
    # state machine: who writes Settings.local with which variant
    writes = {}
    for name, f in F.fns.items():
        for bi, si, pl, rv, ln in f.stmts():
            fs = core.place_fields(pl)
            if fs and fs[-1] == (SET, 'local'):
                e = strip(f.expr_of_rvalue(rv))
                v = e[2].split('::')[-1] if e[0] == 'aggr' else '?'
                writes.setdefault(v, set()).add(name)
    r.check(writes.get('WaitingAck') == {SET + '::poll_send'}, 'local|WaitingAck', '', 'Local::WaitingAck is entered only in poll_send: %s' % sorted(writes.get('WaitingAck', [])))
    r.check(writes.get('Synced') == {SET + '::recv_settings'}, 'local|Synced', '', 'Local::Synced is (re)entered only in recv_settings: %s' % sorted(writes.get('Synced', [])))
    r.check(writes.get('ToSend') == {SET + '::send_settings'}, 'local|ToSend', '', 'Local::ToSend is entered only in send_settings: %s' % sorted(writes.get('ToSend', [])))
    ps = F.fn(SET + '::poll_send')
    if ps:
        # WaitingAck write is after the buffer of the local settings
        for bi, si, pl, rv, ln in ps.stmts():
            fs = core.place_fields(pl)
            if fs and fs[-1] == (SET, 'local'):
                bufs = [b for b, t in ps.calls_to(BUFFER) if not core.contains_call(ps.expr_of_op(t['a'][1]), 'frame::settings::Settings::ack')]
                r.check(bool(bufs) and ps.dominated_by_blocks(bi, bufs), 'local|WaitingAck|after-buffer', '%s:%d' % (ps.file, ln), 'WaitingAck is entered only after the local SETTINGS frame was buffered')
    ss = F.fn(SET + '::send_settings')
    if ss:
        e = core.edges_where(F, ss, lambda sw: sw.kind == 'variant' and sw.adt == 'proto::settings::Local', lambda l: l == frozenset(['Synced']))
        ws = [bi for bi, si, pl, rv, ln in ss.stmts() if core.place_fields(pl)[-1:] == [(SET, 'local')]]
        r.check(bool(e) and bool(ws) and all(ss.dominated_by_edges(w, e) for w in ws), 'local|ToSend|guard', ss.file, 'send_settings refuses while a SETTINGS is in flight (writes only from Synced)')


def r6_pong(ctx):
    r = ctx.rule('C14.R6', 'FLOW', 'the PONG echoes the payload of the PING it answers')
    F = ctx.facts
    rp = r.fn('proto::ping_pong::PingPong::recv_ping')
    if rp:
        for bi, si, pl, rv, ln in rp.stmts():
            fs = core.place_fields(pl)
            if fs and fs[-1] == ('proto::ping_pong::PingPong', 'pending_pong'):
                e = rp.expr_of_rvalue(rv)
                if strip(e)[0] == 'aggr' and strip(e)[2].endswith('Option::Some'):
                    r.check(core.contains_call(e, 'frame::ping::Ping::into_payload') and any(x == ('arg', 2) for x in walk(e)), 'store', '%s:%d' % (rp.file, ln),
                            'pending_pong = Some(%s)' % core.show(strip(e)[3][0]))
        # stored only on the non-ack branch
        edges = core.guard_edges(F, rp, ['frame::ping::Ping::is_ack'], lambda l: l is False)
        ws = [bi for bi, si, pl, rv, ln in rp.stmts() if core.place_fields(pl)[-1:] == [('proto::ping_pong::PingPong', 'pending_pong')]]
        r.check(bool(edges) and bool(ws) and all(rp.dominated_by_edges(w, edges) for w in ws), 'store|non-ack', rp.file, 'a PING with ACK set is never answered')
    sp = r.fn('proto::ping_pong::PingPong::send_pending_pong')
    if sp:
        for bi, t in sp.calls_to(BUFFER):
            e = sp.expr_of_op(t['a'][1])
            pongs = [x for x in walk(e) if x[0] == 'call' and x[1] == 'frame::ping::Ping::pong']
            ok = bool(pongs) and any(y[0] == 'call' and y[1] == 'std::option::Option::take' for y in walk(pongs[0]))
            r.check(ok, 'send', sp.loc(bi), 'buffered frame = %s' % core.show(e)[:120])
    pl_ = r.fn('frame::ping::Ping::load')
    if pl_:
        masks = [1 for bi, si, pl, rv, ln in pl_.stmts() if rv[0] == 'bin' and rv[1] == 'BitAnd' and any(c[1] == 1 for c in core.consts_in(pl_.expr_of_rvalue(rv)))]
        eqs = [1 for bi, si, pl, rv, ln in pl_.stmts() if rv[0] == 'bin' and rv[1] in ('Eq', 'Ne') and core.contains_call(pl_.expr_of_rvalue(rv), 'frame::head::Head::flag') and not any(x[0] == 'bin' and x[1] == 'BitAnd' for x in walk(pl_.expr_of_rvalue(rv)))]
        r.check(bool(masks) and not eqs, 'load|ack-is-mask', pl_.file, 'Ping::load recognises ACK by masking bit 0 (undefined flag bits are ignored, RFC 9113 §4.1), not by comparing the whole flag octet')
        # and with the right polarity: the expression stored into Ping.ack, evaluated for all 256 flag octets, is (flags & 1 != 0)
        acks = []
        for bi, si, pl, rv, ln in pl_.stmts():
            if rv[0] == 'aggr' and rv[1] == 'adt' and str(rv[2]).endswith('ping::Ping'):
                a = F.adts.get(core.norm(rv[2]))
                names = [y[0] for y in a['variants'][0]['fields']] if a else []
                if 'ack' in names:
                    acks.append(pl_.expr_of_op(rv[3][names.index('ack')]))
        bad = []
        for e in acks:
            for b in range(256):
                v = core.eval_expr(e, lambda x, b=b: b if (x[0] == 'call' and x[1] == 'frame::head::Head::flag') else None)
                if v is None or bool(v) != bool(b & 1):
                    bad.append(b)
                    break
        r.check(bool(acks) and not bad, 'load|ack-table', pl_.file, 'Ping.ack = (flags & 0x1 != 0) for all 256 flag octets%s' % ('' if not bad else ' -- differs at 0x%02x' % bad[0]))
    pg = r.fn('frame::ping::Ping::pong')
    if pg:
        agg = [pg.expr_of_rvalue(rv) for bi, si, pl, rv, ln in pg.stmts() if pl == [0] and rv[0] == 'aggr']
        ok = len(agg) == 1 and agg[0][3][0] == ('const', 1, 'true', 'bool') and strip(agg[0][3][1]) == ('arg', 1)
        r.check(ok, 'pong|ctor', pg.file, 'Ping::pong(payload) = Ping { ack: true, payload }: %s' % (core.show(agg[0]) if agg else None))


ACK_SLOTS = ((SET, 'remote', SET + '::poll_send', 'frame::settings::Settings::ack'),
             ('proto::ping_pong::PingPong', 'pending_pong', 'proto::ping_pong::PingPong::send_pending_pong', 'frame::ping::Ping::pong'))
GOAWAY_SLOT = (('proto::go_away::GoAway', 'pending', 'proto::go_away::GoAway::send_pending_go_away', 'std::option::Option::take'),)
REFUSAL_SLOT = ((P + 'recv::Recv', 'refused', P + 'recv::Recv::send_pending_refusal', 'frame::reset::Reset::new'),)


def r7_no_loss(ctx, rid='C14.R7', table=None, floor=6):
    r = ctx.rule(rid, 'PAIR', 'an owed reply is never dropped: its slot is emptied only on paths that buffered the reply')
    F = ctx.facts
    from .. import slots

    def buffers(name):
        def pred(fn, bi, t):
            return t['fn'] == BUFFER and core.contains_call(fn.expr_of_op(t['a'][1]), name)
        return pred
    n = 0
    for owner, field, drain, ack in (table or ACK_SLOTS):
        f = r.fn(drain)
        if not f:
            continue
        try:
            exits, parent = slots.loss_scan(F, f, owner, field, buffers(ack))
        except core.Cap as e:
            r.bad('no-loss|%s|cap' % field, f.file, str(e))
            continue
        owed_seen = False
        for (bi, (val, owed), rc, st) in exits:
            n += 1
            if rc == 'Err' or rc.startswith('Ready:Err') or rc.startswith('Err'):
                continue  # the connection is torn down
            if owed:
                owed_seen = True
            lost = owed and val == 'N'
            r.check(not lost, 'no-loss|%s|%s' % (field, rc), f.loc(bi),
                    '%s exit %s: slot %s, reply %s' % (drain.split('::')[-1], rc, {'N': 'emptied', 'S': 'kept', '?': 'unchanged'}[val], 'still owed — the received frame is forgotten and never acknowledged' if lost else ('still owed (slot kept)' if owed else 'buffered or nothing owed')),
                    witness=core.compress_path(f, [x['bb'] for x in core.witness_path(f, parent, bi, st)]))
        r.check(owed_seen, 'no-loss|%s|back-pressure-exit' % field, f.file, '%s has an exit that keeps the slot while the codec is not ready' % drain.split('::')[-1])
    r.floor(n, floor, 'drain exits examined')


def run(ctx):
    C08.r1_slots(ctx, 'C14.R1')
    r7_no_loss(ctx)
    from .. import hpackrules
    r10 = ctx.rule('C14.R10', 'TSTATE', 'SETTINGS_HEADER_TABLE_SIZE changes are scheduled for the next header block: final = last acknowledged value, minimum first (all orderings, = C10.R6)')
    hpackrules.size_update_schedule(r10, ctx.facts)
    from . import C15
    C15.r4b_shutdown_ping(ctx, 'C14.R9')  # a PING ack answers only the PING it echoes
    C02.r5_settings_delta(ctx, 'C14.R8')
    C02.r5b_same_streams(ctx, 'C14.R8b')
    r2_ack_apply(ctx)
    r3_consumers(ctx)
    r4_local(ctx)
    r6_pong(ctx)


_run_rules = run


def run(ctx):
    _run_rules(ctx)
    from .. import boundaries
    boundaries.check(ctx, 'C14.RB', 'C14')
    boundaries.check_inits(ctx, 'C14.RI', 'C14')
    boundaries.check_writes(ctx, 'C14.RW', 'C14')
    boundaries.check_guards(ctx, 'C14.RG', 'C14')
    boundaries.check_calls(ctx, 'C14.RC', 'C14')
    boundaries.check_amounts(ctx, 'C14.RA', 'C14')
    from .. import errdisc
    errdisc.check(ctx, 'C14.RD', 'C14', 6)
    from .. import boundaries as _b
    _b.check_predicates(ctx, 'C14.RP', 'C14')
    from .. import boundaries as _b
    _b.check_counts(ctx, 'C14.RQ', 'C14')
