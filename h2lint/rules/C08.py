"""C08 — no peer input can panic, wedge or busy-loop an endpoint."""
from .. import core, slots
from ..core import strip, walk

EXPLANATION = (
    "Decides the structural discharge of the panics a peer could otherwise reach and the loop guards: (R1) the three "
    "single-slot asserts (pending PONG, pending SETTINGS ack, pending refusal) are unreachable because each slot is filled "
    "only by its receive handler, emptied on every Ready(Ok)/Complete path of its drain, all drains are passed with their "
    "Pending/Err outcomes returning before the next frame is read, and the read is not repeatable without passing them "
    "again; (R2) every Codec::buffer outside the codec is dominated by a capacity check with no other buffer in between, "
    "discharging assert!(has_capacity()); (R4) the only self-wake is the reviewed one, the flush loop is guarded against "
    "zero-length writes; (R5) frame decode errors flow into protocol errors, never unwrap; (R3) a census of every other "
    "panic-capable site reachable from the connection entry points against a reviewed multiset. Absence of panics in the "
    "reviewed class is a recorded argument, not a proof; unbounded work per input byte is NOT decided."
)
NOT_DECIDED = "absence of panics at the reviewed (class c) sites is a human argument; 'unbounded work per input byte' and wedging in general"

P = 'proto::streams::'
POLL_READY = 'codec::Codec::poll_ready'
HAS_CAP = 'codec::Codec::has_send_capacity'
BUFFER = 'codec::Codec::buffer'

SLOTS = [
    # (owner adt, field, drain fn, ok return classes, allowed writers)
    ('proto::ping_pong::PingPong', 'pending_pong', 'proto::ping_pong::PingPong::send_pending_pong', ('Ready:Ok',),
     {'proto::ping_pong::PingPong::recv_ping', 'proto::ping_pong::PingPong::send_pending_pong'}),
    ('proto::settings::Settings', 'remote', 'proto::settings::Settings::poll_send', ('Ready:Ok',),
     {'proto::settings::Settings::recv_settings'}),
    (P + 'recv::Recv', 'refused', P + 'recv::Recv::send_pending_refusal', ('Ok:Complete',),
     {P + 'recv::Recv::open'}),
]


def r1_slots(ctx, rid='C08.R1'):
    r = ctx.rule(rid, 'POST', 'single-slot discipline: owed PONG / SETTINGS-ack / refusal slots are empty whenever the next frame is read')
    F = ctx.facts
    for owner, field, drain, okc, writers in SLOTS:
        f = r.fn(drain)
        if not f:
            continue
        exits, parent = slots.slot_scan(F, f, owner, field)
        nok = 0
        for (bi, us, rc, st) in exits:
            if rc in okc:
                nok += 1
                if us == 'N':
                    r.ok('drain|%s|%s|%s' % (field, rc, us), f.loc(bi), 'slot %s is None on a %s exit of %s' % (field, rc, drain.split('::')[-1]))
                else:
                    w = core.witness_path(f, parent, bi, st)
                    r.bad('drain|%s|%s|%s' % (field, rc, us), f.loc(bi),
                          '%s can return %s while %s.%s may still be Some: the next received frame trips the assert in its handler (peer-triggered panic) or overwrites an owed reply' % (drain, rc, owner.split('::')[-1], field),
                          witness=core.compress_path(f, [x['bb'] for x in w]))
        r.check(nok >= 1, 'drain|%s|has-ok-exit' % field, f.file, '%s has %d completing exit state(s); classes seen: %s' % (drain.split('::')[-1], nok, sorted(set(e[2] for e in exits))))
        ws = slots.slot_writers(F, owner, field)
        for w in sorted(ws):
            r.check(w in writers, 'writer|%s|%s' % (field, w), F.fns[w].file, '%s.%s = Some(..) in %s' % (owner.split('::')[-1], field, w))
        r.check(any(w in ws for w in writers), 'writer|%s|present' % field, '', 'receive handler stores into %s' % field)
    # (ii-b) Streams::send_pending_refusal maps Complete -> Ready(Ok) only
    spr = r.fn(P + 'streams::Streams::send_pending_refusal')
    if spr:
        sws = core.all_switches(F, spr)
        ok = False
        for bi, sw in sws.items():
            if sw.kind == 'variant' and sw.adt == P + 'recv::BufferStatus' or (sw.kind == 'variant' and sw.adt and sw.adt.endswith('BufferStatus')):
                for s, lab in sw.labels.items():
                    if lab == frozenset(['Complete']):
                        # from here a Ready(Ok) return; from the other edge no Ready:Ok return without looping through the drain again
                        ok = True
                    else:
                        drains = [b for b, t in spr.calls_to(P + 'recv::Recv::send_pending_refusal')]
                        reach = spr.reachable([s], cut_blocks=drains)
                        for rb in spr.returns():
                            if rb in reach:
                                # what is returned there?
                                pass
        r.check(ok, 'refusal|status-map', spr.file, 'Streams::send_pending_refusal returns Ready(Ok) on BufferStatus::Complete')
    # (iii) Connection::poll_ready passes all drains, Pending / Err return immediately
    pr = r.fn('proto::connection::Connection::poll_ready')
    drains = ['proto::ping_pong::PingPong::send_pending_pong', 'proto::ping_pong::PingPong::send_pending_ping',
              'proto::settings::Settings::poll_send', P + 'streams::Streams::send_pending_refusal']
    if pr:
        dblocks = {}
        for d in drains:
            cs = pr.calls_to(d)
            r.check(len(cs) == 1, 'poll_ready|calls|' + d.split('::')[-1], pr.file, 'Connection::poll_ready calls %s once' % d.split('::')[-1])
            if cs:
                dblocks[d] = cs[0][0]
        exits, ins, parent = core.scan(pr, 0, None, lambda us, bi, t: us | (1 << list(dblocks.values()).index(bi)) if bi in dblocks.values() else us)
        full = (1 << len(dblocks)) - 1
        for (bi, us, rc, st) in exits:
            if rc == 'Ready:Ok':
                r.check(us == full, 'poll_ready|ok-exit|%d' % us, pr.loc(bi), 'Ready(Ok) exit passed drains mask %s of %s' % (bin(us), bin(full)),
                        witness=core.compress_path(pr, [x['bb'] for x in core.witness_path(pr, parent, bi, st)]))
        # each drain's Pending and Err outcomes must leave the function before any later drain
        for d, b in dblocks.items():
            pend = core.guard_edges(F, pr, [d], lambda l: isinstance(l, frozenset) and ('Pending' in l) and 'Ready' not in l)
            errs = core.guard_edges(F, pr, [d], lambda l: isinstance(l, frozenset) and (l == frozenset(['Err']) or l == frozenset(['Ready(Err)'])))
            others = [x for x in dblocks.values() if x != b]
            okp = bool(pend)
            for (a, s) in pend + errs:
                reach = pr.reachable([s])
                if any(o in reach for o in others):
                    okp = False
            r.check(okp and bool(errs), 'poll_ready|result-used|' + d.split('::')[-1], pr.loc(b),
                    'the Pending and Err outcomes of %s return before any other drain (pending edges %d, err edges %d)' % (d.split('::')[-1], len(pend), len(errs)))
    # (iv) poll2: the read is dominated by poll_ready's Ready(Ok) and cannot repeat without passing it again
    p2 = r.fn('proto::connection::Connection::poll2')
    if p2:
        reads = [bi for bi, t in p2.calls(lambda t: t['fn'].endswith('::poll_next') and 'Codec' in t['fn'])]
        r.floor(len(reads), 1, 'frame read (Codec::poll_next) in Connection::poll2')
        prs = [bi for bi, t in p2.calls_to('proto::connection::Connection::poll_ready')]
        r.floor(len(prs), 1, 'poll_ready call in Connection::poll2')
        okedges = core.guard_edges(F, p2, ['proto::connection::Connection::poll_ready'], lambda l: isinstance(l, frozenset) and ('Ok' in l or 'Ready(Ok)' in l or l == frozenset(['Continue'])))
        readyedges = core.guard_edges(F, p2, ['proto::connection::Connection::poll_ready'], lambda l: isinstance(l, frozenset) and 'Ready' in l and 'Pending' not in l)
        for rd in reads:
            ok = bool(okedges) and bool(readyedges) and p2.dominated_by_edges(rd, okedges) and p2.dominated_by_edges(rd, readyedges)
            r.check(ok, 'poll2|read-guarded', p2.loc(rd), 'the frame read is dominated by the Ready and Ok edges of poll_ready')
            again = p2.reachable(p2.succ[rd], cut_blocks=prs)
            r.check(rd not in again, 'poll2|read-not-repeatable', p2.loc(rd), 'no path from the frame read back to itself avoids poll_ready')
    # ping_shutdown assert: go_away_gracefully is the only caller and returns early when already going away
    ps = 'proto::ping_pong::PingPong::ping_shutdown'
    callers = sorted(F.rcg.get(ps, ()))
    r.check(callers == ['proto::connection::Connection::go_away_gracefully'], 'ping_shutdown|who', '', 'callers of PingPong::ping_shutdown: %s' % callers)
    gg = F.fn('proto::connection::Connection::go_away_gracefully')
    if gg:
        edges = core.guard_edges(F, gg, ['proto::go_away::GoAway::is_going_away'], lambda l: l is False)
        cs = [bi for bi, t in gg.calls_to(ps)]
        r.check(bool(cs) and bool(edges) and all(gg.dominated_by_edges(c, edges) for c in cs), 'ping_shutdown|guard', gg.file,
                'ping_shutdown is called only when !is_going_away (so pending_ping is None: the shutdown ping is armed once)')


def lift_site(F, fname, bi):
    """if fname is a closure, return (parent fn, block of the call that receives it) else (fn, bi)"""
    f = F.fns[fname]
    while f.kind == 'Closure' and not f.coroutine and f.parent and f.parent in F.fns:
        pf = F.fns[f.parent]
        site = None
        for b, t in pf.calls():
            if f.name in t['cls']:
                site = b
        if site is None:
            for b, si, pl, rv, ln in pf.stmts():
                if rv[0] == 'aggr' and rv[1] == 'closure' and core.norm(rv[2]) == f.name:
                    site = b
        if site is None:
            return f, None
        f, bi = pf, site
    return f, bi


def r2_buffer_guard(ctx, rid='C08.R2'):
    r = ctx.rule(rid, 'GUARD', 'every Codec::buffer outside the codec is dominated by a capacity check with no other buffer in between')
    F = ctx.facts
    sites = []
    for name, f in F.fns.items():
        if name.startswith('codec::') or name.startswith('<codec::') or '::tests::' in name:
            continue
        for bi, t in f.calls_to(BUFFER):
            sites.append((name, bi))
    r.floor(len(sites), 10, 'Codec::buffer call sites outside codec')
    for name, bi in sorted(sites):
        f0 = F.fns[name]
        f, site = lift_site(F, name, bi)
        key = 'site|%s|%s' % (name, _frame_kind(f0, bi))
        if site is None:
            r.bad(key, f0.loc(bi), 'cannot locate the call that runs this closure: fail closed')
            continue
        ready_e = core.guard_edges(F, f, [POLL_READY], lambda l: l == frozenset(['Ready']) or l is True)
        cap_e = core.guard_edges(F, f, [HAS_CAP], lambda l: l is True)
        # poll_ready()?.is_ready() negated forms resolve to variant label {'Ready'}; `ready!(poll_ready)?` to {'Ready'} then Ok
        guards = ready_e + cap_e
        fresh = [b for b, t in f.calls(lambda t: t['fn'] in ('codec::Codec::new', 'codec::Codec::with_max_recv_frame_size'))]
        others = [b for b, t in f.calls_to(BUFFER) if b != site] + [b for b, t in f.calls() if b != site and any(c != name and BUFFER in F.cg.get(c, ()) for c in t['cls'])]
        ok = f.dominated_by_edges(site, guards, extra_cut_blocks=fresh) if (guards or fresh) else False
        why = ''
        if ok:
            # no other buffer between the guard and this site: from any other buffer call the site must not be
            # reachable without crossing a guard edge again
            for o in others:
                reach = f.reachable(f.succ[o], cut_edges=guards)
                if site in reach:
                    ok = False
                    why = '; another Codec::buffer at %s reaches it without a new capacity check' % f.loc(o)
        r.check(ok, key, f0.loc(bi), 'Codec::buffer in %s: %s%s' % (name, 'guarded by poll_ready/has_send_capacity' if ok else 'NOT dominated by a capacity check: assert!(self.has_capacity()) in Encoder::buffer becomes reachable', why),
                witness=core.compress_path(f, f.path_between(0, site, cut_edges=guards) or []) if not ok else None)


def _frame_kind(f, bi):
    t = f.term(bi)
    e = f.expr_of_op(t['a'][1])
    for x in walk(e):
        if x[0] == 'call' and x[1].startswith('frame::') and x[1].split('::')[-1] in ('new', 'ack', 'pong', 'from', 'headers', 'trailers'):
            return x[1].replace('frame::', '')
        if x[0] == 'call' and x[1].endswith('>::from') and 'frame::' in x[1]:
            return x[1].split('<impl std::convert::From<')[-1].split('>')[0]
    return core.show(e)[:40]


def r4_loops(ctx, rid='C08.R4'):
    r = ctx.rule(rid, 'GUARD', 'no self-sustaining wake, no zero-progress write loop')
    F = ctx.facts
    # self wakes: wake_by_ref on the current context's waker
    selfw = []
    for name, f in F.fns.items():
        for bi, t in f.calls(lambda t: t['fn'] in ('std::task::Waker::wake_by_ref',)):
            e = f.expr_of_op(t['a'][0])
            if core.contains_call(e, 'std::task::Context::waker'):
                selfw.append((name, bi))
    allowed = {'<client::Connection as std::future::Future>::poll', '<client::Connection as futures_core::Future>::poll'}
    for name, bi in selfw:
        f = F.fns[name]
        r.check(name in allowed, 'selfwake|' + name, f.loc(bi), 'cx.waker().wake_by_ref() in %s' % name)
    r.check(len(selfw) <= 1, 'selfwake|count', '', '%d self-wake site(s)' % len(selfw))
    c = F.fn('<client::Connection as std::future::Future>::poll') or F.fn('<client::Connection as futures_core::Future>::poll')
    if c and selfw:
        # behind had_streams && !has_streams
        for name, bi in selfw:
            if name != c.name:
                continue
            e1 = core.guard_edges(F, c, [P + 'streams::Streams::has_streams_or_other_references', 'proto::connection::Connection::has_streams_or_other_references'], lambda l: l is not None)
            r.check(bool(e1) and c.dominated_by_edges(bi, e1), 'selfwake|guard', c.loc(bi), 'the self-wake is control-dependent on has_streams_or_other_references (it happens once, when the last reference disappeared during the poll)')
    # flush: back edge of the write loop control-dependent on n != 0
    fl = r.fn('codec::framed_write::FramedWrite::flush')
    if fl:
        writes = [bi for bi, t in fl.calls(lambda t: t['fn'].endswith('poll_write_buf'))]
        r.floor(len(writes), 2, 'poll_write_buf sites in FramedWrite::flush')
        zero_edges = []
        for bi, sw in core.all_switches(F, fl).items():
            if sw.kind == 'cmp' and sw.subject[1] in ('Eq', 'Ne'):
                a, b = strip(sw.subject[2]), strip(sw.subject[3])
                if b[0] == 'const' and b[1] == 0 or a[0] == 'const' and a[1] == 0:
                    for s, l in sw.labels.items():
                        if (sw.subject[1] == 'Eq' and l is False) or (sw.subject[1] == 'Ne' and l is True):
                            zero_edges.append((bi, s))
            if sw.kind == 'int' and 0 in sw.labels.values():
                for s, l in sw.labels.items():
                    if l != 0:
                        zero_edges.append((bi, s))
        ok = bool(zero_edges)
        for w in writes:
            # from the write, getting back to a write requires the n != 0 edge
            reach = fl.reachable(fl.succ[w], cut_edges=zero_edges)
            if any(x in reach for x in writes):
                ok = False
        r.check(ok, 'flush|zero-write', fl.file, 'every path from a write back to a write in FramedWrite::flush takes the n != 0 edge (a transport returning Ok(0) cannot spin the loop)')


def r5_decode_errors(ctx, rid='C08.R5'):
    r = ctx.rule(rid, 'FORBID', 'frame decode results are never unwrapped: errors become protocol errors')
    F = ctx.facts
    loaders = set(n for n in F.fns if n.startswith('frame::') and n.split('::')[-1] in ('load', 'load_hpack') and 'closure' not in n)
    r.floor(len(loaders), 8, 'frame load functions')
    n = 0
    for name, f in F.fns.items():
        if not (name.startswith('codec::framed_read') or name.startswith('<codec::framed_read')):
            continue
        for bi, t in f.calls(lambda t: t['fn'] in ('std::result::Result::unwrap', 'std::result::Result::expect', 'std::option::Option::unwrap', 'std::option::Option::expect')):
            e = f.expr_of_op(t['a'][0])
            srcs = [x[1] for x in walk(e) if x[0] == 'call' and x[1] in loaders]
            n += 1
            r.check(not srcs, 'unwrap|%s|%s' % (name, t['fn'].split('::')[-1]), f.loc(bi), 'unwrap/expect on %s' % (srcs or core.show(e)[:80]))
    df = r.fn('codec::framed_read::decode_frame')
    if df:
        used = set(t['fn'] for bi, t in df.calls() if t['fn'] in loaders)
        r.check(len(used) >= 8, 'decode_frame|loaders', df.file, 'decode_frame dispatches to %d load functions' % len(used))
        # every loader result is matched (Try::branch or discriminant), i.e. flows into a switch
        for bi, t in df.calls(lambda t: t['fn'] in loaders):
            edges = core.edges_where(F, df, lambda sw: any(x[0] == 'call' and x[3] == bi for x in walk(sw.subject)), lambda l: isinstance(l, frozenset) and 'Err' in l)
            r.check(bool(edges), 'decode_frame|err-edge|' + t['fn'].replace('frame::', ''), df.loc(bi), 'the Err outcome of %s is branched on' % t['fn'])


def r3_decode_panics(ctx, rid='C08.R3'):
    import collections
    import json
    import os
    from .. import panics
    r = ctx.rule(rid, 'CENSUS', 'decode region: constant-index accesses are dominated by a sufficient length test; every other panic-capable site is reviewed')
    F = ctx.facts
    table = json.load(open(os.path.join(os.path.dirname(os.path.abspath(__file__)), 'C08_sites.json')))['sites']
    seen = collections.Counter()
    auto = collections.Counter()
    where = {}
    for s in panics.sites(F):
        if s['status'] == 'BAD':
            r.bad('const-oob|%s|%s' % (s['fn'], s['sig']), s['f'].loc(s['bi']), 'constant index outside a constant-length array in %s' % s['fn'])
        elif s['status']:
            auto[s['status']] += 1
            if s['kind'] in ('bounds', 'slice'):
                r.ok('guarded|%s|%s|%s' % (s['fn'], s['kind'], s['sig']), s['f'].loc(s['bi']), '%s: %s (%s)' % (s['kind'], s['need'], s['status']))
        else:
            k = '%s|%s|%s' % (s['fn'], s['kind'], s['sig'])
            seen[k] += 1
            where.setdefault(k, s)
    for st, n in sorted(auto.items()):
        r.stat(st, n)
    for k, n in sorted(seen.items()):
        s = where[k]
        ent = table.get(k)
        if ent is not None and n <= ent['count']:
            r.ok('reviewed|' + k, s['f'].loc(s['bi']), ent['reason'])
        else:
            what = {'bounds': 'index', 'slice': 'slice range', 'overflow': 'arithmetic', 'panic': 'panic / unwrap / assert'}.get(s['kind'], s['kind'])
            r.bad('unreviewed|' + k, s['f'].loc(s['bi']),
                  '%s in %s (%s; needs %s) is reachable from peer input and is neither dominated by a sufficient guard nor in the reviewed table%s: a frame crafted by the peer can panic the connection task'
                  % (what, s['fn'], s['sig'], s['need'], '' if ent is None else ' (%d copies, %d reviewed)' % (n, ent['count'])),
                  witness=core.compress_path(s['f'], s['f'].path_between(0, s['bi']) or []))
    r.floor(auto.get('auto:length-test-dominates', 0), 20, 'constant-index accesses discharged by a dominating length test')
    r.floor(sum(seen.values()), 25, 'reviewed residual sites (the census sees the decode region)')


def r6_reset_counter(ctx):
    r = ctx.rule('C08.R6', 'TSTATE', 'remote-reset pending-accept counter: every stream that next_incoming will decrement was counted (assert!(num_remote_reset_streams > 0) unreachable)')
    F = ctx.facts
    from .. import absint, rfcstates as R
    from ..absint import B, TOP
    SP = 'proto::streams::state::State::'
    CNT = P + 'counts::Counts::'
    rr = r.fn(P + 'recv::Recv::recv_reset')
    srr = r.fn(SP + 'recv_reset')
    if not rr or not srr:
        return
    # who counts / uncounts
    incs = set(c.split('::{closure')[0] for c in F.rcg.get(CNT + 'inc_num_remote_reset_streams', ()))
    decs = set(c.split('::{closure')[0] for c in F.rcg.get(CNT + 'dec_num_remote_reset_streams', ()))
    r.check(incs == {rr.name}, 'who|inc', '', 'inc_num_remote_reset_streams called from %s' % sorted(incs))
    r.check(decs == {P + 'streams::Streams::next_incoming'}, 'who|dec', '', 'dec_num_remote_reset_streams called from %s' % sorted(decs))
    # the decrement is keyed on State::is_remote_reset
    for name in sorted(F.rcg.get(CNT + 'dec_num_remote_reset_streams', ())):
        g = F.fns.get(name)
        if g is None:
            continue
        edges = core.guard_edges(F, g, [SP + 'is_remote_reset'], lambda l: l is True)
        for bi, t in g.calls_to(CNT + 'dec_num_remote_reset_streams'):
            r.check(bool(edges) and g.dominated_by_edges(bi, edges), 'dec|keyed-on-remote-reset', g.loc(bi), 'the decrement happens exactly for streams whose state is a remote reset when they are accepted')
    # for every state a pending-accept stream can be in: if this RST_STREAM turns the state into a remote reset,
    # the stream must have been counted on that path
    inline = set(n for n in F.fns if n.startswith(SP + 'is_'))
    n = 0
    for s in R.concrete_states():
        called = []
        models = dict(R.models())
        models[CNT + 'can_inc_num_remote_reset_streams'] = lambda a: B(True)
        models[CNT + 'inc_num_remote_reset_streams'] = lambda a, c=called: (c.append(1), ('k', '()'))[1]
        models[SP + 'recv_reset'] = lambda a: ('k', '()')
        stream = ('ref', ('s', P + 'stream::Stream', (('is_pending_accept', B(True)), ('state', ('s', R.ST, (('inner', s),))))))
        it = absint.Interp(F, models=models, inline=inline)
        try:
            out = it.run(rr, {1: TOP, 2: TOP, 3: stream, 4: TOP})
        except (core.Cap, absint.Unsupported) as e:
            r.bad('count|interp', rr.file, 'cannot evaluate Recv::recv_reset: %s' % e)
            return
        oks = [ret for ret, fin in out if R.ret_class(ret).startswith('Ok')]
        counted = bool(called)
        for q in (False, True):
            m2 = dict(R.models())
            m2['proto::error::Error::remote_reset'] = lambda a: ('k', 'remote')
            it2 = absint.Interp(F, models=m2, inline={SP + 'is_recv_end_stream', SP + 'is_closed'})
            out2 = it2.run(srr, {1: R.state_obj(s), 2: TOP, 3: B(q)})
            becomes_remote = False
            for ret, fin in out2:
                ns = R.final_state(fin)
                if ns is not None and ns != TOP and ns[2] == 'Closed' and ns[3] and ns[3][0] != TOP and ns[3][0][0] == 'e' and ns[3][0][3] and ns[3][0][3][0] == ('k', 'remote'):
                    becomes_remote = True
            n += 1
            if becomes_remote:
                r.check(counted and bool(oks), 'count|%s|queued=%s' % (absint.show(s), str(q).lower()), rr.file,
                        'pending-accept stream in %s (own RST queued: %s) receives RST_STREAM: the state becomes a remote reset and the stream %s' % (
                            absint.show(s), q, 'is counted' if counted else 'is NOT counted — next_incoming will decrement a counter that was never incremented: assert!(num_remote_reset_streams > 0) panics in poll_accept'))
    r.floor(n, 30, 'state x queued rows')


def r11_preface(ctx):
    r = ctx.rule('C08.R11', 'GUARD', 'server preface: each read is bounded by the bytes still missing, which is what keeps the PREFACE[pos..pos+n] comparison in range')
    F = ctx.facts
    cands = [f for n, f in F.fns.items() if n.startswith('<server::ReadPreface as ') and n.endswith('::poll')]
    if len(cands) != 1:
        r.bad('preface|anchor', '', 'ReadPreface::poll not found (%d)' % len(cands))
        return
    f = cands[0]
    n = 0
    for bi, t in f.calls(lambda t: t['fn'] == 'tokio::io::ReadBuf::new'):
        n += 1
        e = f.expr_of_op(t['a'][0])
        ranged = [x for x in walk(e) if x[0] == 'call' and ('index_mut' in x[1] or x[1].endswith('::index')) and len(x[2]) == 2 and x[2][1][0] == 'aggr' and 'RangeTo' in str(x[2][1][2])]
        r.check(bool(ranged), 'preface|read-bounded', f.loc(bi),
                'ReadBuf::new(%s)%s' % (core.show(e)[:80], ' — bounded by the remaining length' if ranged else
                                        ' — unbounded: a read that returns the rest of the preface together with following bytes makes PREFACE[pos..pos+n] index out of range (panic on valid input)'))
    r.floor(n, 1, 'ReadBuf::new sites in ReadPreface::poll')
    # the loop bound: rem = PREFACE.len() - pos, decreased by what was read
    subs = [1 for bi, si, pl, rv, ln in f.stmts() if rv[0] == 'bin' and rv[1].startswith('Sub')]
    r.check(len(subs) >= 2, 'preface|remaining-tracked', f.file, 'the remaining length is computed and decreased (%d subtractions)' % len(subs))


def r7_frame_size_floor(ctx):
    r = ctx.rule('C08.R7', 'GUARD', 'a peer cannot set a max frame size under which header-block / DATA writing makes no progress: SETTINGS_MAX_FRAME_SIZE below 2^14 is refused on load')
    from . import C12
    C12.max_frame_size_range(r, ctx.facts)


def run(ctx):
    r1_slots(ctx)
    r6_reset_counter(ctx)
    r7_frame_size_floor(ctx)
    r11_preface(ctx)
    from . import C09, C19
    C09.r8_idle_boundary(ctx, 'C08.R9')   # a reset id is retired, so Store::insert's assert on a fresh id is unreachable
    C19.r6_idle_client(ctx, 'C08.R10')    # the client's only self-wake is edge-triggered (had streams/refs before, none after)
    r2_buffer_guard(ctx)
    r3_decode_panics(ctx)
    r4_loops(ctx)
    r5_decode_errors(ctx)


_run_rules = run


def run(ctx):
    _run_rules(ctx)
    from .. import boundaries
    boundaries.check(ctx, 'C08.RB', 'C08')
    boundaries.check_calls(ctx, 'C08.RC', 'C08')
    boundaries.check_guards(ctx, 'C08.RG', 'C08')
    boundaries.check_amounts(ctx, 'C08.RA', 'C08')
    boundaries.check_writes(ctx, 'C08.RW', 'C08')
    from . import C14
    C14.r7_no_loss(ctx, 'C08.R8', C14.REFUSAL_SLOT + C14.ACK_SLOTS, floor=3)
    from .. import boundaries as _b
    _b.check_predicates(ctx, 'C08.RP', 'C08')
    from .. import boundaries as _b
    _b.check_updates(ctx, 'C08.RU', 'C08')
    from .. import hpackrules as _hp
    r12 = ctx.rule('C08.R12', 'GUARD', 'no peer-chosen HPACK index reaches the unreachable!() of get_static: Table::get rejects index 0 and calls get_static only for 1 <= index <= 61; size updates stay within the allowance (= C11.R4 limits)')
    _hp.decoder_limits(r12, ctx.facts)
