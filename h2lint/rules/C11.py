"""C11 — HPACK / Huffman decoding agrees with RFC 7541 on every input, however split."""
from .. import core, tables

EXHAUSTIVE = True
EXPLANATION = (
    "R1 is exhaustive: every one of the 3840 entries of the Huffman DECODE_TABLE (read from the compiler's const-eval "
    "allocation) equals the 8-bit-stride trie computed from the RFC 7541 Appendix B code (independent reference data), "
    "including the invalid marker for EOS and all branch indices in range. R3 compares every arm of get_static with "
    "Appendix A. R2/R4/R5/R6 decide structural necessary conditions of the padding rule, the integer / size-update "
    "limits, resumable consumption and dynamic-table accounting. Agreement of the decoded field list with the RFC for "
    "every byte string is NOT decided."
)
NOT_DECIDED = "that the produced field list equals the RFC's for every byte string; whole == piecewise decoding as values; the numeric table-size bound"


def run(ctx):
    F = ctx.facts
    r = ctx.rule('C11.R1', 'TABLE', 'Huffman DECODE_TABLE is exactly the byte-stride trie of the RFC 7541 Appendix B code (exhaustive)')
    tables.huffman_decode_rule(r, F)
    r = ctx.rule('C11.R3', 'TABLE', 'get_static = RFC 7541 Appendix A; Table::get rejects index 0 and out-of-range indices')
    tables.static_table_rules(r, F, which=('get',))
