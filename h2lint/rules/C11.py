"""C11 — HPACK / Huffman decoding agrees with RFC 7541 on every input, however split."""
from .. import core, tables, hpackrules

EXHAUSTIVE = True
EXPLANATION = (
    "R1 is exhaustive: every one of the 3840 entries of the Huffman DECODE_TABLE (read from the compiler's const-eval "
    "allocation) equals the 8-bit-stride trie computed from the RFC 7541 Appendix B code (independent reference data), "
    "including the invalid marker for EOS and all branch indices in range. R2: the padding / EOS rule is present "
    "(Ok only with no half-decoded symbol, all-ones tail). R3: every arm of get_static equals Appendix A; Table::get "
    "rejects 0 and out-of-range indices. R4: Representation::load agrees with section 6 on all 256 first bytes, the "
    "varint loop is limited to 5 octets, size updates only at the start of a block and within the allowance (sibling "
    "field arms agree). R5: only fully decoded fields are consumed (resumability). R6: dynamic-table accounting is paired. "
    "Agreement of the decoded field list with the RFC for every byte string is NOT decided."
)
NOT_DECIDED = "that the produced field list equals the RFC's for every byte string; whole == piecewise decoding as values; the numeric table-size bound"


def run(ctx):
    F = ctx.facts
    r = ctx.rule('C11.R1', 'TABLE', 'Huffman DECODE_TABLE is exactly the byte-stride trie of the RFC 7541 Appendix B code (exhaustive)')
    tables.huffman_decode_rule(r, F)
    r = ctx.rule('C11.R3', 'TABLE', 'get_static = RFC 7541 Appendix A; Table::get rejects index 0 and out-of-range indices')
    tables.static_table_rules(r, F, which=('get',))
    r = ctx.rule('C11.R4', 'GUARD', 'representation classes (256 bytes, exhaustive), integer and size-update limits, Huffman padding rule')
    hpackrules.representation_table(r, F)
    hpackrules.decoder_prefixes(r, F)
    hpackrules.decoder_limits(r, F)
    r = ctx.rule('C11.R5', 'PASS', 'resumability: only fully decoded fields are consumed')
    hpackrules.resumability(r, F)
    r = ctx.rule('C11.R6', 'PAIR', 'decoder dynamic-table accounting is paired')
    hpackrules.table_accounting(r, F)
    r = ctx.rule('C11.R9', 'GUARD', 'every field of a block is decoded even when the block is refused: the callback breaks off only on the connection-fatal abuse limit')
    hpackrules.decode_runs_to_end(r, F)
    from . import C14
    C14.r4_local(ctx, 'C11.R8', 'C11.R8b')  # the decoder's size-update ceiling follows the acknowledged local HEADER_TABLE_SIZE
    r = ctx.rule('C11.R7', 'TABLE', 'entry size = 32 + name + value with the right pseudo-name lengths (RFC 7541 §4.1)')
    hpackrules.entry_size(r, F)


_run_rules = run


def run(ctx):
    _run_rules(ctx)
    from .. import boundaries
    boundaries.check(ctx, 'C11.RB', 'C11')
    boundaries.check_codes(ctx, 'C11.RE', 'C11')
    boundaries.check_writes(ctx, 'C11.RW', 'C11')
    boundaries.check_guards(ctx, 'C11.RG', 'C11')
    from .. import boundaries as _b
    _b.check_updates(ctx, 'C11.RU', 'C11')
    from .. import boundaries as _b
    _b.check_amounts(ctx, 'C11.RA', 'C11')
    from .. import boundaries as _b
    _b.check_counts(ctx, 'C11.RQ', 'C11')
