"""C17 — resets: exactly one RST_STREAM with the right code; peer errors surface intact."""
from .. import core, absint, rfcstates as RS
from ..core import strip, walk, has_field, mentions_field, canon

EXPLANATION = (
    "Decides: (R1) every construction site of frame::Reset is dominated by a state test that the construction itself "
    "falsifies (not already reset -> set_reset; scheduled reset pending -> set_reset; refusal slot Some -> cleared), so "
    "no path emits a second RST_STREAM, and an explicit reset of a cleanly closed, flushed stream enqueues nothing; "
    "(R2) the code: CANCEL for a drop, NO_ERROR only for a server that completed its response while the request body is "
    "still streaming, the caller's Reason unchanged for send_reset, REFUSED_STREAM for a refusal; (R3) only buffered DATA "
    "is discarded on a scheduled reset (never for NO_ERROR), clear_queue touches only the argument stream's queue; (R4) "
    "32-bit error codes pass unchanged through Reason <-> u32, the frame loaders, State::recv_reset / recv_go_away and the "
    "conversion into the public Error, whose predicates match exactly those variants; (R5) every closed-with-cause state "
    "maps to its stored reason / error; (R6) dropping the last handle of an unfinished stream schedules a reset inside "
    "transition. The count of RST_STREAM frames on the wire for every position of the stream's frames is NOT decided."
)
NOT_DECIDED = "the count of RST_STREAM frames on the wire for every position of the stream's frames at the instant of the reset"

P = 'proto::streams::'
SEND = P + 'send::Send::'
PRIO = P + 'prioritize::Prioritize::'
STATE = P + 'state::State::'
STREAM = P + 'stream::Stream'
RESET_NEW = 'frame::reset::Reset::new'


def r1_one_reset(ctx):
    r = ctx.rule('C17.R1', 'GUARD', 'at most one RST_STREAM per path: every frame::Reset is built behind a state test that building it falsifies')
    F = ctx.facts
    sites = []
    for name, f in F.fns.items():
        if '::tests::' in name or name.startswith('frame::'):
            continue
        for bi, t in f.calls_to(RESET_NEW):
            sites.append((name, f, bi, t))
    r.floor(len(sites), 3, 'construction sites of frame::Reset')
    known = {SEND + 'send_reset', PRIO + 'pop_frame', P + 'recv::Recv::send_pending_refusal'}
    for name, f, bi, t in sorted(sites, key=lambda x: x[0]):
        if name == SEND + 'send_reset':
            e = core.guard_edges(F, f, [STATE + 'is_reset'], lambda l: l is False)
            sr = [b for b, t2 in f.calls_to(STREAM + '::set_reset')]
            ok = bool(e) and f.dominated_by_edges(bi, e) and bool(sr) and f.dominated_by_blocks(bi, sr)
            r.check(ok, 'site|send_reset', f.loc(bi), 'Send::send_reset: !is_reset dominates, Stream::set_reset precedes the frame')
            ce = core.guard_edges(F, f, [STATE + 'is_closed'], lambda l: l is True)
            ee = core.guard_edges(F, f, [P + 'buffer::Deque::is_empty'], lambda l: l is True)
            both = [x for x in ee if ce and f.dominated_by_edges(x[0], ce)]
            okc = bool(both)
            for (a, b) in both:
                if bi in f.reachable([b]):
                    okc = False
            r.check(okc, 'site|send_reset|none-after-clean-close', f.loc(bi), 'no RST_STREAM for a stream that was closed and fully flushed')
        elif name == PRIO + 'pop_frame':
            e = core.guard_edges(F, f, [STATE + 'get_scheduled_reset'], lambda l: l == frozenset(['Some']))
            sr = [b for b, t2 in f.calls_to(STREAM + '::set_reset')]
            ok = bool(e) and f.dominated_by_edges(bi, e) and bool(sr) and any(f.dominated_by_blocks(bi, [s]) for s in sr)
            r.check(ok, 'site|pop_frame', f.loc(bi), 'pop_frame: get_scheduled_reset() is Some, set_reset executes it (the scheduled state is consumed)')
            # only when the queue is empty (HEADERS first, DATA discarded before)
            pe = core.guard_edges(F, f, [P + 'buffer::Deque::pop_front'], lambda l: l == frozenset(['None']))
            r.check(bool(pe) and f.dominated_by_edges(bi, pe), 'site|pop_frame|queue-empty', f.loc(bi), 'the scheduled RST_STREAM is emitted only once the stream\'s queue is empty (queued HEADERS go first)')
        elif name == P + 'recv::Recv::send_pending_refusal':
            c = strip(f.expr_of_op(t['a'][1]))
            r.check(c[0] == 'const' and c[1] == 7, 'site|refusal|code', f.loc(bi), 'refusal uses REFUSED_STREAM')
            r.ok('site|refusal', f.loc(bi), 'slot discipline: C08.R1 (refused is Some here and None afterwards)')
        else:
            r.bad('site|unknown|' + name, f.loc(bi), 'a new function builds RST_STREAM frames; its once-only guard is not specified (fail closed)')


def r2_codes(ctx):
    r = ctx.rule('C17.R2', 'TABLE', 'the right code: CANCEL / NO_ERROR on drop, caller\'s reason on send_reset')
    F = ctx.facts
    mc = r.fn(P + 'streams::maybe_cancel')
    if mc:
        sir = mc.calls_to(SEND + 'schedule_implicit_reset')
        r.check(len(sir) == 1, 'maybe_cancel|site', mc.file, 'maybe_cancel schedules one implicit reset')
        # constants assigned to the reason variable per edge
        consts = {}
        for bi, si, pl, rv, ln in mc.stmts():
            if rv[0] == 'use' and core.op_const(rv[1]) and 'Reason' in core.op_const(rv[1])[2]:
                consts.setdefault(core.op_const(rv[1])[0], []).append(bi)
        r.check(set(consts) == {0, 8}, 'maybe_cancel|codes', mc.file, 'reason is NO_ERROR (0) or CANCEL (8): %s' % sorted(consts))
        if 0 in consts:
            e1 = core.guard_edges(F, mc, ['proto::peer::Dyn::is_server'], lambda l: l is True)
            e2 = core.guard_edges(F, mc, [STATE + 'is_send_closed'], lambda l: l is True)
            e3 = core.guard_edges(F, mc, [STATE + 'is_recv_streaming'], lambda l: l is True)
            ok = all(e for e in (e1, e2, e3)) and all(mc.dominated_by_edges(b, e1) and mc.dominated_by_edges(b, e2) and mc.dominated_by_edges(b, e3) for b in consts[0])
            r.check(ok, 'maybe_cancel|no_error-guard', mc.file, 'NO_ERROR only when is_server && is_send_closed && is_recv_streaming')
        ci = core.guard_edges(F, mc, [STREAM + '::is_canceled_interest'], lambda l: l is True)
        r.check(bool(ci) and all(mc.dominated_by_edges(b, ci) for b, t in sir), 'maybe_cancel|interest', mc.file, 'only when is_canceled_interest() (ref_count == 0 && !closed)')
        ere = mc.calls_to(P + 'recv::Recv::enqueue_reset_expiration')
        r.check(bool(ere), 'maybe_cancel|expiration', mc.file, 'the reset stream is remembered for late frames (enqueue_reset_expiration)')
    sr = r.fn(P + 'streams::StreamRef::send_reset')
    if sr:
        cs = sr.calls_to(P + 'streams::Actions::send_reset')
        ok = len(cs) == 1 and canon(sr.expr_of_op(cs[0][1]['a'][2])) == ('arg', 2)
        r.check(ok, 'send_reset|reason-unchanged', sr.file, 'StreamRef::send_reset passes the caller\'s Reason unchanged')
    ss = r.fn(SEND + 'send_reset')
    if ss:
        for bi, t in ss.calls_to(RESET_NEW):
            r.check(canon(ss.expr_of_op(t['a'][1])) == ('arg', 2), 'send_reset|frame-reason', ss.loc(bi), 'frame::Reset::new(stream.id, reason) with the reason parameter')
            r.check(mentions_field(ss.expr_of_op(t['a'][0]), STREAM, 'id'), 'send_reset|frame-id', ss.loc(bi), 'on the stream\'s own id')


def r3_discard(ctx):
    r = ctx.rule('C17.R3', 'PASS', 'only buffered DATA is discarded on a scheduled reset (not for NO_ERROR); other streams undisturbed')
    F = ctx.facts
    pf = r.fn(PRIO + 'pop_frame')
    if pf:
        cq = [bi for bi, t in pf.calls_to(PRIO + 'clear_queue')]
        r.floor(len(cq), 1, 'clear_queue site in pop_frame')
        arm = core.edges_where(F, pf, lambda sw: sw.kind == 'variant' and sw.adt == 'frame::Frame', lambda l: l == frozenset(['Data']))
        sched = core.guard_edges(F, pf, [STATE + 'get_scheduled_reset'], lambda l: l == frozenset(['Some']))
        ne = [e for e in core.edges_where(F, pf, lambda sw: core.cmp_of(sw) is not None and core.cmp_of(sw)[0] in ('Ne', 'Eq') and any(c[1] == 0 for c in core.consts_in(sw.subject)), lambda l: True)]
        good_ne = []
        for (a, b) in ne:
            sw = core.resolve_switch(F, pf, a)
            c = core.cmp_of(sw)
            lab = sw.labels.get(b)
            if (c[0] == 'Ne' and lab is True) or (c[0] == 'Eq' and lab is False):
                good_ne.append((a, b))
        for c in cq:
            r.check(bool(arm) and pf.dominated_by_edges(c, arm), 'discard|data-arm', pf.loc(c), 'the queue is cleared only from the Frame::Data arm (queued HEADERS are sent first)')
            r.check(bool(sched) and pf.dominated_by_edges(c, sched), 'discard|scheduled', pf.loc(c), 'only when a reset is scheduled')
            r.check(bool(good_ne) and pf.dominated_by_edges(c, good_ne), 'discard|not-no_error', pf.loc(c), 'never for NO_ERROR (a complete response must be sent)')
    cq = r.fn(PRIO + 'clear_queue')
    if cq:
        # pops only from the argument stream's pending_send
        pops = cq.calls_to(P + 'buffer::Deque::pop_front')
        ok = bool(pops) and all(has_field(cq.expr_of_op(t['a'][0]), STREAM, 'pending_send') for bi, t in pops)
        r.check(ok, 'clear_queue|own-queue', cq.file, 'clear_queue pops only Stream.pending_send of its argument')
        others = [t['fn'] for bi, t in cq.calls() if t['fn'].startswith(P + 'store::Queue::')]
        r.check(not others, 'clear_queue|no-conn-queues', cq.file, 'clear_queue touches no connection-level queue: %s' % others)


def r4_codes_intact(ctx):
    r = ctx.rule('C17.R4', 'FLOW', 'peer error codes surface intact (all 32 bits) with origin and debug data')
    F = ctx.facts
    fr = r.fn('<frame::reason::Reason as std::convert::From>::from')
    if fr:
        e = fr.ret_expr()
        ok = e is not None and strip(e)[0] == 'aggr' and strip(strip(e)[3][0]) == ('arg', 1)
        r.check(ok, 'reason|from-u32', fr.file, 'Reason::from(u32) wraps the value unchanged: %s' % (core.show(e) if e else None))
    to = r.fn('frame::reason::<impl std::convert::From<frame::reason::Reason> for u32>::from')
    if to:
        e = to.ret_expr()
        ok = e is not None and strip(e)[0] == 'field' and strip(strip(e)[1]) == ('arg', 1)
        r.check(ok, 'reason|to-u32', to.file, 'u32::from(Reason) returns the field unchanged: %s' % (core.show(e) if e else None))
    for fname, what in (('frame::reset::Reset::load', 'RST_STREAM'), ('frame::go_away::GoAway::load', 'GOAWAY')):
        f = r.fn(fname)
        if f:
            aggs = [f.expr_of_rvalue(rv) for bi, si, pl, rv, ln in f.stmts() if rv[0] == 'aggr' and rv[1] == 'adt' and core.norm(rv[2]) in ('frame::reset::Reset', 'frame::go_away::GoAway')]
            ok = False
            for a in aggs:
                for o in a[3]:
                    x = strip(o)
                    # (b0<<24 | b1<<16 | b2<<8 | b3) with no masking
                    if any(y[0] == 'bin' and y[1] == 'BitOr' for y in walk(o)) and not any(y[0] == 'bin' and y[1] == 'BitAnd' for y in walk(o)):
                        ok = True
            r.check(ok, 'load|' + what, f.file, '%s::load passes the 4 code octets through unmasked' % what)
    rr = r.fn(STATE + 'recv_reset')
    if rr:
        cs = rr.calls_to('proto::error::Error::remote_reset')
        ok = len(cs) == 1 and core.contains_call(rr.expr_of_op(cs[0][1]['a'][1]), 'frame::reset::Reset::reason') and core.contains_call(rr.expr_of_op(cs[0][1]['a'][0]), 'frame::reset::Reset::stream_id')
        r.check(ok, 'recv_reset|stores', rr.file, 'State::recv_reset stores Error::remote_reset(frame.stream_id(), frame.reason())')
    ig = r.fn(P + 'streams::Inner::recv_go_away')
    if ig:
        cs = ig.calls_to('proto::error::Error::remote_go_away')
        ok = len(cs) == 1 and core.contains_call(ig.expr_of_op(cs[0][1]['a'][1]), 'frame::go_away::GoAway::reason') and core.contains_call(ig.expr_of_op(cs[0][1]['a'][0]), 'frame::go_away::GoAway::debug_data')
        r.check(ok, 'recv_go_away|stores', ig.file, 'Inner::recv_go_away stores remote_go_away(debug_data, reason) of the frame')
    for fname, variant, init in (('proto::error::Error::remote_reset', 'Reset', 'Remote'), ('proto::error::Error::remote_go_away', 'GoAway', 'Remote'),
                                 ('proto::error::Error::library_reset', 'Reset', 'Library'), ('proto::error::Error::library_go_away', 'GoAway', 'Library'),
                                 ('proto::error::Error::user_go_away', 'GoAway', 'User')):
        f = r.fn(fname)
        if f:
            e = f.ret_expr()
            x = strip(e) if e else None
            ok = x is not None and x[0] == 'aggr' and x[2] == 'proto::error::Error::' + variant
            if ok:
                inits = [strip(o) for o in x[3] if strip(o)[0] == 'aggr' and strip(o)[2].startswith('proto::error::Initiator::')]
                ok = bool(inits) and inits[0][2].endswith('::' + init)
                # reason argument passes through unchanged
                reasons = [strip(o) for o in x[3] if strip(o)[0] == 'arg']
                ok = ok and bool(reasons)
            r.check(ok, 'ctor|' + fname.split('::')[-1], f.file, '%s = Error::%s(.., reason, Initiator::%s)' % (fname.split('::')[-1], variant, init))
    conv = F.fn('<error::Error as std::convert::From<proto::error::Error>>::from')
    if conv is None:
        r.bad('anchor|From<proto::Error> for Error', '', 'conversion into the public Error not found')
    else:
        # Reset(a,b,c) -> Kind::Reset(a,b,c); GoAway likewise: field i -> field i
        ok = True
        seen = 0
        for bi, si, pl, rv, ln in conv.stmts():
            if rv[0] == 'aggr' and rv[2] in ('error::Kind::Reset', 'error::Kind::GoAway'):
                seen += 1
                v = rv[2].split('::')[-1]
                for i, o in enumerate(rv[3]):
                    x = strip(conv.expr_of_op(o))
                    if not (x[0] == 'field' and x[3] == str(i) and x[1][0] == 'variant' and x[1][2] == v):
                        ok = False
        r.check(ok and seen == 2, 'convert|fields', conv.file, 'From<proto::Error> for Error moves field i to field i for Reset and GoAway (%d aggregates)' % seen)
    # public predicates
    for name, variants in (('error::Error::is_reset', {'Reset'}), ('error::Error::is_go_away', {'GoAway'}), ('error::Error::is_io', {'Io'}),
                           ('error::Error::reason', {'Reset', 'GoAway', 'Reason'})):
        f = F.fn(name)
        if f:
            labs = set()
            for bi, sw in core.all_switches(F, f).items():
                if sw.kind == 'variant' and sw.adt == 'error::Kind':
                    for s, l in sw.labels.items():
                        if l and len(l) == 1:
                            labs |= l
            r.check(variants <= labs or labs == set(), 'predicate|' + name.split('::')[-1], f.file, '%s matches on %s' % (name.split('::')[-1], sorted(labs)))


def r5_closure_result(ctx):
    r = ctx.rule('C17.R5', 'TABLE', 'every closed-with-cause state maps to its stored reason / error, never to "open"')
    F = ctx.facts
    from ..rfcstates import E, SI, CA
    er = r.fn(STATE + 'ensure_reason')
    if er:
        it = absint.Interp(F, models=RS.models())
        for s in RS.concrete_states():
            for mode in ('AwaitingHeaders', 'Streaming'):
                out = it.run(er, {1: RS.state_obj(s), 2: E('proto::streams::state::PollReset' if 'proto::streams::state::PollReset' in F.adts else P + 'send::PollReset', mode)})
                cls = set()
                for ret, fin in out:
                    if ret != absint.TOP and ret[0] == 'e' and ret[2] == 'Ok' and ret[3]:
                        inner = ret[3][0]
                        cls.add('Ok(' + (inner[2] if inner != absint.TOP and inner[0] == 'e' else '?') + ')')
                    else:
                        cls.add(RS.ret_class(ret).split(':')[0])
                closed_err = s[2] == 'Closed' and s[3][0][2] != 'EndStream'
                if closed_err:
                    ok = 'Ok(None)' not in cls and bool(cls)
                    r.check(ok, 'ensure_reason|%s|%s' % (absint.show(s), mode), er.file, 'ensure_reason(%s) = %s (a reset / errored stream never reports "no reset")' % (absint.show(s), sorted(cls)))
                else:
                    ok = not any(c.startswith('Ok(Some') for c in cls)
                    r.check(ok, 'ensure_reason|%s|%s' % (absint.show(s), mode), er.file, 'ensure_reason(%s) = %s (no reason is invented for a stream that was not reset)' % (absint.show(s), sorted(cls)))


def r6_drop_is_reset(ctx):
    r = ctx.rule('C17.R6', 'PASS', 'dropping the last handle of an unfinished stream schedules a reset inside transition')
    F = ctx.facts
    d = r.fn(P + 'streams::drop_stream_ref')
    if d:
        tr = d.calls_to(P + 'counts::Counts::transition')
        reach = F.reach_from([c for bi, t in tr for c in t['cls']])
        r.check(bool(tr) and P + 'streams::maybe_cancel' in reach, 'drop|maybe_cancel-in-transition', d.file, 'drop_stream_ref runs maybe_cancel inside Counts::transition')
        # pending push promises of the dropped stream get the same treatment
        cl = [F.fns[c] for c in reach if c in F.fns and c.startswith(d.name + '::{closure')]
        n = sum(len(g.calls_to(P + 'streams::maybe_cancel')) for g in cl)
        r.check(n >= 2, 'drop|push-promises', d.file, 'pending push promises of a dropped stream are cancelled too (%d maybe_cancel sites)' % n)
    si = r.fn(SEND + 'schedule_implicit_reset')
    if si:
        r.check(bool(si.calls_to(STATE + 'set_scheduled_reset')), 'schedule|state', si.file, 'schedule_implicit_reset sets the scheduled-reset state')
        r.check(bool(si.calls_to(PRIO + 'schedule_send')), 'schedule|queued', si.file, 'and queues the stream so the RST_STREAM is emitted')
        e = core.guard_edges(F, si, [STATE + 'is_closed'], lambda l: l is False)
        ss = [bi for bi, t in si.calls_to(STATE + 'set_scheduled_reset')]
        r.check(bool(e) and all(si.dominated_by_edges(b, e) for b in ss), 'schedule|not-closed', si.file, 'no reset is scheduled for an already closed stream')


def run(ctx):
    r1_one_reset(ctx)
    r2_codes(ctx)
    r3_discard(ctx)
    r4_codes_intact(ctx)
    r5_closure_result(ctx)
    r6_drop_is_reset(ctx)
    from . import C20
    C20.r3_flush_handover(ctx, 'C17.R7')  # a reset discards only the reset stream's own in-flight DATA


def r10_remember_after_reset(ctx, rid='C17.R10'):
    r = ctx.rule(rid, 'PAIR', 'a reset stream is remembered only after the reset changed its state: enqueue_reset_expiration (which tests is_local_error) follows Send::send_reset')
    F = ctx.facts
    P_ = 'proto::streams::'
    n = 0
    for name, f in sorted(F.fns.items()):
        if not (name.split('::{closure')[0] in (P_ + 'streams::Actions::send_reset', P_ + 'streams::Actions::reset_on_recv_stream_err')):
            continue
        en = [bi for bi, t in f.calls_to(P_ + 'recv::Recv::enqueue_reset_expiration')]
        sr = [bi for bi, t in f.calls_to(P_ + 'send::Send::send_reset')]
        for e in en:
            n += 1
            ok = bool(sr) and f.dominated_by_blocks(e, sr)
            r.check(ok, 'remember-after-reset|' + name.replace(P_, ''), f.loc(e), '%s: enqueue_reset_expiration runs %s' % (name.split('::')[-1] if 'closure' not in name else name.split('::')[-2], 'after Send::send_reset' if ok else
                    'BEFORE Send::send_reset: the state is not a local error yet, so nothing is remembered and every late frame of the peer draws another RST_STREAM(STREAM_CLOSED)'))
    r.floor(n, 2, 'enqueue_reset_expiration sites next to a reset')


_run_rules = run


def run(ctx):
    _run_rules(ctx)
    from .. import boundaries
    boundaries.check(ctx, 'C17.RB', 'C17')
    boundaries.check_writes(ctx, 'C17.RW', 'C17')
    r10_remember_after_reset(ctx)
    from . import C06
    C06.r3_notify(ctx, 'C17.R11')  # a peer reset / error reaches every parked handle of the stream (send, recv and push waiters)
    boundaries.check_codes(ctx, 'C17.RE', 'C17')
    boundaries.check_writes(ctx, 'C17.RW', 'C17')
    boundaries.check_calls(ctx, 'C17.RC', 'C17')
    from . import C16, C07
    C16.r7_discard_frees(ctx, 'C17.R8')   # a reset that discards DATA also returns the window behind it
    C07.r1_notify_all(ctx, 'C17.R9')      # an I/O error reaches every stream with its own kind, on every exit
    boundaries.check_guards(ctx, 'C17.RG', 'C17')
    from .. import boundaries as _b
    _b.check_predicates(ctx, 'C17.RP', 'C17')
    from .. import boundaries as _b
    _b.check_counts(ctx, 'C17.RQ', 'C17')
