"""C02 — never sends more DATA than the peer's stream and connection windows allow."""
from .. import core
from ..core import strip, walk, has_field, mentions_field, canon
from . import C03, C08

EXPLANATION = (
    "Decides the structural guards of the send-side window invariant in the single place where DATA leaves a stream "
    "queue (Prioritize::pop_frame): (R1) the length handed to Buf::take is a chain of cmp::min whose leaves include the "
    "stream's available window and the max-frame-size parameter, and the site is dominated by the not-greater edge of a "
    "comparison with the stream window the peer knows; (R2) double entry — Stream::send_data, the connection "
    "FlowControl::send_data and assign_capacity are called with that same value; (R3) a zero window puts a non-empty "
    "frame back instead of sending; (R4) window arithmetic is checked; (R5) a SETTINGS window delta reaches every stream "
    "(dec_send_window / inc via recv_stream_window_update inside try_for_each) and init_window_sz is stored. The numeric "
    "invariant (sum of bytes <= grants over every history) is NOT decided."
)
NOT_DECIDED = "the numeric invariant itself (sum of bytes <= grants for every history); that reclaimed tails and capacity re-assignment keep it"

P = 'proto::streams::'
PRIO = P + 'prioritize::Prioritize'
STREAM = P + 'stream::Stream'
FC = P + 'flow_control::FlowControl::'
POP = PRIO + '::pop_frame'


def min_leaves(e):
    e = strip(e)
    if e[0] == 'call' and e[1] in ('std::cmp::min', 'std::cmp::Ord::min', 'core::cmp::min') and len(e[2]) == 2:
        return min_leaves(e[2][0]) + min_leaves(e[2][1])
    return [e]


def take_sites(F):
    """(closure/function, block, parent pop_frame block)"""
    out = []
    for name, f in F.fns.items():
        if not name.startswith(POP):
            continue
        for bi, t in f.calls(lambda t: t['fn'] in ('bytes::Buf::take', 'bytes::buf::Buf::take')):
            out.append((f, bi, t))
    return out


def r1_bounded_length(ctx):
    r = ctx.rule('C02.R1', 'FLOW', 'the DATA length written is min(..) of the stream window and the max frame size, behind the peer-window comparison')
    F = ctx.facts
    pf = r.fn(POP)
    if not pf:
        return None
    sites = take_sites(F)
    r.floor(len(sites), 1, 'Buf::take site wrapping a DATA payload in pop_frame')
    lens = []
    for f, bi, t in sites:
        n = f.expr_of_op(t['a'][1])
        leaves = min_leaves(n)
        has_avail = any(core.contains_call(l, FC + 'available') and mentions_field(l, STREAM, 'send_flow') for l in leaves)
        maxlen_local = [i for i in range(1, pf.argc + 1) if pf.local_name(i) == 'max_len']
        has_max = any(strip(l) == ('arg', maxlen_local[0]) for l in leaves) if maxlen_local else False
        ok = has_avail and has_max and len(leaves) >= 3
        r.check(ok, 'take|bounds', f.loc(bi), 'take(n): n = min over %d leaves: %s%s' % (len(leaves), [core.show(l)[:50] for l in leaves],
                                                                                    '' if ok else ' — must include send_flow.available() and the max_len parameter'))
        lens.append(canon(n))
        # dominated (in pop_frame) by the false edge of `len > stream.send_flow.window_size()`
        _, site = C08.lift_site(F, f.name, bi)
        edges = core.edges_where(F, pf, lambda sw: sw.kind == 'cmp' and sw.subject[1] == 'Gt' and core.contains_call(sw.subject[3], FC + 'window_size') and mentions_field(sw.subject[3], STREAM, 'send_flow'),
                                 lambda l: l is False)
        # `len > 0 && len > window`: the piece may also be built when len == 0 (an empty frame needs no window)
        lhs = set(canon(core.resolve_switch(F, pf, a).subject[2]) for a, b in edges)
        zero_edges = core.edges_where(F, pf, lambda sw: sw.kind == 'cmp' and sw.subject[1] == 'Gt' and strip(sw.subject[3])[0] == 'const' and strip(sw.subject[3])[1] == 0 and canon(sw.subject[2]) in lhs,
                                      lambda l: l is False)
        r.check(site is not None and bool(edges) and pf.dominated_by_edges(site, edges + zero_edges), 'take|peer-window', f.loc(bi),
                'the piece is built only on the not-greater edge of `len > stream.send_flow.window_size()`')
    return lens


def r2_double_entry(ctx, lens):
    r = ctx.rule('C02.R2', 'PAIR', 'double entry for sent bytes: stream ledger, connection window and connection availability move by the same value')
    F = ctx.facts
    if not lens:
        r.bad('no-length', '', 'no DATA length found (C02.R1 failed): cannot pair')
        return
    n = lens[0]
    want = [(STREAM + '::send_data', 1, None, 'Stream::send_data'),
            (FC + 'send_data', 1, (PRIO, 'flow'), 'connection FlowControl::send_data'),
            (FC + 'assign_capacity', 1, (PRIO, 'flow'), 'connection FlowControl::assign_capacity')]
    fns = [f for name, f in F.fns.items() if name.startswith(POP)]
    for callee, idx, recv, what in want:
        found = []
        for f in fns:
            for bi, t in f.calls_to(callee):
                if recv and not has_field(f.expr_of_op(t['a'][0]), recv[0], recv[1]):
                    continue
                found.append((f, bi, canon(f.expr_of_op(t['a'][idx]))))
        same = [x for x in found if _same_len(x[2], n)]
        r.check(len(found) == 1 and len(same) == 1, 'pair|' + what.split('::')[-1] + ('|conn' if recv else ''), found[0][0].loc(found[0][1]) if found else '',
                '%s called with %s; written length %s' % (what, core.show(found[0][2])[:80] if found else 'NOTHING', core.show(n)[:80]))


def _same_len(a, b):
    """equal up to the usize/u32 casts and the (eos, len) tuple hop"""
    return a == b or strip(a) == strip(b) or _core_len(a) == _core_len(b)


def _core_len(e):
    e = strip(e)
    return e


def r3_zero_window(ctx):
    r = ctx.rule('C02.R3', 'GUARD', 'a zero (or negative) stream window puts a non-empty DATA frame back instead of sending it')
    F = ctx.facts
    pf = r.fn(POP)
    if not pf:
        return
    # switch on `stream_capacity == 0` (Window: PartialEq<usize>)
    edges = []
    for bi, sw in core.all_switches(F, pf).items():
        calls = [x for x in walk(sw.subject) if x[0] == 'call']
        if any('flow_control::Window' in c[1] and c[1].endswith('::eq') for c in calls) and any(c[1] == 0 for c in core.consts_in(sw.subject)):
            for s, l in sw.labels.items():
                if l is True:
                    edges.append((bi, s))
    pfs = [bi for bi, t in pf.calls_to(P + 'buffer::Deque::push_front')]
    sites = [C08.lift_site(F, f.name, bi)[1] for f, bi, t in take_sites(F)]
    ok = bool(edges) and bool(pfs) and bool(sites)
    for (a, b) in edges:
        reach = pf.reachable([b], cut_blocks=pfs)
        if any(s in reach for s in sites):
            ok = False
    r.check(ok, 'zero-window|put-back', pf.file, 'on `stream_capacity == 0` (with sz > 0) every path passes push_front before any piece can be built')
    # that test is itself under `sz > 0`
    gt = core.edges_where(F, pf, lambda sw: sw.kind == 'cmp' and sw.subject[1] == 'Gt' and strip(sw.subject[3])[0] == 'const' and strip(sw.subject[3])[1] == 0 and core.contains_call(sw.subject[2], 'bytes::Buf::remaining'), lambda l: l is True)
    r.check(bool(gt) and all(pf.dominated_by_edges(a, gt) for (a, b) in edges), 'zero-window|only-nonempty', pf.file, 'empty DATA frames (e.g. a bare END_STREAM) are still sent on a zero window')


def r5_settings_delta(ctx, rid='C02.R5'):
    r = ctx.rule(rid, 'PASS', 'a SETTINGS_INITIAL_WINDOW_SIZE delta reaches every stream and is remembered')
    F = ctx.facts
    f = r.fn(P + 'send::Send::apply_remote_settings')
    if not f:
        return
    tfe = f.calls(lambda t: t['fn'] == P + 'store::Store::try_for_each')
    r.check(len(tfe) == 2, 'delta|two-arms', f.file, 'apply_remote_settings iterates the store in both the decrease and the increase arm (%d try_for_each)' % len(tfe))
    reach_dec = False
    reach_inc = False
    for bi, t in tfe:
        reach = F.reach_from(t['cls'])
        if FC + 'dec_send_window' in reach:
            reach_dec = True
        if P + 'send::Send::recv_stream_window_update' in reach or FC + 'inc_window' in reach:
            reach_inc = True
    r.check(reach_dec, 'delta|decrease', f.file, 'the decrease arm calls dec_send_window for every stream')
    r.check(reach_inc, 'delta|increase', f.file, 'the increase arm calls recv_stream_window_update (inc_window) for every stream')
    ws = [(bi, rv) for bi, si, pl, rv, ln in f.stmts() if core.write_target(f, pl) == (P + 'send::Send', 'init_window_sz')]
    ok = bool(ws)
    for bi, rv in ws:
        e = f.expr_of_rvalue(rv)
        if not core.contains_call(e, 'frame::settings::Settings::initial_window_size'):
            ok = False
    some = core.guard_edges(F, f, ['frame::settings::Settings::initial_window_size'], lambda l: l == frozenset(['Some']))
    for (a, b) in some:
        reach = f.reachable([b], cut_blocks=[bi for bi, rv in ws])
        if any(x in reach for x in f.returns()):
            ok = False
    r.check(ok and bool(some), 'delta|remembered', f.file, 'Send.init_window_sz = the new value on every path where initial_window_size() is Some')
    # the deltas are old - new / new - old
    subs = [f.expr_of_rvalue(rv) for bi, si, pl, rv, ln in f.stmts() if rv[0] == 'bin' and rv[1].startswith('Sub')]
    r.check(len(subs) >= 2, 'delta|amounts', f.file, 'both deltas are computed by subtraction of old and new value')


def _guard_atoms(F, f, edges):
    """atoms (calls, fields, constants) of the switch subjects that decide the given edges, and of the
    switches dominating them within the same short-circuit chain"""
    atoms = set()
    for (a, b) in edges:
        sw = core.resolve_switch(F, f, a)
        for x in walk(sw.subject):
            if x[0] == 'call' and x[1].startswith('proto::'):
                atoms.add('call:' + x[1].split('::')[-1])
            if x[0] == 'field' and x[2].startswith('proto::'):
                atoms.add('field:' + x[3])
            if x[0] == 'const' and isinstance(x[1], int):
                atoms.add('const:%d' % x[1])
    return atoms


def skip_guard(F, f):
    """atoms of the condition under which the function returns early with Ok(()) before touching the window"""
    touch = [bi for bi, t in f.calls(lambda t: t['fn'] in (FC + 'dec_send_window', FC + 'inc_window'))]
    if not touch:
        return None
    # switches from which one successor reaches a return without passing `touch` and another reaches `touch`
    edges = []
    for bi, sw in core.all_switches(F, f).items():
        if not all(f.dominated_by_blocks(t, [bi]) or True for t in touch):
            continue
        if not any(bi in f.reachable([0], cut_blocks=touch) for _ in (0,)):
            continue
        succs = list(sw.labels)
        skip = [s for s in succs if not any(t in f.reachable([s]) for t in touch)]
        go = [s for s in succs if any(t in f.reachable([s]) for t in touch)]
        if skip and go and not sw_is_tracing(f, bi):
            edges += [(bi, s) for s in skip]
    # the short-circuit chain: deciding switches that dominate a skip edge and can still reach the window update
    chain = list(edges)
    dom = f.dom
    for (a, b) in edges:
        for bi, sw in core.all_switches(F, f).items():
            if bi != a and bi in dom.get(a, ()) and not sw_is_tracing(f, bi) and sw.kind in ('bool', 'cmp', 'variant'):
                if any(t in f.reachable([s]) for s in sw.labels for t in touch) and any(a in f.reachable([s]) for s in sw.labels):
                    chain += [(bi, s) for s in sw.labels if a in f.reachable([s])]
    return _guard_atoms(F, f, chain)


def sw_is_tracing(f, bi):
    t = f.term(bi)
    return bool(t.get('exp')) and ('trace' in t['exp'] or 'debug' in t['exp'])


def r5b_same_streams(ctx, rid='C02.R5b'):
    r = ctx.rule(rid, 'PAIR', 'a window decrease and a window increase apply to the same set of streams (sibling skip guards agree)')
    F = ctx.facts
    dec = [g for n, g in F.fns.items() if n.startswith(P + 'send::Send::apply_remote_settings::{closure') and g.calls_to(FC + 'dec_send_window')]
    inc = F.fn(PRIO + '::recv_stream_window_update')
    r.check(len(dec) == 1 and inc is not None, 'anchors', '', 'decrease closure and Prioritize::recv_stream_window_update found')
    if len(dec) != 1 or inc is None:
        return
    a = skip_guard(F, dec[0])
    b = skip_guard(F, inc)
    r.check(a is not None and b is not None and bool(a) and a == b, 'skip-guards-agree', dec[0].file,
            'streams skipped by a SETTINGS window decrease: %s; streams skipped by an increase / WINDOW_UPDATE: %s%s' % (sorted(a or []), sorted(b or []),
            '' if a == b else ' — a stream that receives increments but not decrements ends up with more window than the peer granted'))
    r.check(a is not None and 'field:buffered_send_data' in a and 'call:is_send_closed' in a, 'skip-guard|content', dec[0].file,
            'a stream is skipped only when its send half is closed AND nothing is buffered (queued DATA still needs a correct window)')


def r6_signed_windows(ctx):
    r = ctx.rule('C02.R6', 'FLOW', 'negative windows are tracked: every update of FlowControl.window_size is computed from the signed field, never from the clamped accessors')
    F = ctx.facts
    FCT = P + 'flow_control::FlowControl'
    WIN = P + 'flow_control::Window'
    clamps = {FC + 'window_size', FC + 'available', WIN + '::as_size', WIN + '::checked_size'}
    n = 0
    for fname in ('inc_window', 'dec_send_window', 'dec_recv_window', 'send_data'):
        f = r.fn(FC + fname)
        if not f:
            continue
        ws = [(bi, rv, ln) for bi, si, pl, rv, ln in f.stmts() if core.write_target(f, pl) == (FCT, 'window_size')]
        calls = [bi for bi, t in f.calls(lambda t: t['fn'] in (WIN + '::decrease_by', WIN + '::increase_by') and has_field(f.expr_of_op(t['a'][0]), FCT, 'window_size'))]
        r.check(bool(ws) or bool(calls), 'updates|' + fname, f.file, '%s updates FlowControl.window_size (%d writes, %d in-place updates)' % (fname, len(ws), len(calls)))
        for bi, rv, ln in ws:
            n += 1
            e = f.expr_of_rvalue(rv)
            signed = mentions_field(e, WIN, '0') and mentions_field(e, FCT, 'window_size')
            clamped = [x[1].split('::')[-1] for x in walk(e) if x[0] == 'call' and x[1] in clamps]
            r.check(signed and not clamped, 'signed|' + fname, '%s:%d' % (f.file, ln),
                    'new window = %s%s' % (core.show(e)[:90], '' if (signed and not clamped) else ' — computed through a clamping accessor (%s): a negative window is forgotten' % (clamped or 'no signed source')))
    r.floor(n, 1, 'direct writes of FlowControl.window_size')


def run(ctx):
    lens = r1_bounded_length(ctx)
    r2_double_entry(ctx, lens)
    r3_zero_window(ctx)
    C03.r8_checked_arith(ctx, 'C02.R4')
    r5_settings_delta(ctx)
    r5b_same_streams(ctx)
    r6_signed_windows(ctx)


_run_rules = run


def run(ctx):
    _run_rules(ctx)
    from .. import boundaries
    boundaries.check(ctx, 'C02.RB', 'C02')
    boundaries.check_layering(ctx, 'C02.RL')
    boundaries.check_inits(ctx, 'C02.RI', 'C02')
    boundaries.check_writes(ctx, 'C02.RW', 'C02')
    boundaries.check_guards(ctx, 'C02.RG', 'C02')
    boundaries.check_calls(ctx, 'C02.RC', 'C02')
    from .. import tstate
    r7 = ctx.rule('C02.R7', 'TSTATE', 'the predicates that decide which streams receive window deltas agree with the reference on all 15 states (is_send_closed, is_send_streaming)')
    tstate.predicates(r7, ctx.facts, ['is_send_closed', 'is_send_streaming'])
    boundaries.check_amounts(ctx, 'C02.RA', 'C02')
    boundaries.check_stream_new(ctx, 'C02.RN')
    from .. import boundaries as _b
    _b.check_predicates(ctx, 'C02.RP', 'C02')
    from .. import boundaries as _b
    _b.check_updates(ctx, 'C02.RU', 'C02')
    from .. import boundaries as _b
    _b.check_counts(ctx, 'C02.RQ', 'C02')
