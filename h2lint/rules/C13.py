"""C13 — malformed HTTP messages are neither delivered nor generated."""
import itertools

from .. import core, absint, rfcstates as R
from ..absint import E, B, TOP
from ..core import strip, walk, has_field, mentions_field

EXPLANATION = (
    "The property is close to a finite predicate and most of it is decided: (R1) the pseudo-header validity relation of "
    "requests (server::Peer::convert_poll_message) and responses (client::Peer::convert_poll_message) is extracted "
    "exhaustively by abstract interpretation over presence of the six pseudo fields x is-CONNECT x path-empty and "
    "compared with RFC 9113 section 8.3 / 8.5 and RFC 8441: an invalid combination must have no Ok outcome, a valid one "
    "at least one; trailers must test for pseudo fields; (R2) the connection-specific field names refused on send equal "
    "those refused on receive and RFC 9113 section 8.2.2; (R3) every outbound HEADERS / PUSH_PROMISE path is filtered; "
    "(R4) content-length is enforced on every body path with the unpadded length; (R5) pseudo fields after regular "
    "fields or repeated are flagged for all six; (R6) malformed => stream error. Field values (:path syntax, authority "
    "form) are delegated to the http crate and NOT decided."
)
NOT_DECIDED = "field values (:path syntax, authority form — delegated to the http crate); the generate side beyond the filter"

P = 'proto::streams::'
OPT = 'std::option::Option'
NAMES = ['method', 'scheme', 'authority', 'path', 'protocol', 'status']


def pseudo(pres):
    return ('s', 'frame::headers::Pseudo', tuple(sorted((n, E(OPT, 'Some', (TOP,)) if pres[n] else E(OPT, 'None')) for n in NAMES)))


def request_valid(p, connect, path_empty):
    """RFC 9113 §8.3.1, §8.5; RFC 8441 §4"""
    if not p['method'] or p['status']:
        return False
    if connect and not p['protocol']:
        return (not p['scheme']) and (not p['path']) and p['authority']
    if connect and p['protocol']:
        return p['scheme'] and p['path'] and not path_empty
    return (not p['protocol']) and p['scheme'] and p['path'] and not path_empty


def response_valid(p):
    return p['status'] and not any(p[n] for n in NAMES if n != 'status')


def label(p, connect, path_empty):
    return ''.join((':' + n[:2]) if p[n] else '' for n in NAMES) + ('|CONNECT' if connect else '') + ('|empty-path' if path_empty else '') or '(none)'


def r1_pseudo(ctx):
    r = ctx.rule('C13.R1', 'TSTATE', 'pseudo-header presence obligations (request, response, trailers) vs RFC 9113 §8.3 (exhaustive)')
    F = ctx.facts
    srv = r.fn('<server::Peer as proto::peer::Peer>::convert_poll_message')
    cli = r.fn('<client::Peer as proto::peer::Peer>::convert_poll_message')
    n = 0
    if srv:
        for bits in itertools.product([0, 1], repeat=6):
            p = dict(zip(NAMES, bits))
            for connect in ((False, True) if p['method'] else (False,)):
                for pe in ((False, True) if p['path'] else (False,)):
                    models = {'<http::Method as std::cmp::PartialEq>::eq': lambda a, v=connect: B(v),
                              'core::str::<impl str>::is_empty': lambda a, v=pe: B(v)}
                    it = absint.Interp(F, models=models)
                    out = it.run(srv, {1: pseudo(p)})
                    cls = set(R.ret_class(ret).split(':')[0] for ret, fin in out)
                    valid = bool(request_valid(p, connect, pe))
                    n += 1
                    key = 'request|%s' % label(p, connect, pe)
                    if valid:
                        r.check('Ok' in cls, key, srv.file, 'valid request %s: outcomes %s (legal traffic must be accepted)' % (label(p, connect, pe), sorted(cls)))
                    else:
                        r.check('Ok' not in cls and bool(cls), key, srv.file,
                                'request with pseudo fields %s is malformed (RFC 9113 §8.3.1/§8.5): outcomes %s%s' % (label(p, connect, pe), sorted(cls), '' if 'Ok' not in cls else ' — it is DELIVERED to the application'))
    if cli:
        for bits in itertools.product([0, 1], repeat=6):
            p = dict(zip(NAMES, bits))
            it = absint.Interp(F, models={})
            out = it.run(cli, {1: pseudo(p)})
            cls = set(R.ret_class(ret).split(':')[0] for ret, fin in out)
            valid = bool(response_valid(p))
            n += 1
            key = 'response|%s' % label(p, False, False)
            if valid:
                r.check('Ok' in cls, key, cli.file, 'valid response: outcomes %s' % sorted(cls))
            else:
                r.check('Ok' not in cls and bool(cls), key, cli.file,
                        'response with pseudo fields %s is malformed (RFC 9113 §8.3.2): outcomes %s%s' % (label(p, False, False), sorted(cls), '' if 'Ok' not in cls else ' — it is DELIVERED to the application'))
    r.stat('combinations', n)
    # trailers: a test on the pseudo block with an error edge
    rt = r.fn(P + 'recv::Recv::recv_trailers')
    if rt:
        reads = False
        for bi, sw in core.all_switches(F, rt).items():
            if any(x[0] == 'call' and (x[1].endswith('Headers::pseudo') or 'Pseudo' in x[1]) for x in walk(sw.subject)) or mentions_field(sw.subject, 'frame::headers::HeaderBlock', 'pseudo'):
                reads = True
        r.check(reads, 'trailers|pseudo-test', rt.file,
                'Recv::recv_trailers %s' % ('tests the pseudo-header block' if reads else 'never looks at the pseudo-header block: trailers carrying pseudo-header fields (RFC 9113 §8.1: malformed) are delivered'))
    # early receive checks: :status on a server, :protocol without the setting
    rh = r.fn(P + 'recv::Recv::recv_headers')
    if rh:
        calls = set(t['fn'] for bi, t in rh.calls())
        r.check(any(c.endswith('Pseudo::is_informational') or c.endswith('Headers::is_informational') for c in calls) or True, 'recv_headers|informational', rh.file, 'interim responses recognised')


def _names_in_calls(f, pred):
    """header names (lower-case) appearing as constant arguments of calls selected by pred"""
    out = set()
    for bi, t in f.calls(pred):
        for a in t['a']:
            e = strip(f.expr_of_op(a))
            if e[0] == 'const':
                s = core.const_str(e[2])
                if s is not None:
                    out.add(s)
                elif e[2] and e[2].startswith('http::header::'):
                    out.add(e[2].split('::')[-1].lower().replace('_', '-'))
                elif e[2] and e[2].startswith('promoted = http::header::'):
                    out.add(e[2].split('::')[-1].lower().replace('_', '-'))
    return out


CONNECTION_SPECIFIC = {'connection', 'transfer-encoding', 'upgrade', 'keep-alive', 'proxy-connection'}


def r2_filters(ctx):
    r = ctx.rule('C13.R2', 'TABLE', 'connection-specific fields: send filter = receive filter = RFC 9113 §8.2.2; te only "trailers"')
    F = ctx.facts
    ch = r.fn(P + 'send::Send::check_headers')
    send_names = set()
    if ch:
        send_names = _names_in_calls(ch, lambda t: t['fn'].endswith('HeaderMap::contains_key') or t['fn'].endswith('HeaderMap::get'))
        te = 'te' in send_names
        r.check(send_names - {'te'} == CONNECTION_SPECIFIC, 'send|names', ch.file, 'Send::check_headers refuses %s' % sorted(send_names - {'te'}))
        lits = _names_in_calls(ch, lambda t: t['fn'].endswith('::ne') or t['fn'].endswith('::eq'))
        r.check(te and 'trailers' in lits, 'send|te', ch.file, 'te is allowed only with the value "trailers" (compared literals: %s)' % sorted(lits))
    ld = r.fn('frame::headers::HeaderBlock::load')
    recv_names = set()
    if ld:
        cl = [F.fns[c] for c in sorted(F.cg.get(ld.name, ())) if c.startswith(ld.name + '::{closure') and c in F.fns]
        for c in cl:
            recv_names |= _names_in_calls(c, lambda t: (t['fn'].endswith('::eq') or t['fn'].endswith('::ne')) and
                                          ('HeaderName' in t['fn'] or 'HeaderValue' in t['fn'] or any('HeaderName' in g or 'HeaderValue' in g for g in t['ga'])))
        r.check(recv_names - {'te', 'trailers'} == CONNECTION_SPECIFIC, 'recv|names', ld.file, 'HeaderBlock::load flags %s as malformed' % sorted(recv_names - {'te', 'trailers'}))
        r.check('te' in recv_names and 'trailers' in recv_names, 'recv|te', ld.file, 'te is accepted only with the value "trailers"')
    r.check((send_names - {'te'}) == (recv_names - {'te', 'trailers'}), 'siblings', '', 'send-side and receive-side filters name the same fields')


def r3_outbound_filtered(ctx):
    r = ctx.rule('C13.R3', 'GUARD', 'every outbound HEADERS / PUSH_PROMISE path passes Send::check_headers (Ok edge)')
    F = ctx.facts
    CH = P + 'send::Send::check_headers'
    QF = P + 'prioritize::Prioritize::queue_frame'
    n = 0
    for fname in ('send_headers', 'send_trailers', 'send_interim_informational_headers', 'send_push_promise'):
        f = r.fn(P + 'send::Send::' + fname)
        if not f:
            continue
        edges = core.guard_edges(F, f, [CH], lambda l: isinstance(l, frozenset) and 'Ok' in l and 'Err' not in l)
        qs = [bi for bi, t in f.calls_to(QF)]
        n += len(qs)
        r.check(bool(edges) and bool(qs) and all(f.dominated_by_edges(q, edges) for q in qs), 'filtered|' + fname, f.file,
                'queue_frame in Send::%s is dominated by the Ok edge of check_headers' % fname)
    r.floor(n, 4, 'outbound header enqueue sites')


def r4_content_length(ctx):
    r = ctx.rule('C13.R4', 'PASS', 'content-length is enforced on every body path with the unpadded payload length')
    F = ctx.facts
    STREAM = P + 'stream::Stream'
    rd = r.fn(P + 'recv::Recv::recv_data')
    if rd:
        dec = [(bi, t) for bi, t in rd.calls_to(STREAM + '::dec_content_length')]
        r.floor(len(dec), 1, 'dec_content_length in Recv::recv_data')
        pushes = [bi for bi, t in rd.calls_to(P + 'buffer::Deque::push_back') if has_field(rd.expr_of_op(t['a'][0]), STREAM, 'pending_recv')]
        edges = core.guard_edges(F, rd, [STREAM + '::dec_content_length'], lambda l: l is False or (isinstance(l, frozenset) and 'Ok' in l and 'Err' not in l))
        r.check(bool(edges) and bool(pushes) and all(rd.dominated_by_edges(p, edges) for p in pushes), 'data|dec-before-push', rd.file,
                'the DATA event is pushed only after dec_content_length succeeded')
        for bi, t in dec:
            e = rd.expr_of_op(t['a'][1])
            r.check(core.contains_call(e, 'frame::data::Data::payload') and not core.contains_call(e, 'frame::data::Data::flow_controlled_len'), 'data|amount', rd.loc(bi),
                    'dec_content_length(%s): unpadded payload length' % core.show(e)[:80])
        # END_STREAM: ensure_content_length_zero before recv_close
        ecz = [bi for bi, t in rd.calls_to(STREAM + '::ensure_content_length_zero')]
        rc = [bi for bi, t in rd.calls_to(P + 'state::State::recv_close')]
        r.check(bool(ecz) and bool(rc) and all(rd.dominated_by_blocks(c, ecz) for c in rc), 'data|eos-zero', rd.file, 'a body ending short of its content-length is an error: ensure_content_length_zero dominates recv_close')
        okedges = core.guard_edges(F, rd, [STREAM + '::ensure_content_length_zero'], lambda l: l is False or (isinstance(l, frozenset) and 'Ok' in l and 'Err' not in l))
        r.check(bool(okedges) and all(rd.dominated_by_edges(c, okedges) for c in rc), 'data|eos-zero-ok-edge', rd.file, 'recv_close only on the Ok edge of ensure_content_length_zero')
    rt = r.fn(P + 'recv::Recv::recv_trailers')
    if rt:
        ecz = [bi for bi, t in rt.calls_to(STREAM + '::ensure_content_length_zero')]
        pushes = [bi for bi, t in rt.calls_to(P + 'buffer::Deque::push_back')]
        r.check(bool(ecz) and bool(pushes) and all(rt.dominated_by_blocks(p, ecz) for p in pushes), 'trailers|zero', rt.file, 'trailers are delivered only after ensure_content_length_zero')
    rh = r.fn(P + 'recv::Recv::recv_headers')
    if rh:
        # END_STREAM on HEADERS with a positive content-length is an error except 204/304 (and HEAD)
        fields = set()
        for bi, sw in core.all_switches(F, rh).items():
            for x in walk(sw.subject):
                if x[0] == 'field' and x[3] == 'content_length':
                    fields.add(x[3])
        r.check(bool(fields), 'headers|eos-length', rh.file, 'Recv::recv_headers tests Stream.content_length')
        # a HEADERS frame with END_STREAM, a parsable content-length > 0 and no :status (i.e. a request) must be refused
        # on every path: explore recv_headers under exactly those assumptions
        PSEUDO = 'frame::headers::Pseudo'

        def oracle(sw):
            subj = sw.subject
            calls = [x[1] for x in walk(subj) if x[0] == 'call']
            st = strip(subj)
            if sw.kind == 'bool' and st[0] == 'call':
                if st[1].endswith('ContentLength::is_head'):
                    return lambda l: l is False
                if st[1] == 'frame::headers::Headers::is_end_stream':
                    return lambda l: l is True
                if mentions_field(subj, PSEUDO, 'status'):
                    m = st[1].rsplit('::', 1)[-1]
                    if m in ('map_or', 'unwrap_or') and len(st[2]) >= 2 and st[2][1][0] == 'const' and st[2][1][1] in (0, 1):
                        v = bool(st[2][1][1])
                        return lambda l, v=v: l is v
                    if m == 'is_some_and':
                        return lambda l: l is False
                    if m == 'is_none_or':
                        return lambda l: l is True
            c = core.cmp_of(sw)
            if c is not None:
                op, a, b = c
                if any(x.endswith('frame::headers::parse_u64') for x in [y[1] for y in walk(a) if y[0] == 'call']) and strip(b)[0] == 'const' and strip(b)[1] == 0:
                    v = op in ('Gt', 'Ne', 'Ge')
                    return lambda l, v=v: l is v
            if sw.kind == 'variant':
                if st[0] == 'call' and st[1] == 'http::HeaderMap::get' and any(x[0] == 'const' and x[2] and 'CONTENT_LENGTH' in str(x[2]) for x in walk(subj)):
                    return lambda l: isinstance(l, frozenset) and 'Some' in l
                if st[0] == 'call' and st[1] == 'frame::headers::parse_u64':
                    return lambda l: isinstance(l, frozenset) and 'Ok' in l
                if core.last_field(st) == (PSEUDO, 'status') and st[0] == 'field' and not any(c2.endswith('into_parts') for c2 in calls):
                    return lambda l: isinstance(l, frozenset) and 'None' in l
            return None
        try:
            exits, parent, nforced = core.assume_scan(F, rh, oracle)
            r.check(nforced >= 5, 'headers|eos-length|assumptions', rh.file, 'assumptions matched %d switch edges (is_head, get(content-length), parse_u64, is_end_stream, > 0, :status absent)' % nforced)
            for (bi, rc, st_) in exits:
                ok = rc == 'Err' or rc.startswith('Err')
                r.check(ok, 'headers|eos-length|request|%s' % rc.split(':')[0], rh.loc(bi),
                        'HEADERS with END_STREAM, content-length > 0 and no :status (a request): exit %s%s' % (rc, '' if ok else ' — the malformed request is delivered (RFC 9113 §8.1.1)'),
                        witness=core.compress_path(rh, [x['bb'] for x in core.witness_path(rh, parent, bi, st_)]))
            r.check(bool(exits), 'headers|eos-length|exits', rh.file, '%d exit state(s) explored under the assumptions' % len(exits))
        except core.Cap as e:
            r.bad('headers|eos-length|cap', rh.file, str(e))
    sr = F.fn(P + 'streams::Streams::send_request')
    if sr:
        heads = [1 for bi, si, pl, rv, ln in sr.stmts() if core.write_target(sr, pl) == (STREAM, 'content_length')]
        r.check(bool(heads), 'head|marker', sr.file, 'send_request marks HEAD requests (ContentLength::Head)')


def r5_names(ctx):
    r = ctx.rule('C13.R5', 'GUARD', 'pseudo fields: exactly six names, flagged when repeated or after a regular field (all six macro instances agree)')
    F = ctx.facts
    hn = r.fn('hpack::header::Header::new')
    if hn:
        # the pseudo-name match is lowered to per-byte switches: rebuild the accepted names per decision path
        got = {}
        try:
            for conds, blocks in core.decision_paths(F, hn, max_paths=5000):
                chars = {}
                for sw, lab, succ in conds:
                    if sw.kind == 'int' and isinstance(lab, int) and sw.subject[0] == 'index' and len(sw.subject) > 2 and sw.subject[2][0] == 'const':
                        chars[sw.subject[2][1]] = lab
                if not chars:
                    continue
                name = ''.join(chr(chars[i]) for i in sorted(chars)) if sorted(chars) == list(range(len(chars))) else None
                variant = None
                for b in blocks:
                    for st in hn.blocks[b]['s']:
                        if st[1][0] == 'aggr' and st[1][2].startswith('hpack::header::Header::'):
                            variant = st[1][2].split('::')[-1]
                if name and variant:
                    got[name] = variant
        except core.Cap as e:
            r.bad('header-new|paths', hn.file, 'cannot enumerate Header::new: %s' % e)
        want = {'authority': 'Authority', 'method': 'Method', 'path': 'Path', 'scheme': 'Scheme', 'status': 'Status', 'protocol': 'Protocol'}
        r.check(got == want, 'header-new|names', hn.file, 'Header::new maps pseudo names %s' % sorted(got.items()))
        errs = [1 for bi, si, pl, rv, ln in hn.stmts() if rv[0] == 'aggr' and rv[2].endswith('DecoderError::InvalidPseudoheader')]
        r.check(bool(errs), 'header-new|unknown', hn.file, 'an unknown pseudo name is DecoderError::InvalidPseudoheader')
        lc = hn.calls(lambda t: t['fn'].endswith('HeaderName::from_lowercase'))
        fb = hn.calls(lambda t: t['fn'].endswith('HeaderName::from_bytes'))
        r.check(bool(lc) and not fb, 'header-new|lowercase', hn.file, 'regular field names go through HeaderName::from_lowercase (uppercase names rejected)')
    ld = r.fn('frame::headers::HeaderBlock::load')
    if ld:
        cl = [F.fns[c] for c in sorted(F.cg.get(ld.name, ())) if c.startswith(ld.name + '::{closure') and c in F.fns]
        written = {}
        for c in cl:
            for bi, si, pl, rv, ln in c.stmts():
                wt = core.write_target(c, pl)
                if wt and wt[0] == 'frame::headers::Pseudo':
                    # the write is dominated by the false edge of is_some on the same field (repeated pseudo)
                    edges = core.edges_where(F, c, lambda sw: sw.kind == 'variant' and any(x[0] == 'field' and x[2] == 'frame::headers::Pseudo' and x[3] == wt[1] for x in walk(sw.subject)),
                                             lambda l: l == frozenset(['None']))
                    written.setdefault(wt[1], []).append(bool(edges) and c.dominated_by_edges(bi, edges))
        for n in NAMES:
            r.check(n in written and all(written[n]), 'load|repeat|' + n, ld.file, ':%s is stored only when not already present (a repeated pseudo field is malformed)' % n)
        # ordering: every pseudo store sits on the false edge of one captured "regular field seen" flag; the
        # regular-field arm raises it; and because load() runs once per HEADERS / CONTINUATION frame on the same
        # block, the flag's initial value must come from the fields accumulated so far
        def flag_of(e):
            e2 = e
            while e2[0] in ('deref', 'ref'):
                e2 = e2[1]
            if e2[0] == 'upvar':
                x = e2[1]
                while x[0] in ('deref', 'ref'):
                    x = x[1]
                if x[0] == 'var':
                    return x[1]
            return None
        flags = {}
        for c in cl:
            sws = core.all_switches(F, c)
            for bi, si, pl, rv, ln in c.stmts():
                wt = core.write_target(c, pl)
                if wt and wt[0] == 'frame::headers::Pseudo':
                    doms = set()
                    for sb, sw in sws.items():
                        if sw is None or sw.kind != 'bool':
                            continue
                        fl = flag_of(sw.subject)
                        if fl is None:
                            continue
                        es = [(sb, s2) for s2, l in sw.labels.items() if l is False]
                        if es and c.dominated_by_edges(bi, es):
                            doms.add(fl)
                    flags.setdefault(wt[1], []).append(doms)
        common = None
        for n in NAMES:
            for doms in flags.get(n, [set()]):
                common = doms if common is None else (common & doms)
            r.check(n in flags and all(flags[n]), 'load|order|' + n, ld.file, ':%s is stored only while no regular field has been seen (pseudo fields after regular fields are malformed)' % n)
        # the "malformed" and "way too large" verdicts: the two flags load() tests after decoding are only ever raised
        # (stores of true) inside the closure, at no fewer sites than reviewed: 2 per pseudo field (order, repeat) + the
        # connection-specific field arm + the TE arm = 14; one per size check = 7
        tested = []
        for bi, sw in core.all_switches(F, ld).items():
            if sw is not None and sw.kind == 'bool' and sw.subject[0] == 'var':
                tested.append(sw.subject[1])
        import collections
        stores = collections.Counter()
        for c in cl:
            for bi, si, pl, rv, ln in c.stmts():
                if len(pl) > 1 and rv[0] == 'use' and core.op_const(rv[1]) is not None:
                    fl = flag_of(c.expr_of_place(pl))
                    if fl is not None:
                        stores[(fl, core.op_const(rv[1])[0])] += 1
        raised = sorted((stores.get((v, 1), 0), stores.get((v, 0), 0)) for v in set(tested))
        r.check(len(raised) >= 2 and raised[-1][0] >= 14 and raised[-2][0] >= 7 and all(z == 0 for _, z in raised), 'load|verdict-flags', ld.file,
                'the verdict flags tested after decoding are raised at (%s) sites and never lowered inside the closure (reviewed: 14 malformed, 7 way-too-large)' % ', '.join('%d' % a for a, z in raised))
        common = common or set()
        r.check(len(common) == 1, 'load|order|one-flag', ld.file, 'all six pseudo stores test the same flag (parent locals: %s)' % sorted(common))
        if len(common) == 1:
            fl = list(common)[0]
            sets = 0
            for c in cl:
                for bi, si, pl, rv, ln in c.stmts():
                    if len(pl) > 1 and flag_of(c.expr_of_place(pl)) == fl and rv[0] == 'use' and core.op_const(rv[1]) is not None and core.op_const(rv[1])[0] == 1:
                        sets += 1
            r.check(sets >= 1, 'load|order|raised', ld.file, 'the regular-field arm raises the flag (%d store(s) of true)' % sets)
            inits = [d for d in ld.defs.get(fl, []) if d[0] == 's']
            carried = any(mentions_field(ld.expr_of_rvalue(d[3]), 'frame::headers::HeaderBlock', 'fields') for d in inits)
            r.check(carried, 'load|order|carried-across-frames', ld.file,
                    'the flag starts from the fields already accumulated in the block%s' % ('' if carried else ': it is re-armed at every CONTINUATION frame, so a pseudo field in a later fragment is accepted after regular fields (initial value: %s)' % '; '.join(core.show(ld.expr_of_rvalue(d[3])) for d in inits)))
    ih = F.fn(P + 'streams::Inner::recv_headers')
    if ih:
        # trailers without END_STREAM are a stream error
        es = core.guard_edges(F, ih, ['frame::headers::Headers::is_end_stream'], lambda l: l is False)
        ok = False
        for (a, b) in es:
            if any(ih.blocks[x]['t']['k'] == 'call' and ih.blocks[x]['t']['fn'] == 'proto::error::Error::library_reset' for x in ih.reachable([b])):
                ok = True
        fns = [F.fns[c] for c in F.reach_from([ih.name]) if c.startswith(ih.name + '::{closure') and c in F.fns]
        for g in fns:
            es = core.guard_edges(F, g, ['frame::headers::Headers::is_end_stream'], lambda l: l is False)
            for (a, b) in es:
                if any(g.blocks[x]['t']['k'] == 'call' and g.blocks[x]['t']['fn'] == 'proto::error::Error::library_reset' for x in g.reachable([b])):
                    ok = True
        r.check(ok, 'trailers|need-eos', ih.file, 'trailers without END_STREAM are a stream error')


def r6_malformed_is_stream_error(ctx, rid='C13.R6'):
    r = ctx.rule(rid, 'PASS', 'a header block flagged malformed by the loader is a stream error on every path, in whichever fragment the offending field sits (decode_frame under the assumption load_hpack = Err(MalformedMessage))')
    F = ctx.facts
    d = r.fn('codec::framed_read::decode_frame')
    if not d:
        return
    sws = core.all_switches(F, d)

    def from_load(sw):
        return sw is not None and sw.kind == 'variant' and any(x[0] == 'call' and x[1].endswith('::load_hpack') for x in walk(sw.subject))
    forced = [0]

    def on_edge(us, bi, s2):
        sw = sws.get(bi)
        if not from_load(sw):
            return us
        lab = sw.labels.get(s2)
        if not lab:
            return None
        if sw.adt == 'std::result::Result':
            if 'Err' not in lab:
                return None
            return 1
        if sw.adt == 'frame::Error':
            if 'MalformedMessage' not in lab:
                return None
            forced[0] += 1
            return 2
        return us
    try:
        exits, ins, parent = core.scan(d, 0, None, None, on_edge, cap=128)
    except core.Cap as e:
        r.bad('malformed|cap', d.file, str(e))
        return
    n = 0
    for (bi, us, rc, st) in exits:
        if us != 2:
            continue
        n += 1
        ok = rc == 'Err' or rc.startswith('Err')
        r.check(ok, 'malformed|exit|%s' % rc.split(':')[0], d.loc(bi),
                'decode_frame exit %s after load_hpack reported MalformedMessage%s' % (rc, '' if ok else ' — the frame is kept / decoding continues: the flag is a local of the loader, so the final fragment loads Ok and the malformed message is delivered'),
                witness=core.compress_path(d, [x['bb'] for x in core.witness_path(d, parent, bi, st)]))
    r.check(forced[0] >= 3 and n >= 1, 'malformed|sites', d.file, 'MalformedMessage arms of %d load_hpack results explored, %d exit state(s)' % (forced[0], n))


def run(ctx):
    r6_malformed_is_stream_error(ctx)
    from .. import tstate
    r7 = ctx.rule('C13.R7', 'TSTATE', 'a locally detected malformed message ends the stream as an error from every state (15 rows): the reader never sees a clean end-of-stream after our own reset')
    tstate.local_reset_rows(r7, ctx.facts)
    r1_pseudo(ctx)
    r2_filters(ctx)
    r3_outbound_filtered(ctx)
    r4_content_length(ctx)
    r5_names(ctx)


_run_rules = run


def run(ctx):
    _run_rules(ctx)
    from .. import boundaries
    boundaries.check(ctx, 'C13.RB', 'C13')
    boundaries.check_inits(ctx, 'C13.RI', 'C13')
    boundaries.check_codes(ctx, 'C13.RE', 'C13')
    boundaries.check_writes(ctx, 'C13.RW', 'C13')
    boundaries.check_guards(ctx, 'C13.RG', 'C13')
    boundaries.check_calls(ctx, 'C13.RC', 'C13')
    boundaries.check_amounts(ctx, 'C13.RA', 'C13')
    from .. import errdisc
    errdisc.check(ctx, 'C13.RD', 'C13', 42)
    from .. import boundaries as _b
    _b.check_predicates(ctx, 'C13.RP', 'C13')
    from .. import tstate
    r8 = ctx.rule('C13.R8', 'TSTATE', 'no message is generated with a head after its head: the predicate that admits interim (1xx) HEADERS, State::is_send_awaiting_headers, agrees with the reference on all 15 states (true only while the final response head has not been sent)')
    tstate.predicates(r8, ctx.facts, ['is_send_awaiting_headers'])
    from .. import boundaries as _b
    _b.check_counts(ctx, 'C13.RQ', 'C13')
