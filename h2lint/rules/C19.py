"""C19 — finished streams are forgotten; stream storage is never reached through a stale reference."""
import re

from .. import core
from ..core import strip, walk, has_field, mentions_field

EXPLANATION = (
    "Decides: (R1) registry agreement — for every impl of store::Next the flag read by is_queued (and reset_at) is also "
    "read by Stream::is_released, and the five accessors of one impl use one link field and one flag, so a stream cannot "
    "be removed while it sits in a queue (dangling key) nor stay forever after leaving one; (R2) store::Ptr::remove is "
    "called only from Counts::transition_after on the true edge of is_released, or as a creation rollback in the function "
    "that inserted; (R3) in every user-facing function that inserts into the Store every error exit after the insertion "
    "passes Ptr::remove; (R4) Index/IndexMut/remove on the Store compare the stored stream id with the key's id and diverge "
    "otherwise, and nothing else indexes the slab; (R5) OpaqueStreamRef is constructed only behind Stream::ref_inc and "
    "its Drop reaches the decrement; (R7 = C05.R3) every path that closes a stream or pops it from a connection queue runs Counts::transition_after, which is what evaluates is_released and removes the record; (R6) the idle client closes: maybe_close_connection_if_no_streams -> go_away_now on "
    "!has_streams_or_other_references before polling. That nothing at all is retained is NOT decided."
)
NOT_DECIDED = "that nothing is retained (buffers inside the codec, Bytes clones); the successful completion of the connection future"

P = 'proto::streams::'
STREAM = P + 'stream::Stream'
STORE = P + 'store::Store'
REMOVE = P + 'store::Ptr::remove'


def fields_read(f, owner):
    out = set()
    for bi, si, pl, rv, ln in f.stmts():
        e = f.expr_of_rvalue(rv)
        for x in walk(e):
            if x[0] == 'field' and x[2] == owner:
                out.add(x[3])
    for bi, t in f.calls():
        for a in t['a']:
            for x in walk(f.expr_of_op(a)):
                if x[0] == 'field' and x[2] == owner:
                    out.add(x[3])
    for bi, b in enumerate(f.blocks):
        if not b['cu'] and b['t']['k'] == 'sw':
            for x in walk(f.expr_of_op(b['t']['o'])):
                if x[0] == 'field' and x[2] == owner:
                    out.add(x[3])
    return out


def fields_written(f, owner):
    out = set()
    for bi, si, pl, rv, ln in f.stmts():
        for (o, fld) in core.place_fields(pl):
            if o == owner:
                out.add(fld)
    return out


def r1_registry(ctx):
    r = ctx.rule('C19.R1', 'TABLE', 'is_released knows every queue: each Next impl\'s queued-flag is read by Stream::is_released')
    F = ctx.facts
    rel = r.fn(STREAM + '::is_released')
    if not rel:
        return
    rel_reads = fields_read(rel, STREAM)
    impls = {}
    for name in F.fns:
        m = re.match(r'^<(.+) as proto::streams::store::Next>::(\w+)$', name)
        if m:
            impls.setdefault(m.group(1), {})[m.group(2)] = F.fns[name]
    r.floor(len(impls), 6, 'impls of store::Next')
    for ty, fs in sorted(impls.items()):
        short = ty.split('::')[-1]
        iq = fs.get('is_queued')
        if not iq:
            r.bad('impl|%s|is_queued' % short, '', 'no is_queued in impl Next for %s' % short)
            continue
        q = fields_read(iq, STREAM)
        r.check(len(q) == 1, 'impl|%s|one-flag' % short, iq.file, 'is_queued of %s reads %s' % (short, sorted(q)))
        r.check(bool(q) and q <= rel_reads, 'released|%s' % short, rel.file,
                'Stream::is_released reads %s (queue flag of %s)%s' % (sorted(q), short, '' if q <= rel_reads else ' — MISSING: a stream still linked in this queue can be removed from the slab (dangling key panic / wrong stream)'))
        sq = fs.get('set_queued')
        if sq:
            w = fields_written(sq, STREAM)
            r.check(w == q or (short == 'NextResetExpire' and q <= w | q), 'impl|%s|same-flag' % short, sq.file, 'set_queued writes %s, is_queued reads %s' % (sorted(w), sorted(q)))
        links = set()
        for k in ('next', 'set_next', 'take_next'):
            g = fs.get(k)
            if g:
                links |= (fields_read(g, STREAM) | fields_written(g, STREAM))
        r.check(len(links) == 1, 'impl|%s|one-link' % short, fs['next'].file if 'next' in fs else '', 'next/set_next/take_next of %s use %s' % (short, sorted(links)))
    # link fields of different impls are distinct
    alll = []
    for ty, fs in impls.items():
        g = fs.get('next')
        if g:
            alll.append(tuple(sorted(fields_read(g, STREAM))))
    r.check(len(set(alll)) == len(alll), 'impl|distinct-links', '', 'every queue has its own link field: %s' % sorted(alll))
    # is_released also requires closed and ref_count == 0
    r.check('ref_count' in rel_reads, 'released|ref_count', rel.file, 'is_released reads ref_count')
    r.check(bool(rel.calls_to(STREAM + '::is_closed')), 'released|closed', rel.file, 'is_released requires is_closed()')


def r2_removal(ctx):
    r = ctx.rule('C19.R2', 'WHO', 'store::Ptr::remove only when released (transition_after) or as a creation rollback')
    F = ctx.facts
    callers = sorted(c for c in F.rcg.get(REMOVE, ()) if '::tests::' not in c)
    r.floor(len(callers), 2, 'callers of Ptr::remove')
    ta = P + 'counts::Counts::transition_after'
    for c in callers:
        f = F.fns[c]
        if c == ta:
            edges = core.guard_edges(F, f, [STREAM + '::is_released'], lambda l: l is True)
            for bi, t in f.calls_to(REMOVE):
                r.check(bool(edges) and f.dominated_by_edges(bi, edges), 'remove|transition_after', f.loc(bi), 'remove() is dominated by the true edge of is_released()')
            ce = core.guard_edges(F, f, [STREAM + '::is_closed'], lambda l: l is True)
            for bi, t in f.calls_to(P + 'stream::Stream::unlink') + f.calls_to(P + 'store::Ptr::unlink'):
                r.check(bool(ce) and f.dominated_by_edges(bi, ce), 'unlink|transition_after', f.loc(bi), 'unlink() only for a closed stream')
        else:
            ins = [bi for bi, t in f.calls(lambda t: t['fn'] in (STORE + '::insert', P + 'store::VacantEntry::insert'))]
            ok = bool(ins) and all(f.dominated_by_blocks(bi, ins) for bi, t in f.calls_to(REMOVE))
            # no handle was created for that key in between
            refs = [bi for bi, t in f.calls_to(P + 'streams::OpaqueStreamRef::new')]
            for bi, t in f.calls_to(REMOVE):
                for rb in refs:
                    if bi in f.reachable(f.succ[rb]):
                        ok = False
            r.check(ok, 'remove|rollback|' + c, f.file, 'remove() in %s is a creation rollback: dominated by the insertion, no handle created before it' % core.short(c))


ROLLBACK_EXCEPTIONS = {
    'leak|proto::streams::streams::StreamRef::send_push_promise|State::reserve_local':
        'State::reserve_local on the freshly created (Idle) stream cannot fail: discharged by the extracted transition table C04.R1 (reserve_local(Idle) = Ok)',
}


def r3_insert_rollback(ctx, rid='C19.R3'):
    r = ctx.rule(rid, 'POST', 'user-facing functions that insert into the Store remove the record on every error exit')
    F = ctx.facts
    n = 0
    for name, f in sorted(F.fns.items()):
        if '::tests::' in name or not name.startswith(P + 'streams::'):
            continue
        if not (f.ret.startswith('std::result::Result<') and ('UserError' in f.ret or 'SendError' in f.ret)):
            continue
        ins = [bi for bi, t in f.calls_to(STORE + '::insert')]
        if not ins:
            continue
        n += 1
        rem = [bi for bi, t in f.calls_to(REMOVE)]

        def on_term(us, bi, t):
            if bi in ins:
                return ('i', '')
            if bi in rem and us[0] == 'i':
                return ('r', '')
            if us[0] == 'i' and t['k'] == 'call' and not t['exp'] and t['fn'] in F.fns and not t['fn'].startswith('<'):
                return ('i', t['fn'])   # the last h2 call before an exit names the failing step
            return us
        exits, insx, parent = core.scan(f, ('-', ''), None, on_term)
        bad = False
        for (bi, us, rc, st) in exits:
            if us[0] == 'i' and rc.startswith('Err'):
                step = us[1] or '?'
                key = 'leak|%s|%s' % (name, core.short(step))
                if key in ROLLBACK_EXCEPTIONS:
                    r.exception(key, ROLLBACK_EXCEPTIONS[key])
                    r.ok(key, f.loc(bi), 'named exception: ' + ROLLBACK_EXCEPTIONS[key])
                    continue
                bad = True
                w = core.witness_path(f, parent, bi, st)
                r.bad(key, f.loc(bi),
                      '%s inserts a stream into the Store and can return %s after %s failed without removing it: the record stays in the slab for the life of the connection' % (name, rc, core.short(step)),
                      witness=core.compress_path(f, [x['bb'] for x in w]))
        if not bad:
            r.ok('rollback|' + name, f.file, 'every Err exit after Store::insert passes Ptr::remove (%d exit states)' % len(exits))
    r.floor(n, 2, 'user-facing inserting functions (send_request, send_push_promise)')


def r4_key_guard(ctx):
    r = ctx.rule('C19.R4', 'TABLE', 'stale keys panic, never alias: Index/IndexMut/remove compare the stored id with the key id; nothing else indexes the slab')
    F = ctx.facts
    for fname in ('<' + STORE + ' as std::ops::Index>::index', '<' + STORE + ' as std::ops::IndexMut>::index_mut'):
        f = r.fn(fname)
        if not f:
            continue
        cl = [F.fns[c] for c in F.cg.get(fname, ()) if c.startswith(fname + '::{closure') and c in F.fns]
        cmp_ok = False
        for c in cl:
            for bi, t in c.calls(lambda t: t['fn'].endswith('PartialEq>::eq') or t['fn'].endswith('::eq')):
                es = [c.expr_of_op(a) for a in t['a']]
                if any(mentions_field(e, STREAM, 'id') for e in es) and any(mentions_field(e, P + 'store::Key', 'stream_id') for e in es):
                    cmp_ok = True
        filt = f.calls(lambda t: t['fn'] == 'std::option::Option::filter')
        uw = f.calls(lambda t: t['fn'] == 'std::option::Option::unwrap_or_else')
        r.check(cmp_ok and bool(filt) and bool(uw), 'index|' + fname.split('::')[-1], f.file, '%s filters the slab entry by s.id == key.stream_id and diverges otherwise' % fname.split('::')[-1])
    rm = r.fn(REMOVE)
    if rm:
        # assert_eq!(stream.id, id) style: a comparison involving Stream.id / key.stream_id
        cmp_ok = False
        for bi, sw in core.all_switches(F, rm).items():
            if any(mentions_field(sw.subject, None, 'stream_id') or mentions_field(sw.subject, STREAM, 'id') for _ in (0,)):
                cmp_ok = True
        for bi, t in rm.calls(lambda t: t['fn'].endswith('::eq')):
            cmp_ok = True
        r.check(cmp_ok, 'remove|id-check', rm.file, 'Ptr::remove checks the removed stream\'s id against the key')
    # WHO: functions touching Store.slab
    users = set()
    for name, f in F.fns.items():
        if '::tests::' in name:
            continue
        if 'slab' in fields_read(f, STORE) or 'slab' in fields_written(f, STORE):
            users.add(name.split('::{closure')[0])
    allowed_prefix = (P + 'store::', '<' + P + 'store::')
    for u in sorted(users):
        r.check(u.startswith(allowed_prefix), 'who|slab|' + u, '', 'Store.slab accessed in %s' % u)
    # direct slab access by index happens only in Index/IndexMut/remove/insert/for_each
    direct = set()
    for name, f in F.fns.items():
        for bi, t in f.calls(lambda t: (t['fn'].startswith('slab::Slab::') and t['fn'].split('::')[-1] in ('get', 'get_mut', 'remove', 'index', 'index_mut')) or t['fn'].startswith('<slab::Slab as std::ops::Index')):
            if t['a'] and mentions_field(f.expr_of_op(t['a'][0]), STORE, 'slab'):
                direct.add(name.split('::{closure')[0])
    ok_direct = {'<' + STORE + ' as std::ops::Index>::index', '<' + STORE + ' as std::ops::IndexMut>::index_mut', REMOVE,
                 STORE + '::try_for_each', STORE + '::for_each'}
    for d in sorted(direct):
        r.check(d in ok_direct, 'who|slab-index|' + d, '', 'slab entry access in %s' % d)


def r5_refcounts(ctx):
    r = ctx.rule('C19.R5', 'PAIR', 'reference counts: OpaqueStreamRef only behind ref_inc; Drop reaches the decrement; Inner.refs paired')
    F = ctx.facts
    OSR = P + 'streams::OpaqueStreamRef'
    ctors = set()
    for name, f in F.fns.items():
        for bi, si, pl, rv, ln in f.stmts():
            if rv[0] == 'aggr' and rv[1] == 'adt' and core.norm(rv[2]) == OSR:
                ctors.add(name)
                incs = [b for b, t in f.calls_to(STREAM + '::ref_inc')]
                r.check(bool(incs) and f.dominated_by_blocks(bi, incs), 'ctor|' + name, '%s:%d' % (f.file, ln), 'OpaqueStreamRef built in %s after Stream::ref_inc' % core.short(name))
    r.check(ctors <= {OSR + '::new', '<' + OSR + ' as std::clone::Clone>::clone'}, 'ctor|who', '', 'constructors of OpaqueStreamRef: %s' % sorted(ctors))
    d = r.fn('<' + OSR + ' as std::ops::Drop>::drop')
    if d:
        reach = F.reach_from([d.name])
        r.check(STREAM + '::ref_dec' in reach, 'drop|ref_dec', d.file, 'Drop for OpaqueStreamRef reaches Stream::ref_dec')
    # Inner.refs: += 1 at every OpaqueStreamRef::new call site's function (or in clone), -= 1 in drop_stream_ref / Streams::drop
    INNER = P + 'streams::Inner'
    writers = {}
    for name, f in F.fns.items():
        for bi, si, pl, rv, ln in f.stmts():
            if core.write_target(f, pl) == (INNER, 'refs'):
                e = strip(f.expr_of_rvalue(rv))
                if e[0] == 'bin':
                    writers.setdefault(name.split('::{closure')[0], set()).add(e[1])
    new_callers = set(c.split('::{closure')[0] for c in F.rcg.get(OSR + '::new', ()) if '::tests::' not in c)
    r.floor(len(new_callers), 3, 'call sites (functions) of OpaqueStreamRef::new')
    for c in sorted(new_callers):
        r.check('Add' in writers.get(c, ()), 'refs|inc|' + c, '', '%s increments Inner.refs when it creates a stream handle' % core.short(c))
    r.check('Sub' in writers.get(P + 'streams::drop_stream_ref', ()), 'refs|dec|drop_stream_ref', '', 'drop_stream_ref decrements Inner.refs')
    r.check('Add' in writers.get('<' + OSR + ' as std::clone::Clone>::clone', ()), 'refs|inc|clone', '', 'OpaqueStreamRef::clone increments Inner.refs')
    sd = '<' + P + 'streams::Streams as std::ops::Drop>::drop'
    sc = '<' + P + 'streams::Streams as std::clone::Clone>::clone'
    r.check('Sub' in writers.get(sd, ()), 'refs|dec|Streams::drop', '', 'Streams::drop decrements Inner.refs')
    r.check('Add' in writers.get(sc, ()), 'refs|inc|Streams::clone', '', 'Streams::clone increments Inner.refs')


def r6_idle_client(ctx, rid='C19.R6'):
    r = ctx.rule(rid, 'PASS', 'the idle client closes itself: GOAWAY(NO_ERROR) when no streams and no other references remain')
    F = ctx.facts
    cp = F.fn('<client::Connection as std::future::Future>::poll') or r.fn('<client::Connection as futures_core::Future>::poll')
    if cp:
        m = [bi for bi, t in cp.calls_to('proto::connection::Connection::maybe_close_connection_if_no_streams')]
        p = [bi for bi, t in cp.calls(lambda t: t['fn'] in ('proto::connection::Connection::poll', '<proto::connection::Connection as std::future::Future>::poll'))]
        r.check(bool(m) and bool(p) and all(cp.dominated_by_blocks(x, m) for x in p), 'client|order', cp.file, 'client::Connection::poll calls maybe_close_connection_if_no_streams before polling the connection')
        # the post-poll re-check: handles dropped on another thread while this poll ran find Actions.task empty (every
        # wake consumes it), so the poll itself must notice the transition "had streams or references -> has none"
        HS = 'proto::connection::Connection::has_streams_or_other_references'
        hs = [bi for bi, t in cp.calls_to(HS)]
        wakes = [bi for bi, t in cp.calls(lambda t: t['fn'].endswith('Waker::wake_by_ref') or t['fn'].endswith('Waker::wake'))]
        pre = [b for b in hs if p and all(cp.dominated_by_blocks(x, [b]) for x in p)]
        post = [b for b in hs if p and cp.dominated_by_blocks(b, p)]
        r.check(bool(pre) and bool(post) and bool(wakes), 'client|recheck|snapshots', cp.file,
                'client::Connection::poll samples has_streams_or_other_references() before and after polling the connection (%d before, %d after)' % (len(pre), len(post)))
        te = core.guard_edges(F, cp, [HS], lambda l: l is True)
        fe = core.guard_edges(F, cp, [HS], lambda l: l is False)
        for w in wakes:
            ok = bool(te) and bool(fe) and cp.dominated_by_edges(w, te) and cp.dominated_by_edges(w, fe)
            okset = ('call:has_streams_or_other_references', 'call:is_pending', 'call:poll', 'call:map_err')
            atoms = core.expand_atoms(F, core.dominating_atoms(F, cp, w), okset)
            extra = sorted(a for a in atoms if a not in okset)
            r.check(ok and not extra, 'client|recheck|guard', cp.loc(w),
                    'the extra wake-up happens exactly when the poll is pending, streams-or-references existed before it and none exist after it (conditions: %s)%s' % (
                        sorted(atoms), '' if ok and not extra else ' — a narrower "before" test misses handles dropped by another thread during the poll: the connection parks with no waker registered and never sends its GOAWAY'))
    mc = r.fn('proto::connection::Connection::maybe_close_connection_if_no_streams')
    if mc:
        edges = core.guard_edges(F, mc, ['proto::streams::streams::Streams::has_streams_or_other_references', 'proto::connection::Connection::has_streams_or_other_references'], lambda l: l is False)
        gn = [bi for bi, t in mc.calls(lambda t: t['fn'].endswith('::go_away_now'))]
        ok = bool(edges) and bool(gn) and all(mc.dominated_by_edges(g, edges) for g in gn)
        # and every path on that edge passes go_away_now
        for (a, b) in edges:
            reach = mc.reachable([b], cut_blocks=gn)
            if any(x in reach for x in mc.returns()):
                ok = False
        r.check(ok, 'maybe_close|go_away_now', mc.file, 'go_away_now is called exactly on the !has_streams_or_other_references edge')
        for g in gn:
            e = strip(mc.expr_of_op(mc.term(g)['a'][1]))
            r.check(e[0] == 'const' and e[1] == 0, 'maybe_close|NO_ERROR', mc.loc(g), 'reason = NO_ERROR')


def r8_last_ref_wakes(ctx, rid='C19.R8'):
    r = ctx.rule(rid, 'GUARD', 'dropping the last handle of a closed stream wakes the connection task, whatever queues or reset memory the stream is still in')
    F = ctx.facts
    f = r.fn(P + 'streams::drop_stream_ref')
    if not f:
        return
    wakes = [bi for bi, t in f.calls(lambda t: t['fn'].endswith('Waker::wake'))]
    r.floor(len(wakes), 1, 'wake sites in drop_stream_ref')
    allowed = {'field:ref_count', 'call:is_closed', 'field:task'}
    for bi in wakes:
        atoms = core.expand_atoms(F, core.dominating_atoms(F, f, bi), allowed)
        extra = sorted(a for a in atoms if a not in allowed)
        need = {'field:ref_count', 'call:is_closed'} <= atoms
        r.check(not extra, 'drop_stream_ref|wake-guard', f.loc(bi),
                'the wake is conditioned on %s%s' % (sorted(atoms), '' if not extra else ' — %s narrows it: a closed, unreferenced stream that is still remembered (reset_at) or queued no longer wakes an idle connection, which then never sends its GOAWAY' % extra))
        r.check(need, 'drop_stream_ref|wake-guard|shape', f.loc(bi), 'the wake is for closed streams whose last reference went away (ref_count == 0 && is_closed)')
    # the stream's own reference count is decremented before it is tested for the wake
    rd = [bi for bi, t in f.calls(lambda t: t['fn'].endswith('stream::Stream::ref_dec'))]
    tests = [bi for bi, sw in core.all_switches(F, f).items() if sw is not None and 'field:ref_count' in core.expand_atoms(F, core.predicate_atoms(sw), {'call:is_closed'})
             and any(bi in core.control_switches(F, f, w) for w in wakes)]
    r.check(bool(rd) and bool(tests) and all(f.dominated_by_blocks(t_, rd) for t_ in tests), 'drop_stream_ref|dec-before-test', f.file,
            'Stream::ref_dec() runs before ref_count is tested for the wake (%d test(s))' % len(tests))
    # the decrement of Inner.refs precedes the wake
    decs = [bi for bi, si, pl, rv, ln in f.stmts() if core.write_target(f, pl) == (P + 'streams::Inner', 'refs')]
    r.check(bool(decs) and all(f.dominated_by_blocks(w, decs) for w in wakes), 'drop_stream_ref|refs-first', f.file, 'Inner.refs is decremented before the connection is woken')


DRAINS = [
    (P + 'streams::drop_stream_ref', 'the unreachable push promises of a dropped request are all cancelled, not just the first'),
    (P + 'recv::Recv::clear_stream_window_update_queue', 'teardown drains the whole queue'),
    (P + 'recv::Recv::clear_all_reset_streams', 'teardown drains the whole queue'),
    (P + 'recv::Recv::clear_all_pending_accept', 'teardown drains the whole queue'),
    (P + 'recv::Recv::clear_expired_reset_streams', 'every expired reset is released in one pass'),
    (P + 'prioritize::Prioritize::clear_pending_capacity', 'teardown drains the whole queue'),
    (P + 'prioritize::Prioritize::clear_pending_send', 'teardown drains the whole queue'),
    (P + 'prioritize::Prioritize::clear_pending_open', 'teardown drains the whole queue'),
]


def r10_drains_loop(ctx, rid='C19.R10'):
    r = ctx.rule(rid, 'PASS', 'queue drains are loops: every reviewed drain pops until the queue is empty')
    F = ctx.facts
    n = 0
    for fname, why in DRAINS:
        fam = [f for nme, f in F.fns.items() if nme == fname or nme.startswith(fname + '::{closure')]
        if not fam:
            r.bad('drain|anchor|' + fname.split('::')[-1], '', '%s not found' % fname)
            continue
        pops = [(f, bi) for f in fam for bi, t in f.calls(lambda t: t['fn'] in (P + 'store::Queue::pop', P + 'store::Queue::pop_if'))]
        r.check(bool(pops), 'drain|pops|' + fname.split('::')[-1], fam[0].file, '%s pops from a queue' % fname.split('::')[-1])
        for f, bi in pops:
            n += 1
            looped = bi in f.reachable(f.succ[bi])
            r.check(looped, 'drain|loop|' + fname.split('::')[-1], f.loc(bi), '%s: the pop is %s. %s' % (fname.split('::')[-1], 'inside a loop' if looped else 'NOT inside a loop: only the first queued stream is handled, the rest stay linked and counted', why))
    r.floor(n, 8, 'drain sites')


def run(ctx):
    r10_drains_loop(ctx)
    r8_last_ref_wakes(ctx)
    r1_registry(ctx)
    r2_removal(ctx)
    r3_insert_rollback(ctx)
    r4_key_guard(ctx)
    r5_refcounts(ctx)
    r6_idle_client(ctx)
    from . import C05
    C05.r3_transition_discipline(ctx, 'C19.R7')


_run_rules = run


def run(ctx):
    _run_rules(ctx)
    from .. import boundaries
    boundaries.check(ctx, 'C19.RB', 'C19')
    boundaries.check_amounts(ctx, 'C19.RA', 'C19')
    boundaries.check_codes(ctx, 'C19.RE', 'C19')
    boundaries.check_writes(ctx, 'C19.RW', 'C19')
    from . import C14
    C14.r7_no_loss(ctx, 'C19.R9', C14.GOAWAY_SLOT, floor=3)  # a GOAWAY that is due is never dropped under write back-pressure
    boundaries.check_guards(ctx, 'C19.RG', 'C19')
    boundaries.check_calls(ctx, 'C19.RC', 'C19')
    from .. import boundaries as _b
    _b.check_predicates(ctx, 'C19.RP', 'C19')
    from .. import boundaries as _b
    _b.check_updates(ctx, 'C19.RU', 'C19')
    from .. import tstate
    r11 = ctx.rule('C19.R11', 'TSTATE', 'a received RST_STREAM lets the stream be forgotten from every state: no scheduled-only reset survives it (= C05.R8)')
    tstate.recv_reset_rows(r11, ctx.facts)
    from . import C16
    C16.r7_discard_frees(ctx, 'C19.R12')  # the window behind discarded DATA returns to the connection: flow-control bookkeeping goes back to its idle value (= C16.R7)
    from .. import boundaries as _b
    _b.check_counts(ctx, 'C19.RQ', 'C19')
    from . import C18
    C18.r6_pending_accept(ctx, 'C19.R13', 'the memory of locally reset streams is bounded and *returns to zero*: expiry releases each remembered reset through transition_after(stream, true) (-> dec_num_reset_streams) (= C18.R6)')
