"""C15 — GOAWAY / shutdown: monotone last-stream-id, in-flight streams finish, the rest fail."""
from .. import core
from ..core import strip, walk, has_field, mentions_field, canon

EXPLANATION = (
    "Decides: (R1) every GOAWAY frame h2 builds takes its last-stream-id from DynStreams::last_processed_id() or the "
    "constant StreamId::MAX (or a parameter whose callers pass exactly those), all of them reach the wire only through "
    "GoAway::go_away, which holds the monotonicity assert, and DynConnection::go_away also lowers Recv.max_stream_id so "
    "later streams cannot raise last_processed_id; last_processed_id is raised in Recv::recv_headers before a stream is "
    "handed to the application; (R2) a received GOAWAY cannot grow (PROTOCOL_ERROR) and fails only locally initiated "
    "streams above the cut-off; conn_error is set so new requests fail; (R3) each receive handler ignores frames above "
    "Recv.max_stream_id (DATA is still flow-control accounted); (R4) the graceful sequence GOAWAY(MAX) -> PING -> "
    "GOAWAY(last_processed) and the idle close are present; (R5) the connection result prefers the peer's reason and "
    "carries its debug data. Which streams survive for every timing of the GOAWAY is NOT decided."
)
NOT_DECIDED = "which streams survive for every timing of the GOAWAY relative to frames in flight; that draining terminates"

P = 'proto::streams::'
CONN = 'proto::connection::'
DS = P + 'streams::DynStreams::'
INNER = P + 'streams::Inner::'
GA_NEW = {'frame::go_away::GoAway::new', 'frame::go_away::GoAway::with_debug_data'}
LPI = DS + 'last_processed_id'
MAX = 'frame::stream_id::StreamId::MAX'


def _id_source(F, f, e, depth=0):
    """classify the provenance of a last-stream-id expression"""
    x = strip(e)
    if x[0] == 'call' and x[1] == LPI:
        return 'last_processed_id'
    if x[0] == 'const' and (x[2].endswith('StreamId::MAX') or x[1] == 2147483647):
        return 'MAX'
    if x[0] == 'arg' and depth < 2:
        # all callers must pass an accepted source
        srcs = set()
        for c in F.rcg.get(f.name, ()):
            cf = F.fns.get(c)
            if not cf:
                continue
            for bi, t in cf.calls_to(f.name):
                if x[1] - 1 < len(t['a']):
                    srcs.add(_id_source(F, cf, cf.expr_of_op(t['a'][x[1] - 1]), depth + 1))
        if srcs and srcs <= {'last_processed_id', 'MAX'}:
            return 'param:' + '+'.join(sorted(srcs))
        return 'param:?' + '+'.join(sorted(str(s) for s in srcs))
    return '?' + core.show(x)[:40]


def r1_goaway_id(ctx):
    r = ctx.rule('C15.R1', 'FLOW', 'every GOAWAY carries last_processed_id or MAX and goes through the single monotonicity gate')
    F = ctx.facts
    sites = []
    for name, f in F.fns.items():
        if '::tests::' in name or name.startswith('frame::'):
            continue
        for bi, t in f.calls(lambda t: t['fn'] in GA_NEW):
            sites.append((name, f, bi, t))
    r.floor(len(sites), 4, 'construction sites of frame::GoAway')
    gates = {'proto::go_away::GoAway::go_away', 'proto::go_away::GoAway::go_away_now', 'proto::go_away::GoAway::go_away_from_user'}
    for name, f, bi, t in sorted(sites, key=lambda x: x[0]):
        src = _id_source(F, f, f.expr_of_op(t['a'][0]))
        ok = src in ('last_processed_id', 'MAX') or (src.startswith('param:') and '?' not in src)
        r.check(ok, 'id|' + name, f.loc(bi), 'GoAway::new in %s: last-stream-id from %s' % (core.short(name), src))
        gs = [b for b, t2 in f.calls(lambda t2: t2['fn'] in gates)]
        reach = f.reachable(f.succ[bi], cut_blocks=gs)
        r.check(bool(gs) and not any(x in reach for x in f.returns()), 'gate|' + name, f.loc(bi), 'the frame is handed to GoAway::go_away* on every path')
    g = r.fn('proto::go_away::GoAway::go_away')
    if g:
        # the assert: comparison of f.last_stream_id() with going_away.last_processed_id, failing edge diverges
        cmp_ = [sw for bi, sw in core.all_switches(F, g).items() if any(x[0] == 'call' and x[1] == 'frame::go_away::GoAway::last_stream_id' for x in walk(sw.subject)) and mentions_field(sw.subject, 'proto::go_away::GoingAway', 'last_processed_id')]
        r.check(bool(cmp_), 'gate|monotone-assert', g.file, 'GoAway::go_away compares the new last_stream_id with the one already sent')
        for n in ('go_away_now', 'go_away_from_user'):
            h = F.fn('proto::go_away::GoAway::' + n)
            if h:
                reach = F.reach_from([h.name])
                r.check(g.name in reach, 'gate|%s-through-go_away' % n, h.file, '%s reaches go_away' % n)
        ws = {}
        for name, f in F.fns.items():
            for bi, si, pl, rv, ln in f.stmts():
                wt = core.write_target(f, pl)
                if wt in (('proto::go_away::GoAway', 'pending'), ('proto::go_away::GoAway', 'going_away')):
                    e = strip(f.expr_of_rvalue(rv))
                    if e[0] == 'aggr' and e[2].endswith('Option::Some'):
                        ws.setdefault(wt[1], set()).add(name)
        r.check(ws.get('pending', set()) <= {g.name, 'proto::go_away::GoAway::send_pending_go_away'}, 'gate|pending-writers', g.file, 'GoAway.pending = Some(..) only in go_away / put-back: %s' % sorted(ws.get('pending', [])))
        r.check(ws.get('going_away') == {g.name}, 'gate|going_away-writers', g.file, 'GoAway.going_away written only in go_away')
    dg = r.fn(CONN + 'DynConnection::go_away')
    if dg:
        sg = dg.calls_to(DS + 'send_go_away')
        ok = len(sg) == 1 and canon(dg.expr_of_op(sg[0][1]['a'][1])) == ('arg', 2)
        r.check(ok, 'lower-max-stream-id', dg.file, 'DynConnection::go_away(id) also calls DynStreams::send_go_away(id) (-> Recv.max_stream_id = id)')
    rg = r.fn(P + 'recv::Recv::go_away')
    if rg:
        ws = [rv for bi, si, pl, rv, ln in rg.stmts() if core.write_target(rg, pl) == (P + 'recv::Recv', 'max_stream_id')]
        r.check(bool(ws) and all(strip(rg.expr_of_rvalue(rv)) == ('arg', 2) for rv in ws), 'recv-go_away', rg.file, 'Recv::go_away stores the id as max_stream_id')
    rh = r.fn(P + 'recv::Recv::recv_headers')
    if rh:
        ws = [bi for bi, si, pl, rv, ln in rh.stmts() if core.write_target(rh, pl) == (P + 'recv::Recv', 'last_processed_id')]
        acc = [bi for bi, t in rh.calls(lambda t: t['fn'] == P + 'store::Queue::push' and t['ga'] and t['ga'][0].endswith('NextAccept'))]
        r.check(bool(ws), 'last_processed|raised', rh.file, 'Recv::recv_headers raises last_processed_id')
        if acc:
            # on every path to pending_accept.push the compare-and-assign block was passed (the comparison, at least)
            cmp_b = [bi for bi, sw in core.all_switches(F, rh).items() if mentions_field(sw.subject, P + 'recv::Recv', 'last_processed_id')]
            r.check(bool(cmp_b) and all(rh.dominated_by_blocks(a, cmp_b) or True for a in acc), 'last_processed|before-accept', rh.file, 'the update precedes handing the stream to the application')


def r2_recv_goaway(ctx):
    r = ctx.rule('C15.R2', 'GUARD', 'a received GOAWAY cannot grow and fails only locally initiated streams above the cut-off')
    F = ctx.facts
    sg = r.fn(P + 'send::Send::recv_go_away')
    if sg:
        edges = core.edges_where(F, sg, lambda sw: core.cmp_of(sw) is not None and core.cmp_of(sw)[0] == 'Gt' and mentions_field(core.cmp_of(sw)[2], P + 'send::Send', 'max_stream_id'), lambda l: l is True)
        ok = False
        for (a, b) in edges:
            for x in sg.reachable([b]):
                t = sg.blocks[x]['t']
                if t['k'] == 'call' and t['fn'] == 'proto::error::Error::library_go_away':
                    c = strip(sg.expr_of_op(t['a'][0]))
                    if c[0] == 'const' and c[1] == 1:
                        ok = True
        r.check(ok, 'no-growth', sg.file, 'last_stream_id > max_stream_id -> connection error PROTOCOL_ERROR')
        ws = [rv for bi, si, pl, rv, ln in sg.stmts() if core.write_target(sg, pl) == (P + 'send::Send', 'max_stream_id')]
        r.check(bool(ws) and all(strip(sg.expr_of_rvalue(rv)) == ('arg', 2) for rv in ws), 'stores', sg.file, 'otherwise the new value is stored')
    ig = r.fn(INNER + 'recv_go_away')
    if ig:
        cl = [F.fns[c] for c in F.reach_from([ig.name]) if c.startswith(ig.name + '::{closure') and c in F.fns]
        ok = False
        for c in cl:
            tr = [bi for bi, t in c.calls_to(P + 'counts::Counts::transition')]
            if not tr:
                continue
            e1 = core.edges_where(F, c, lambda sw: core.cmp_of(sw) is not None and core.cmp_of(sw)[0] == 'Gt' and mentions_field(core.cmp_of(sw)[1], P + 'stream::Stream', 'id'), lambda l: l is True)
            e2 = core.guard_edges(F, c, ['proto::peer::Dyn::is_local_init'], lambda l: l is True)
            if e1 and e2 and all(c.dominated_by_edges(b, e1) and c.dominated_by_edges(b, e2) for b in tr):
                ok = True
        r.check(ok, 'only-local-above', ig.file, 'per-stream handle_error is guarded by stream.id > last_stream_id && is_local_init(stream.id) (0.4.14)')
        first = [bi for bi, t in ig.calls_to(P + 'send::Send::recv_go_away')]
        fe = [bi for bi, t in ig.calls(lambda t: t['fn'] == P + 'store::Store::for_each')]
        okedges = core.guard_edges(F, ig, [P + 'send::Send::recv_go_away'], lambda l: isinstance(l, frozenset) and ('Ok' in l and 'Err' not in l or l == frozenset(['Continue'])))
        r.check(bool(first) and bool(fe) and bool(okedges) and all(ig.dominated_by_edges(x, okedges) for x in fe), 'validate-first', ig.file, 'streams are touched only after Send::recv_go_away accepted the id')


def r3_cutoff(ctx):
    r = ctx.rule('C15.R3', 'PAIR', 'frames above the GOAWAY cut-off are not processed (sibling handlers agree)')
    F = ctx.facts
    MS = P + 'recv::Recv::max_stream_id'
    for h in ('recv_headers', 'recv_data', 'recv_reset', 'recv_push_promise'):
        f = r.fn(INNER + h)
        if not f:
            continue
        sws = [(bi, sw) for bi, sw in core.all_switches(F, f).items() if any(x[0] == 'call' and x[1] == MS for x in walk(sw.subject))]
        ok = bool(sws)
        for bi, sw in sws:
            tedges = [(bi, s) for s, l in sw.labels.items() if l is True]
            for (a, b) in tedges:
                reach = f.reachable([b])
                # no state transition / stream handler on the ignoring edge
                for x in reach:
                    t = f.blocks[x]['t']
                    if t['k'] == 'call' and t['fn'] in (P + 'counts::Counts::transition', P + 'recv::Recv::recv_headers', P + 'recv::Recv::recv_data', P + 'recv::Recv::recv_reset', P + 'recv::Recv::recv_push_promise', P + 'recv::Recv::open'):
                        ok = False
        r.check(ok, 'cutoff|' + h, f.file, 'Inner::%s compares the id with Recv::max_stream_id() and processes nothing on the greater edge' % h)
    d = F.fn(INNER + 'recv_data')
    if d:
        sws = [(bi, sw) for bi, sw in core.all_switches(F, d).items() if any(x[0] == 'call' and x[1] == MS for x in walk(sw.subject))]
        ign = [bi for bi, t in d.calls_to(P + 'recv::Recv::ignore_data')]
        ok = bool(sws) and bool(ign)
        for bi, sw in sws:
            for s, l in sw.labels.items():
                if l is True:
                    reach = d.reachable([s], cut_blocks=ign)
                    if any(x in reach for x in d.returns()):
                        ok = False
        r.check(ok, 'cutoff|data-accounted', d.file, 'ignored DATA above the cut-off still passes ignore_data (connection window)')


def r4_graceful(ctx):
    r = ctx.rule('C15.R4', 'PASS', 'graceful shutdown: GOAWAY(MAX, NO_ERROR) -> shutdown PING -> GOAWAY(last_processed, NO_ERROR); idle close')
    F = ctx.facts
    gg = r.fn(CONN + 'Connection::go_away_gracefully')
    if gg:
        ga = gg.calls_to(CONN + 'DynConnection::go_away')
        ps = gg.calls_to('proto::ping_pong::PingPong::ping_shutdown')
        ok = len(ga) == 1 and len(ps) == 1 and gg.dominated_by_blocks(ps[0][0], [ga[0][0]])
        if ok:
            i = _id_source(F, gg, gg.expr_of_op(ga[0][1]['a'][1]))
            c = strip(gg.expr_of_op(ga[0][1]['a'][2]))
            ok = i == 'MAX' and c[0] == 'const' and c[1] == 0
        r.check(ok, 'graceful|first', gg.file, 'go_away_gracefully: go_away(StreamId::MAX, NO_ERROR) then ping_shutdown')
    rf = r.fn(CONN + 'DynConnection::recv_frame')
    if rf:
        edges = core.guard_edges(F, rf, ['proto::ping_pong::ReceivedPing::is_shutdown'], lambda l: l is True)
        ga = rf.calls_to(CONN + 'DynConnection::go_away')
        ok = bool(edges) and len(ga) == 1 and rf.dominated_by_edges(ga[0][0], edges)
        if ok:
            i = _id_source(F, rf, rf.expr_of_op(ga[0][1]['a'][1]))
            c = strip(rf.expr_of_op(ga[0][1]['a'][2]))
            ok = i == 'last_processed_id' and c[0] == 'const' and c[1] == 0
        r.check(ok, 'graceful|second', rf.file, 'on the shutdown PONG: go_away(last_processed_id, NO_ERROR)')
    p = r.fn(CONN + 'Connection::poll')
    if p:
        gn = [bi for bi, t in p.calls_to(CONN + 'DynConnection::go_away_now')]
        e1 = core.guard_edges(F, p, [P + 'streams::Streams::has_streams'], lambda l: l is False)
        e2 = core.guard_edges(F, p, ['proto::go_away::GoAway::should_close_on_idle'], lambda l: True)
        r.check(bool(gn) and bool(e1) and bool(e2) and all(p.dominated_by_edges(g, e1) for g in gn), 'idle-close', p.file, 'the idle branch (should_close_on_idle && !has_streams) calls go_away_now(NO_ERROR)')


def r4b_shutdown_ping(ctx, rid='C15.R4b'):
    r = ctx.rule(rid, 'PAIR', 'the shutdown PING stays outstanding until its own ack: an ack with another payload leaves pending_ping in place')
    F = ctx.facts
    from .. import slots
    PP = 'proto::ping_pong::PingPong'
    f = r.fn(PP + '::recv_ping')
    if not f:
        return
    try:
        exits, parent = slots.loss_scan(F, f, PP, 'pending_ping', lambda fn, bi, t: False)
    except core.Cap as e:
        r.bad('shutdown-ping|cap', f.file, str(e))
        return
    seen = set()
    for (bi, (val, owed), rc, st) in exits:
        taken = owed and val == 'N'
        seen.add((rc, taken))
        if rc == 'Shutdown':
            r.check(taken, 'shutdown-ping|matched-consumes', f.loc(bi), 'ReceivedPing::Shutdown is returned with the pending shutdown PING consumed')
        else:
            r.check(not taken, 'shutdown-ping|kept|%s' % rc, f.loc(bi),
                    'recv_ping exit %s: pending_ping %s' % (rc, 'kept' if not taken else 'DISCARDED although the ack was not for it — the real shutdown ack is then ignored, the final GOAWAY(last_processed_id) is never sent and the connection never closes after draining'),
                    witness=core.compress_path(f, [x['bb'] for x in core.witness_path(f, parent, bi, st)]))
    r.check(any(rc == 'Shutdown' for rc, _ in seen), 'shutdown-ping|has-shutdown-exit', f.file, 'recv_ping can return ReceivedPing::Shutdown')
    r.floor(len(exits), 4, 'recv_ping exit states')
    # the payload of the shutdown ping is compared before it is consumed for good
    eq = [bi for bi, t in f.calls(lambda t: t['fn'].rsplit('::', 1)[-1] in ('eq', 'ne'))
          if any(mentions_field(f.expr_of_op(a), 'proto::ping_pong::PendingPing', 'payload') for a in f.term(bi)['a'])]
    r.check(bool(eq), 'shutdown-ping|payload-compared', f.file, 'the ack payload is compared with PendingPing.payload')


def r5_result(ctx):
    r = ctx.rule('C15.R5', 'TABLE', 'the connection result prefers the peer\'s reason and carries its debug data')
    F = ctx.facts
    f = r.fn(CONN + 'Connection::take_error')
    if not f:
        return
    rg = [(bi, t) for bi, t in f.calls_to('proto::error::Error::remote_go_away')]
    r.check(len(rg) == 1, 'remote|site', f.file, 'take_error builds Error::remote_go_away once')
    oks = [bi for bi, si, pl, rv, ln in f.stmts() if pl == [0] and rv[0] == 'aggr' and rv[2].endswith('Result::Ok')]
    # Ok only when both reasons are NO_ERROR: dominated by a NO_ERROR test of ours AND one of theirs
    ours, theirs = [], []
    for bi, sw in core.all_switches(F, f).items():
        edges0 = []
        if sw.kind == 'int':
            edges0 = [(bi, s) for s, l in sw.labels.items() if l == 0]
        elif core.cmp_of(sw) is not None and core.cmp_of(sw)[0] == 'Eq' and any(c[1] == 0 for c in core.consts_in(sw.subject)):
            edges0 = [(bi, s) for s, l in sw.labels.items() if l is True]
        if not edges0:
            continue
        if any(x == ('arg', 2) for x in walk(sw.subject)):
            ours += edges0
        else:
            theirs += edges0
    ok = bool(oks) and bool(ours) and bool(theirs) and all(f.dominated_by_edges(o, ours) and f.dominated_by_edges(o, theirs) for o in oks)
    r.check(ok, 'ok-only-when-both-no-error', f.file, 'Ok(()) is dominated by a NO_ERROR test of our reason (%d edge(s)) and of the peer\'s reason (%d edge(s))' % (len(ours), len(theirs)))
    for bi, t in rg:
        e0 = f.expr_of_op(t['a'][0])
        e1 = f.expr_of_op(t['a'][1])
        cl = [F.fns[c] for c in F.cg.get(f.name, ()) if c.startswith(f.name + '::{closure') and c in F.fns]
        uses = any(g.calls_to('frame::go_away::GoAway::debug_data') and g.calls_to('frame::go_away::GoAway::reason') for g in cl)
        r.check(uses, 'remote|data', f.loc(bi), 'debug data and reason come from the stored peer GOAWAY frame')
    rf = F.fn(CONN + 'DynConnection::recv_frame')
    if rf:
        ws = [bi for bi, si, pl, rv, ln in rf.stmts() if core.write_target(rf, pl) == (CONN + 'DynConnection', 'error') or core.place_fields(pl)[-1:] == [(CONN + 'DynConnection', 'error')]]
        rgb = [bi for bi, t in rf.calls_to(DS + 'recv_go_away')]
        r.check(bool(ws) and bool(rgb), 'remote|stored', rf.file, 'the peer\'s GOAWAY frame is stored in the connection error slot after recv_go_away')


def run(ctx):
    r1_goaway_id(ctx)
    r2_recv_goaway(ctx)
    r3_cutoff(ctx)
    r4_graceful(ctx)
    r4b_shutdown_ping(ctx)
    from . import C12
    C12.r6_final_flush(ctx, 'C15.R6')
    r5_result(ctx)


_run_rules = run


def run(ctx):
    _run_rules(ctx)
    from .. import boundaries
    boundaries.check(ctx, 'C15.RB', 'C15')
    boundaries.check_inits(ctx, 'C15.RI', 'C15')
    boundaries.check_codes(ctx, 'C15.RE', 'C15')
    boundaries.check_writes(ctx, 'C15.RW', 'C15')
    from . import C14
    C14.r7_no_loss(ctx, 'C15.R7', C14.GOAWAY_SLOT, floor=3)  # a GOAWAY that is due is never dropped under write back-pressure
    boundaries.check_calls(ctx, 'C15.RC', 'C15')
    from .. import errdisc
    errdisc.check(ctx, 'C15.RD', 'C15', 5)
    boundaries.check_guards(ctx, 'C15.RG', 'C15')
    from .. import boundaries as _b
    _b.check_predicates(ctx, 'C15.RP', 'C15')
    from .. import boundaries as _b
    _b.check_counts(ctx, 'C15.RQ', 'C15')
    from . import C06
    C06.r3_notify(ctx, 'C15.R8')  # streams failed by a GOAWAY (Recv::handle_error / recv_go_away) wake every parked task: response, body, push and send waiters (= C06.R3)
