"""C10 — HPACK encoder and decoder stay in sync."""
from .. import core, tables, hpackrules

EXHAUSTIVE = True
EXPLANATION = (
    "Decided part is thin: table and prefix agreement plus ordering facts. R1: the encoder's static index "
    "(index_static), the decoder's static table (get_static) and RFC 7541 Appendix A agree on all 61 rows; R2: every "
    "(prefix bits, first byte) the encoder passes to encode_int is the RFC 7541 section 6 pattern of its representation, "
    "the decoder's Representation::load agrees with section 6 on all 256 first bytes (exhaustive abstract interpretation) "
    "and reads each representation with the matching prefix; sensitive values use the never-indexed form; R3: a size "
    "change is signalled before any field, each signal is paired with the resize, min before max, within the allowance; "
    "R6: Encoder::update_max_size, which only compares its integers, is evaluated for every weak ordering of (new size, pending sizes, table size): the last size to be signalled is always the requested one and the minimum since the last block is signalled first; R7/R8: the decoder's and the encoder's dynamic tables store an entry iff size + len <= max_size, evict exactly while size > max_size and keep their size accounting paired with every insertion and eviction, so both ends drop the same entries; R4: a header block is HPACK-encoded once (CONTINUATION only copies bytes); R5: the Huffman ENCODE_TABLE equals "
    "Appendix B on all 257 rows. decode(encode(h)) = h is NOT decided."
)
NOT_DECIDED = "decode(encode(h)) = h; consistency of the robin-hood index under eviction; that the dynamic table size never exceeds the limit"


def run(ctx):
    F = ctx.facts
    r = ctx.rule('C10.R1', 'TABLE', 'index_static (encoder) = get_static (decoder) = RFC 7541 Appendix A')
    tables.static_table_rules(r, F, which=('get', 'index'))
    r = ctx.rule('C10.R2', 'TABLE', 'representation prefixes: encoder constants = RFC 7541 §6 = decoder (Representation::load exhaustive over 256 bytes)')
    hpackrules.representation_table(r, F)
    hpackrules.encoder_prefixes(r, F)
    hpackrules.decoder_prefixes(r, F)
    r = ctx.rule('C10.R3', 'GUARD', 'a table size change is signalled first, paired with the resize, within the allowance')
    hpackrules.size_update_order(r, F)
    r = ctx.rule('C10.R6', 'TSTATE', 'pending size updates: after update_max_size the final signalled size is the requested one and the minimum is signalled first (all orderings)')
    hpackrules.size_update_schedule(r, F, nvals=6 if ctx.tier == 'thorough' else 4)  # 4 values realise every weak ordering of the 4 symbols; thorough adds slack
    r = ctx.rule('C10.R7', 'PAIR', 'decoder dynamic table follows RFC 7541 §4.4: accounting paired, store iff size+len <= max, evict while > max (= C11.R6)')
    hpackrules.table_accounting(r, F)
    r = ctx.rule('C10.R8', 'PAIR', 'encoder dynamic table: same eviction boundary and paired accounting as the decoder table')
    hpackrules.encoder_table_accounting(r, F)
    r = ctx.rule('C10.R9', 'TABLE', 'entry size = 32 + name + value with the right pseudo-name lengths (both tables account with it); string length prefix uses the 7-bit prefix test')
    hpackrules.entry_size(r, F)
    r = ctx.rule('C10.R10', 'PASS', 'resumability: only fully decoded fields are consumed, every representation arm consumes (a split block inserts each literal once) (= C11.R5)')
    hpackrules.resumability(r, F)
    r = ctx.rule('C10.R12', 'GUARD', 'every field of a block is decoded even when the block is refused (= C11.R9)')
    hpackrules.decode_runs_to_end(r, F)
    r = ctx.rule('C10.R4', 'WHO', 'a header block is HPACK-encoded once')
    hpackrules.encode_once(r, F)
    r = ctx.rule('C10.R5', 'TABLE', 'Huffman ENCODE_TABLE = RFC 7541 Appendix B (257 rows)')
    tables.huffman_encode_rule(r, F)


_run_rules = run


def run(ctx):
    _run_rules(ctx)
    from .. import boundaries
    boundaries.check(ctx, 'C10.RB', 'C10')
    boundaries.check_writes(ctx, 'C10.RW', 'C10')
    boundaries.check_calls(ctx, 'C10.RC', 'C10')
    from .. import errdisc
    errdisc.check(ctx, 'C10.RD', 'C10', 22)
    from .. import boundaries as _b
    _b.check_predicates(ctx, 'C10.RP', 'C10')
    from .. import boundaries as _b
    _b.check_updates(ctx, 'C10.RU', 'C10')
    from .. import boundaries as _b
    _b.check_guards(ctx, 'C10.RG', 'C10')
    from .. import boundaries as _b
    _b.check_amounts(ctx, 'C10.RA', 'C10')
    from .. import boundaries as _b
    _b.check_counts(ctx, 'C10.RQ', 'C10')
