"""C10 — HPACK encoder and decoder stay in sync."""
from .. import core, tables

EXPLANATION = (
    "Decided part is thin: table agreement and ordering facts. R1: the encoder's static index (index_static), the "
    "decoder's static table (get_static) and RFC 7541 Appendix A agree on all 61 rows; R5: the Huffman ENCODE_TABLE equals "
    "Appendix B on all 257 rows; R2-R4: representation prefixes agree between encoder, decoder and RFC, size updates are "
    "emitted first and within the allowance, a header block is HPACK-encoded once. decode(encode(h)) = h is NOT decided."
)
NOT_DECIDED = "decode(encode(h)) = h; consistency of the robin-hood index under eviction; that the dynamic table size never exceeds the limit"


def run(ctx):
    F = ctx.facts
    r = ctx.rule('C10.R1', 'TABLE', 'index_static (encoder) = get_static (decoder) = RFC 7541 Appendix A')
    tables.static_table_rules(r, F, which=('get', 'index'))
    r = ctx.rule('C10.R5', 'TABLE', 'Huffman ENCODE_TABLE = RFC 7541 Appendix B (257 rows)')
    tables.huffman_encode_rule(r, F)
