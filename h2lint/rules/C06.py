"""C06 — progress: no lost wake-up (structural necessary conditions)."""
import re

from .. import core
from ..core import strip, walk, last_field, has_field

EXPLANATION = (
    "Liveness over all schedules is not a static property; decided are the necessary conditions 'whoever parks has "
    "registered; whoever creates work can and does wake': (R1) every handle entry point from which connection work can be "
    "created (a capacity grant, a push on the send / open / window-update queues) can also reach a wake of the connection "
    "task, and the listed path-sensitive sites do wake on the path that queues; (R2) in every Poll-returning function of "
    "the crate every store of Poll::Pending into the return place is preceded on ALL paths by a waker registration, a "
    "must-register callee, or an un-refuted Pending of a Context-taking Poll callee (path-sensitive dataflow with "
    "interprocedural must-register summaries); (R3) every delivery to a stream's receive queue and every closer notifies "
    "the parked tasks, and the sibling closers agree on the set; (R4) the connection parks under the lock that saw the "
    "work list empty; (R5) the lock-free user-ping state publishes before waking and registers before checking; (R6) "
    "admission and capacity grants notify the waiter. That operations eventually complete is NOT decided."
)
NOT_DECIDED = ("that operations eventually complete; fairness; stalls caused by correct calls combining to wrong numbers "
               "(the lowered-window stall quoted in the property); the single recv_task slot shared by two pollers")

P = 'proto::streams::'
STREAM = P + 'stream::Stream'
WAKER_CLONE = '<std::task::Waker as std::clone::Clone>::clone'
CTX_WAKER = 'std::task::Context::waker'
REGISTER_CALLS = {'atomic_waker::AtomicWaker::register', 'std::task::Waker::wake_by_ref'}


def is_poll_ret(fn):
    return fn.ret.startswith('std::task::Poll<')


def takes_context(F, callee):
    cf = F.fns.get(callee)
    if cf is None:
        return None
    for i in range(1, cf.argc + 1):
        if 'std::task::Context<' in cf.local_ty(i):
            return True
    return False


def registration_event(f, t):
    """terminator registers the current task's waker"""
    if t['k'] != 'call':
        return False
    if t['fn'] in REGISTER_CALLS:
        return True
    if t['fn'] == WAKER_CLONE and t['a']:
        e = f.expr_of_op(t['a'][0])
        return core.contains_call(e, CTX_WAKER)
    return False


def must_register_summaries(F):
    """functions that register a waker of their Context on every path to a return"""
    summ = {}
    cand = [n for n, f in F.fns.items() if any('std::task::Context<' in f.local_ty(i) for i in range(1, f.argc + 1))]
    changed = True
    it = 0
    while changed and it < 10:
        changed = False
        it += 1
        for n in cand:
            if summ.get(n):
                continue
            f = F.fns[n]
            evs = [bi for bi, t in f.calls() if registration_event(f, t) or summ.get(t['fn'])]
            if not evs:
                continue
            reach = f.reachable([0], cut_blocks=evs)
            if not any(rb in reach and rb not in evs for rb in f.returns()):
                summ[n] = True
                changed = True
    return summ


PENDING_EXCEPTIONS = {
    'codec::framed_write::FramedWrite::poll_ready': 'the second has_capacity test is unreachable after a completed flush (unset_frame cleared `next` and the buffer)',
}


def r2_pending_registered(ctx, rid='C06.R2', only=None):
    r = ctx.rule(rid, 'POST', 'no Poll::Pending is returned without a waker registration or a propagated Pending on every path')
    F = ctx.facts
    summ = must_register_summaries(F)
    r.stat('must_register_functions', len(summ))
    nfn = 0
    nsites = 0
    for name, f in sorted(F.fns.items()):
        if not is_poll_ret(f) or f.coroutine or '::tests::' in name:
            continue
        if only and name not in only:
            continue
        nfn += 1
        sites = []
        for bi, si, pl, rv, ln in f.stmts():
            if rv[0] == 'aggr' and rv[2].endswith('task::Poll::Pending'):
                sites.append((bi, si, pl, ln))
        if not sites:
            continue
        sws = core.all_switches(F, f)
        # call blocks whose result may be Pending (Context-taking Poll callees, incl. unresolved generic ones)
        pcalls = {}
        for bi, t in f.calls():
            cf = F.fns.get(t['fn'])
            takes = any(('std::task::Context<' in f.local_ty(core.op_local(a))) if core.op_local(a) is not None else False for a in t['a'])
            if not takes:
                # the context may be passed re-borrowed: look at the expression type by name
                for a in t['a']:
                    pl = core.op_place(a)
                    if pl is not None and 'std::task::Context<' in f.local_ty(pl[0]):
                        takes = True
            if not takes:
                continue
            dty = f.local_ty(t['d'][0]) if len(t['d']) == 1 else ''
            if cf is not None:
                if is_poll_ret(cf):
                    pcalls[bi] = t['fn']
            elif 'std::task::Poll<' in dty:
                pcalls[bi] = t['fn']

        def on_term(us, bi, t):
            reg, pend = us
            if t['k'] == 'call':
                if registration_event(f, t) or summ.get(t['fn']):
                    reg = True
                if bi in pcalls:
                    pend = pend | frozenset([bi])
            return (reg, pend)

        def on_edge(us, bi, s):
            sw = sws.get(bi)
            if sw is None:
                return us
            reg, pend = us
            lab = sw.labels.get(s)
            if not pend or lab is None:
                return us
            src = set(x[3] for x in walk(sw.subject) if x[0] == 'call' and x[3] in pend)
            if not src:
                return us
            refuted = False
            if isinstance(lab, frozenset):
                if lab and not any('Pending' in l for l in lab) and any(l.startswith('Ready') for l in lab):
                    refuted = True
                # Ok/Err/Some/None of the inner value: reached only through a Ready
                if lab and all(l in ('Ok', 'Err', 'Some', 'None') for l in lab) and _inner_of_ready(sw.subject):
                    refuted = True
            if refuted:
                pend = pend - src
            return (reg, pend)

        try:
            exits, ins, parent = core.scan(f, (False, frozenset()), None, on_term, on_edge, cap=256, track_ret=False)
        except core.Cap as e:
            r.bad('cap|' + name, f.file, 'state cap exceeded: fail closed')
            continue
        for (bi, si, pl, ln) in sites:
            nsites += 1
            states = ins.get(bi, set())
            bad = [st for st in states if not st[0][0] and not st[0][1]]
            key = 'pending|%s' % name
            if not bad:
                r.ok(key, '%s:%d' % (f.file, ln), 'registered or propagated on all %d path state(s)' % len(states))
            elif name in PENDING_EXCEPTIONS:
                r.exception(key, PENDING_EXCEPTIONS[name])
                r.ok(key, '%s:%d' % (f.file, ln), 'named exception: ' + PENDING_EXCEPTIONS[name])
            else:
                w = core.witness_path(f, parent, bi, bad[0])
                r.bad(key, '%s:%d' % (f.file, ln),
                      '%s can return Poll::Pending on a path where no waker was registered and no Context-taking callee was pending: the task is never woken (lost wake-up)' % name,
                      witness=core.compress_path(f, [x['bb'] for x in w]))
    r.stat('poll_functions', nfn)
    r.stat('pending_sites', nsites)
    if not only:
        r.floor(nfn, 50, 'Poll-returning functions analysed')
        r.floor(nsites, 25, 'Poll::Pending store sites')


def _inner_of_ready(e):
    for x in walk(e):
        if x[0] == 'variant' and x[2] in ('Ready', 'Continue'):
            return True
    return False


# ----------------------------------------------------------------------------- R1 wake capability

HANDLE_TYPES = ['client::SendRequest', 'client::ReadySendRequest', 'client::ResponseFuture', 'client::PushedResponseFuture', 'client::PushPromises',
                'client::PushPromise', 'share::SendStream', 'share::RecvStream', 'share::FlowControl', 'share::PingPong', 'share::Pong', 'share::Ping',
                'share::StreamId', 'server::SendResponse', 'server::SendPushedResponse']
ENTRY_OWNERS = [P + 'streams::Streams', P + 'streams::StreamRef', P + 'streams::OpaqueStreamRef', 'proto::ping_pong::UserPings']


def handle_entry_points(F):
    """functions of Streams / StreamRef / OpaqueStreamRef / UserPings (and their Drop / Clone impls) called from
    the public handle types of client / server / share"""
    roots = set()
    for n, f in F.fns.items():
        base = n.split('::{closure')[0]
        for h in HANDLE_TYPES:
            if base.startswith(h + '::') or base.startswith('<' + h + ' as '):
                roots.add(n)
    # walk within client/server/share until an ENTRY_OWNERS function is hit
    entries = set()
    seen = set()
    st = list(roots)
    while st:
        x = st.pop()
        if x in seen:
            continue
        seen.add(x)
        for c in F.cg.get(x, ()):
            base = c.split('::{closure')[0]
            if any(base.startswith(o + '::') or base.startswith('<' + o + ' as ') for o in ENTRY_OWNERS):
                entries.add(c)
            elif c in F.fns and (c.startswith('client::') or c.startswith('server::') or c.startswith('share::') or c.startswith('<client::') or c.startswith('<server::') or c.startswith('<share::')):
                st.append(c)
    # drop glue of handles: Drop impls of the owner types
    for o in ENTRY_OWNERS:
        d = F.drop_impls.get(o)
        if d:
            entries.add(d)
    return entries


def work_sites(F, fn):
    out = []
    for bi, t in fn.calls():
        if t['fn'] == STREAM + '::assign_capacity':
            out.append((bi, 'grant of send capacity (Stream::assign_capacity)'))
        elif t['fn'] in (P + 'store::Queue::push', P + 'store::Queue::push_front') and t['ga'] and re.search(r'Next(Send|Open|WindowUpdate)$', t['ga'][0]):
            out.append((bi, 'Queue<%s>::%s' % (t['ga'][0].split('::')[-1], t['fn'].split('::')[-1])))
    return out


def conn_wake_sites(F, fn):
    out = []
    for bi, t in fn.calls_to('std::option::Option::take'):
        if not t['ga'] or t['ga'][0] != 'std::task::Waker':
            continue
        e = fn.expr_of_op(t['a'][0])
        lf = last_field(strip(e))
        if lf and lf[0] == STREAM and lf[1] in ('send_task', 'recv_task', 'push_task'):
            continue
        out.append(bi)
    return out


def r1_wake_capability(ctx, rid='C06.R1'):
    r = ctx.rule(rid, 'SUMM', 'a handle entry point that can create connection work can reach a wake of the connection task')
    F = ctx.facts
    entries = handle_entry_points(F)
    r.floor(len(entries), 30, 'handle entry points')
    work = {n: work_sites(F, f) for n, f in F.fns.items()}
    work = {n: w for n, w in work.items() if w}
    wake = {n: conn_wake_sites(F, f) for n, f in F.fns.items()}
    wake = {n: w for n, w in wake.items() if w}
    r.floor(len(wake), 6, 'functions containing a connection-task wake (Option<Waker>::take on Actions.task / task parameter)')
    r.floor(len(work), 5, 'functions containing a work-creating site')
    for e in sorted(entries):
        reach = F.reach_from([e])
        ws = sorted(x for x in reach if x in work)
        if not ws:
            continue
        ks = [x for x in reach if x in wake]
        key = 'entry|%s' % e
        if ks:
            r.ok(key, F.fns[e].file if e in F.fns else '', 'creates work via %s; can wake via %s' % (core.short(ws[0]), core.short(sorted(ks)[0])))
        else:
            chain = F.call_path(e, lambda x: x in work) or []
            wf = F.fns[chain[-1]] if chain else None
            r.bad(key, '%s:%d' % (F.fns[e].file, F.fns[e].l0) if e in F.fns else '',
                  'handle entry %s can create connection work (%s in %s) but no wake of the connection task is reachable from it: '
                  'the queued work sits until something unrelated wakes the connection' % (e, work[chain[-1]][0][1] if chain else '?', chain[-1] if chain else '?'),
                  witness=chain)
    # every take() of the connection task is followed by wake() on its Some edge
    for n, sites in sorted(wake.items()):
        f = F.fns[n]
        for bi in sites:
            wk = [b for b, t in f.calls_to('std::task::Waker::wake')]
            reach = f.reachable(f.succ[bi])
            r.check(any(b in reach for b in wk), 'take-then-wake|%s' % n, f.loc(bi), 'Option<Waker>::take is followed by Waker::wake')


def r1b_path_sites(ctx, rid='C06.R1b'):
    r = ctx.rule(rid, 'PASS', 'path form: the listed functions wake the connection on the path that queues work')
    F = ctx.facts
    # (function, work predicate description, work block finder)
    def q_push(kind):
        return lambda f: [bi for bi, t in f.calls() if t['fn'] in (P + 'store::Queue::push', P + 'store::Queue::push_front') and t['ga'] and t['ga'][0].endswith(kind)]
    specs = [
        (P + 'prioritize::Prioritize::schedule_send', 'pending_send.push', q_push('NextSend')),
        (P + 'recv::Recv::release_capacity', 'pending_window_updates.push', q_push('NextWindowUpdate')),
    ]
    for fname, what, finder in specs:
        f = r.fn(fname)
        if not f:
            continue
        ws = finder(f)
        r.floor(len(ws), 1, '%s site in %s' % (what, fname.split('::')[-1]))
        takes = conn_wake_sites(F, f)
        for w in ws:
            reach = f.reachable(f.succ[w], cut_blocks=takes)
            leak = [x for x in f.returns() if x in reach]
            r.check(bool(takes) and not leak, 'wake-after|%s' % fname, f.loc(w), 'every path from %s to a return passes task.take() (then wake)' % what,
                    witness=core.compress_path(f, f.path_between(w, leak[0], cut_blocks=takes) or []) if leak else None)
    # functions that must wake when unclaimed capacity became available
    for fname in (P + 'recv::Recv::release_connection_capacity', P + 'recv::Recv::set_target_connection_window'):
        f = r.fn(fname)
        if not f:
            continue
        takes = conn_wake_sites(F, f)
        edges = core.guard_edges(F, f, [P + 'flow_control::FlowControl::unclaimed_capacity'], lambda l: l == frozenset(['Some']) or l is True)
        ok = bool(takes) and bool(edges)
        for (a, b) in edges:
            reach = f.reachable([b], cut_blocks=takes)
            if any(x in reach for x in f.returns()):
                ok = False
        r.check(ok, 'wake-on-unclaimed|%s' % fname, f.file, 'when unclaimed_capacity() is Some every path to a return passes task.take()')
    # Send::send_headers: queue_open => wake (path-sensitive on the constant boolean pending_open)
    sh = r.fn(P + 'send::Send::send_headers')
    if sh:
        qo = [bi for bi, t in sh.calls_to(P + 'prioritize::Prioritize::queue_open')]
        takes = conn_wake_sites(F, sh)
        r.floor(len(qo), 1, 'queue_open site in Send::send_headers')
        # track the boolean set on the queue_open path
        flags = set()
        for bi in qo:
            for b2 in sh.reachable([bi]):
                for s in sh.blocks[b2]['s']:
                    if len(s[0]) == 1 and s[1][0] == 'use' and core.op_const(s[1][1]) and core.op_const(s[1][1])[2] == 'bool' and core.op_const(s[1][1])[0] == 1 and sh.local_name(s[0][0]):
                        flags.add(s[0][0])
        sws = core.all_switches(F, sh)

        # boolean locals with more than one definition (a flag set on one arm, a condition kept in a named local):
        # their value is tracked from constant stores and *learnt from the outcome of a switch on them*, so a later
        # `if flag` on the same path takes the same arm
        multi = set(l for l in range(len(sh.locals)) if sh.local_ty(l) == 'bool' and sh.single_def(l) is None and sh.defs.get(l))

        def on_stmt(us, bi, si, pl, rv):
            if len(pl) == 1 and (pl[0] in flags or pl[0] in multi):
                d = dict(us[1])
                c = core.op_const(rv[1]) if rv[0] == 'use' else None
                if c is not None and c[0] in (0, 1):
                    d[pl[0]] = c[0]
                else:
                    d.pop(pl[0], None)
                return (us[0], tuple(sorted(d.items())))
            return us

        def on_term(us, bi, t):
            if bi in qo:
                return ('q', us[1])
            if bi in takes and us[0] == 'q':
                return ('w', us[1])
            return us

        def on_edge(us, bi, s):
            t = sh.term(bi)
            if t['k'] == 'sw' and t.get('ty') == 'bool':
                root = core.switch_root_local(sh, bi)
                if root is not None and (root in flags or root in multi):
                    tg_true = [b for v, b in t['ts'] if v != 0]
                    tg_false = [b for v, b in t['ts'] if v == 0]
                    out = True if s in tg_true else (False if s in tg_false else (not bool(tg_true)) if s == t['else'] else None)
                    if s == t['else'] and not tg_true and tg_false:
                        out = True
                    elif s == t['else'] and tg_true and not tg_false:
                        out = False
                    d = dict(us[1])
                    v = d.get(root)
                    if v is not None and out is not None and bool(v) != out:
                        return None
                    if v is None and out is not None:
                        d[root] = 1 if out else 0
                        return (us[0], tuple(sorted(d.items())))
            return us
        exits, ins, parent = core.scan(sh, ('-', ()), on_stmt, on_term, on_edge)
        for (bi, us, rc, st) in exits:
            if us[0] == 'q' and not rc.startswith('Err'):
                r.bad('send_headers|queue_open-no-wake', sh.loc(bi), 'Send::send_headers queues a stream on pending_open and returns %s without waking the connection' % rc,
                      witness=core.compress_path(sh, [x['bb'] for x in core.witness_path(sh, parent, bi, st)]))
        if not any(us[0] == 'q' and not rc.startswith('Err') for (bi, us, rc, st) in exits):
            r.ok('send_headers|queue_open-wakes', sh.file, 'every path that calls queue_open passes task.take() before returning (path-sensitive on %d tracked flag(s))' % len(flags))
    # Streams::drop and drop_stream_ref wake the connection
    for fname in ('<' + P + 'streams::Streams as std::ops::Drop>::drop', P + 'streams::drop_stream_ref'):
        f = r.fn(fname)
        if f:
            reach = F.reach_from([fname])
            has = any(conn_wake_sites(F, F.fns[x]) for x in reach if x in F.fns and (x == fname or x.startswith(fname + '::{closure') or x in (P + 'streams::maybe_cancel',)))
            r.check(has, 'drop-wakes|%s' % fname, f.file, '%s contains a wake of the connection task' % fname.split('::')[-1])


# ----------------------------------------------------------------------------- R3 notify siblings

def _notified(f, site, ns):
    """the notify accompanies the event at `site`: it follows on every path to a return, or it precedes on every path
    (dominates).  Both orders are equivalent here: these functions run with the stream lock held from before the
    event until after the return, and a wake only schedules the woken task, which must take the same lock to look."""
    if not ns:
        return False
    reach = f.reachable(f.succ[site], cut_blocks=ns)
    if not any(x in reach for x in f.returns()):
        return True
    return f.dominated_by_blocks(site, ns)


def r3_notify(ctx, rid='C06.R3'):
    r = ctx.rule(rid, 'PAIR', 'delivery and closure notify the parked tasks; sibling closers agree')
    F = ctx.facts
    # (a) every push_back on Stream.pending_recv in Recv is followed on all Ok paths by notify_recv
    n = 0
    for name, f in sorted(F.fns.items()):
        if not name.startswith(P + 'recv::Recv::') or '::tests::' in name:
            continue
        pushes = []
        for bi, t in f.calls_to(P + 'buffer::Deque::push_back'):
            e = f.expr_of_op(t['a'][0])
            if has_field(e, STREAM, 'pending_recv'):
                pushes.append(bi)
        if not pushes:
            continue
        notes = [bi for bi, t in f.calls_to(STREAM + '::notify_recv')]
        for pb in pushes:
            n += 1
            reach = f.reachable(f.succ[pb], cut_blocks=notes)
            leak = [x for x in f.returns() if x in reach]
            if leak and _notified(f, pb, notes):
                leak = []
            r.check(bool(notes) and not leak, 'deliver|%s' % name, f.loc(pb), 'push_back on pending_recv is accompanied by notify_recv on every path (same critical section)',
                    witness=core.compress_path(f, f.path_between(pb, leak[0], cut_blocks=notes) or []) if leak else None)
    r.floor(n, 5, 'push_back sites on Stream.pending_recv in Recv')
    rpp = F.fn(P + 'recv::Recv::recv_push_promise')
    if rpp:
        r.check(bool(rpp.calls_to(STREAM + '::notify_push')) or bool(rpp.calls_to(STREAM + '::notify_recv')), 'deliver|push_promise|notify', rpp.file, 'recv_push_promise notifies')
    # (b) closers: every call of a closing State mutator in proto::streams is followed by all three notifies
    closers = [P + 'state::State::' + x for x in ('recv_reset', 'handle_error', 'recv_eof', 'set_reset')]
    sets = {}
    for name, f in sorted(F.fns.items()):
        if not name.startswith(P) or '::tests::' in name or name.startswith(P + 'state::'):
            continue
        for bi, t in f.calls(lambda t: t['fn'] in closers):
            got = set()
            for what in ('notify_send', 'notify_recv', 'notify_push'):
                ns = [b for b, t2 in f.calls_to(STREAM + '::' + what)]
                if _notified(f, bi, ns):
                    got.add(what)
            sets[(name, t['fn'].split('::')[-1])] = (got, f.loc(bi))
    r.floor(len(sets), 4, 'call sites of closing State mutators (recv_reset, handle_error, recv_eof, set_reset)')
    for (name, cl), (got, loc) in sorted(sets.items()):
        missing = {'notify_send', 'notify_recv', 'notify_push'} - got
        r.check(not missing, 'closer|%s|%s' % (name, cl), loc, '%s after State::%s: notifies %s%s' % (core.short(name), cl, sorted(got), '' if not missing else '; MISSING %s — a task parked on that side of the stream is never woken when the stream closes' % sorted(missing)))
    # (b2) the three Recv closers notify on EVERY path that does not return an error — an early return
    #      "nothing changes for a closed stream" would leave tasks that parked after the close unwoken
    for fname in (P + 'recv::Recv::recv_eof', P + 'recv::Recv::handle_error', P + 'recv::Recv::recv_reset', STREAM + '::set_reset'):
        f = r.fn(fname)
        if not f:
            continue
        for what in ('notify_send', 'notify_recv', 'notify_push'):
            ns = [b for b, t2 in f.calls_to(STREAM + '::' + what)]

            def on_term(us, bi, t, ns=ns):
                return True if bi in ns else us
            exits, ins, parent = core.scan(f, False, None, on_term)
            bad = [(bi, rc, st) for (bi, us, rc, st) in exits if not us and not rc.startswith('Err')]
            r.check(bool(ns) and not bad, 'closer-all-paths|%s|%s' % (fname.split('::')[-1], what), f.loc(bad[0][0]) if bad else f.file,
                    '%s: every non-error path to a return passes %s' % (core.short(fname), what),
                    witness=core.compress_path(f, [x['bb'] for x in core.witness_path(f, parent, bad[0][0], bad[0][2])]) if bad else None)
    # (c) Actions::send_reset and reset_on_recv_stream_err notify the receiver after Send::send_reset
    for fname in (P + 'streams::Actions::send_reset', P + 'streams::Actions::reset_on_recv_stream_err'):
        if not r.fn(fname):
            continue
        cands = [g for n, g in F.fns.items() if n.split('::{closure')[0] == fname and g.calls_to(P + 'send::Send::send_reset')]
        f = cands[0] if cands else F.fns[fname]
        srs = [bi for bi, t in f.calls_to(P + 'send::Send::send_reset')]
        ns = [bi for bi, t in f.calls_to(STREAM + '::notify_recv')]
        ok = bool(srs) and bool(ns)
        for s in srs:
            reach = f.reachable(f.succ[s], cut_blocks=ns)
            # only the paths that return Ok after a reset matter
            if any(x in reach for x in f.returns()):
                ok = False
        r.check(ok, 'reset-notifies-recv|%s' % fname, f.file, 'Send::send_reset is followed by notify_recv on every path in %s' % fname.split('::')[-1])
    # (d) put-back hand-over between the two pollers of the single recv_task slot
    pd = r.fn(P + 'recv::Recv::poll_data')
    if pd:
        pf = [bi for bi, t in pd.calls_to(P + 'buffer::Deque::push_front')]
        ns = [bi for bi, t in pd.calls_to(STREAM + '::notify_recv')]
        ok = bool(pf) and bool(ns)
        for b in pf:
            if not _notified(pd, b, ns):
                ok = False
        r.check(ok, 'putback|poll_data', pd.file, 'poll_data: a put-back event is followed by notify_recv (hands over to poll_trailers)')
    pt = r.fn(P + 'recv::Recv::poll_trailers')
    if pt:
        pf = [bi for bi, t in pt.calls_to(P + 'buffer::Deque::push_front')]
        ok = bool(pf)
        regs = [bi for bi, si, pl, rv, ln in pt.stmts() if core.place_fields(pl)[-1:] == [(STREAM, 'recv_task')]]
        for b in pf:
            if not _notified(pt, b, regs):
                ok = False
        r.check(ok and bool(regs), 'putback|poll_trailers', pt.file, 'poll_trailers: after putting an event back it stores recv_task before returning (0.4.16 missed wake-up)')


def r4_park_under_lock(ctx, rid='C06.R4'):
    from .. import locks
    r = ctx.rule(rid, 'GUARD', 'the connection parks (stores Actions.task) under the same lock that observed the work list empty')
    F = ctx.facts
    f = r.fn(P + 'streams::Streams::poll_complete')
    if not f:
        return
    L = locks.LockFacts(F)
    IN = L.held(f)
    stores = [(bi, ln) for bi, si, pl, rv, ln in f.stmts() if core.place_fields(pl)[-1:] == [(P + 'streams::Actions', 'task')]]
    r.floor(len(stores), 1, 'store of Actions.task in Streams::poll_complete')
    A = 'proto::streams::streams::Inner'
    for bi, ln in stores:
        r.check(IN[bi] is not None and A in IN[bi], 'park|locked', '%s:%d' % (f.file, ln), 'Actions.task is stored while Mutex<Inner> is held')
        # the guard held here is the one that was held at the last buffer_pending / poll_complete of the work list:
        works = [b for b, t in f.calls(lambda t: t['fn'] in (P + 'streams::Inner::buffer_pending', P + 'streams::Inner::poll_complete', P + 'send::Send::poll_complete', P + 'streams::Inner::poll_complete_locked'))]
        locks_ = [b for b, t in f.calls() if locks.lock_class(t)]
        ok = bool(works)
        # every path from a lock() to the store passes a work-list check (i.e. the emptiness was observed under this acquisition)
        for lb in locks_:
            if lb in f.reachable([0]) and bi in f.reachable(f.succ[lb], cut_blocks=works + [x for x in locks_ if x != lb]):
                ok = False
        r.check(ok, 'park|observed', '%s:%d' % (f.file, ln), 'between acquiring the lock and parking the work list is polled (%d work-list call site(s))' % len(works))


def r5_ping_atomics(ctx, rid='C06.R5'):
    r = ctx.rule(rid, 'GUARD', 'lock-free user-ping state: register before check, publish before wake')
    F = ctx.facts
    CAS = 'std::sync::atomic::Atomic::compare_exchange'
    STORE = 'std::sync::atomic::Atomic::store'
    for nm in (CAS, STORE):
        if not any(nm in F.cg.get(n, ()) for n in F.fns if n.startswith('proto::ping_pong::') or n.startswith('<proto::ping_pong::')):
            r.bad('anchor|' + nm, '', 'no call of %s in proto::ping_pong: the rule cannot be evaluated (fail closed)' % nm)
    REG = 'atomic_waker::AtomicWaker::register'
    WAKE = 'atomic_waker::AtomicWaker::wake'
    pp = r.fn('proto::ping_pong::UserPings::poll_pong')
    if pp:
        regs = [bi for bi, t in pp.calls_to(REG)]
        cas = [bi for bi, t in pp.calls_to(CAS)]
        r.check(bool(regs) and bool(cas) and all(pp.dominated_by_blocks(c, regs) for c in cas), 'poll_pong|register-before-cas', pp.file, 'pong_task.register dominates the compare_exchange')
    for fname in ('proto::ping_pong::UserPingsRx::receive_pong', 'proto::ping_pong::UserPings::send_ping'):
        f = r.fn(fname)
        if f:
            cas = [bi for bi, t in f.calls_to(CAS)]
            wk = [bi for bi, t in f.calls_to(WAKE)]
            r.check(bool(cas) and bool(wk) and all(f.dominated_by_blocks(w, cas) for w in wk), '%s|publish-before-wake' % fname.split('::')[-1], f.file, 'the CAS dominates the wake')
    d = r.fn('<proto::ping_pong::UserPingsRx as std::ops::Drop>::drop')
    if d:
        st = [bi for bi, t in d.calls_to(STORE)]
        wk = [bi for bi, t in d.calls_to(WAKE)]
        ok = bool(st) and bool(wk) and all(d.dominated_by_blocks(w, st) for w in wk)
        reach = d.reachable([0], cut_blocks=wk)
        ok = ok and not any(x in reach for x in d.returns())
        r.check(ok, 'drop|publish-then-wake', d.file, 'Drop for UserPingsRx stores CLOSED then wakes pong_task on every path')
        # stored value is USER_STATE_CLOSED
        for bi in st:
            v = strip(d.expr_of_op(d.term(bi)['a'][1]))
            r.check(v[0] == 'const' and v[1] == F.const_val('proto::ping_pong::USER_STATE_CLOSED'), 'drop|value', d.loc(bi), 'stored state = USER_STATE_CLOSED')
    sp = r.fn('proto::ping_pong::PingPong::send_pending_ping')
    if sp:
        regs = [bi for bi, t in sp.calls_to(REG)]
        r.check(bool(regs), 'send_pending_ping|registers', sp.file, 'the idle branch registers ping_task')
        # with user pings enabled and no library ping pending, every exit has either sent the user's ping,
        # propagated the codec's Pending, or registered ping_task — otherwise a later send_ping wakes nobody
        sws = core.all_switches(F, sp)
        bufs = [bi for bi, t in sp.calls_to('codec::Codec::buffer')]
        prs = [bi for bi, t in sp.calls_to('codec::Codec::poll_ready')]

        def on_term(us, bi, t):
            arm, done = us
            if bi in regs or bi in bufs or bi in prs:
                return (arm, True)
            return us

        def on_edge(us, bi, s):
            sw = sws.get(bi)
            if sw is not None and sw.kind == 'variant' and sw.adt == 'std::option::Option' and core.mentions_field(sw.subject, 'proto::ping_pong::PingPong', 'user_pings') and sw.labels.get(s) == frozenset(['Some']):
                return (True, us[1])
            return us
        exits, ins, parent = core.scan(sp, (False, False), None, on_term, on_edge)
        bad = [(bi, st) for (bi, us, rc, st) in exits if us[0] and not us[1]]
        r.check(not bad and any(us[0] for (bi, us, rc, st) in exits), 'send_pending_ping|every-user-path-registers', sp.loc(bad[0][0]) if bad else sp.file,
                'with user pings enabled every exit of send_pending_ping sent the ping, propagated Pending or registered ping_task' if not bad else
                'send_pending_ping can return without registering ping_task although user pings are enabled: the next UserPings::send_ping wakes nobody and the PING is not sent until something else polls the connection',
                witness=core.compress_path(sp, [x['bb'] for x in core.witness_path(sp, parent, bad[0][0], bad[0][1])]) if bad else None)


def r6_admission(ctx, rid='C06.R6'):
    r = ctx.rule(rid, 'PASS', 'admission and capacity grants notify the waiter; grants only through Stream::assign_capacity')
    F = ctx.facts
    po = r.fn(P + 'prioritize::Prioritize::pop_pending_open')
    if po:
        inc = [bi for bi, t in po.calls_to(P + 'counts::Counts::inc_num_send_streams')]
        ns = [bi for bi, t in po.calls_to(STREAM + '::notify_send')]
        ok = bool(inc) and bool(ns)
        for b in inc:
            if not _notified(po, b, ns):
                ok = False
        r.check(ok, 'pop_pending_open|notify_send', po.file, 'admitting a pending-open stream is accompanied by notify_send')
    for fname in (STREAM + '::assign_capacity', STREAM + '::send_data'):
        f = r.fn(fname)
        if f:
            nc = [bi for bi, t in f.calls_to(STREAM + '::notify_capacity')]
            r.check(bool(nc), '%s|notify_capacity' % fname.split('::')[-1], f.file, '%s calls notify_capacity' % fname.split('::')[-1])
    # FlowControl::assign_capacity on a Stream.send_flow only from Stream::assign_capacity
    for name, f in F.fns.items():
        if '::tests::' in name:
            continue
        for bi, t in f.calls_to(P + 'flow_control::FlowControl::assign_capacity'):
            e = f.expr_of_op(t['a'][0])
            if has_field(e, STREAM, 'send_flow'):
                r.check(name == STREAM + '::assign_capacity', 'who|send_flow.assign_capacity|' + name, f.loc(bi), 'send_flow.assign_capacity called in %s' % name)


def run(ctx):
    r1_wake_capability(ctx)
    r1b_path_sites(ctx)
    r2_pending_registered(ctx)
    r3_notify(ctx)
    r4_park_under_lock(ctx)
    r5_ping_atomics(ctx)
    r6_admission(ctx)


_run_rules = run


def run(ctx):
    _run_rules(ctx)
    from .. import boundaries
    boundaries.check(ctx, 'C06.RB', 'C06')
    boundaries.check_layering(ctx, 'C06.RL')
    from . import C16
    C16.r7_discard_frees(ctx, 'C06.R7')  # window behind discarded DATA returns to the connection (else every later sender stalls)
    boundaries.check_amounts(ctx, 'C06.RA', 'C06')
    boundaries.check_writes(ctx, 'C06.RW', 'C06')
    boundaries.check_guards(ctx, 'C06.RG', 'C06')
    boundaries.check_calls(ctx, 'C06.RC', 'C06')
    from .. import boundaries as _b
    _b.check_predicates(ctx, 'C06.RP', 'C06')
    from . import C05
    C05.r3_transition_discipline(ctx, 'C06.R8')
    ctx.rules[-1].text = 'a stream popped from a work queue (pending_send / capacity / open / window_updates / accept) is processed under Counts::transition or re-queued on every path: a popped and dropped stream is work that is never done (= C05.R3)'
    from .. import boundaries as _b
    _b.check_counts(ctx, 'C06.RQ', 'C06')
