"""C04 — every frame sequence an endpoint emits obeys the HTTP/2 stream life cycle."""
from .. import core, tstate
from ..core import strip, walk, has_field, mentions_field

EXHAUSTIVE = False
EXPLANATION = (
    "Decides: (R1) the send half of the stream state machine, extracted exhaustively by abstract interpretation of "
    "State::{send_open, send_close, reserve_local, set_reset, set_scheduled_reset} and the send-side predicates over all 15 "
    "state values x inputs, equals the relation generated from the RFC 9113 section 5.1 edge table composed with the HTTP "
    "one-head-per-direction rule; (R2) locally initiated stream ids come only from StreamId::next_id behind the overflow "
    "test, are allocated and queued in one critical section; (R3) every enqueue of a frame on a stream's send queue is "
    "dominated by the permitted edge of a query/transition of that stream's state, per frame kind; (R4) queued HEADERS "
    "of an unopened stream survive a reset; (R5) connection-level frame types are built on stream 0. The legality of the "
    "wire sequence under every interleaving of user calls with queue draining is NOT decided."
)
NOT_DECIDED = "legality of the sequence on the wire under every interleaving of user calls with queueing (drain order, RST after drained queue, DATA discarded for reset streams)"

P = 'proto::streams::'
SEND = P + 'send::Send::'
PRIO = P + 'prioritize::Prioritize::'
STATE = P + 'state::State::'
STREAM = P + 'stream::Stream'


def r1_tstate(ctx):
    r = ctx.rule('C04.R1', 'TSTATE', 'send half of the state machine = RFC 9113 §5.1 edges + one-head rule (exhaustive over states x inputs)')
    tstate.send_half(r, ctx.facts)


def r2_ids(ctx):
    r = ctx.rule('C04.R2', 'FLOW', 'stream identifiers: fresh, increasing, never wrapped')
    F = ctx.facts
    # writers of Send.next_stream_id
    for name, f in sorted(F.fns.items()):
        if '::tests::' in name:
            continue
        for bi, si, pl, rv, ln in f.stmts():
            if core.write_target(f, pl) == (P + 'send::Send', 'next_stream_id'):
                e = f.expr_of_rvalue(rv)
                ok = core.contains_call(e, 'frame::stream_id::StreamId::next_id') or (name == SEND + 'maybe_reset_next_stream_id')
                r.check(ok, 'next_id|writer|' + name, '%s:%d' % (f.file, ln), 'Send.next_stream_id = %s' % core.show(e)[:100])
    nid = r.fn('frame::stream_id::StreamId::next_id')
    if nid:
        # comparison with StreamId::MAX (2^31-1) and an Err(StreamIdOverflow) exit
        consts = [c[1] for bi, sw in core.all_switches(F, nid).items() for c in core.consts_in(sw.subject)]
        errs = [1 for bi, si, pl, rv, ln in nid.stmts() if rv[0] == 'aggr' and rv[2].endswith('Result::Err')]
        adds = [rv for bi, si, pl, rv, ln in nid.stmts() if rv[0] == 'bin' and rv[1].startswith('Add')]
        r.check(bool(errs) and bool(adds), 'next_id|overflow', nid.file, 'StreamId::next_id has an overflow Err exit and adds 2')
        step = [core.op_const(rv[3])[0] for rv in adds if core.op_const(rv[3])]
        r.check(step == [2], 'next_id|step', nid.file, 'identifier step = %s (parity preserved)' % step)
        # the value returned is exactly self.0 + 2, and it is the value compared with MAX
        oks = [nid.expr_of_rvalue(rv) for bi, si, pl, rv, ln in nid.stmts() if rv[0] == 'aggr' and rv[2].endswith('Result::Ok')]
        good = False
        val = None
        for e in oks:
            inner = strip(e[3][0])
            if inner[0] == 'aggr' and inner[2] == 'frame::stream_id::StreamId':
                v = core.canon(inner[3][0])
                if v[0] == 'bin' and v[1] == 'Add' and v[3][0] == 'const' and v[3][1] == 2 and v[2][0] == 'field' and core.canon(v[2][1]) == ('arg', 1):
                    good = True
                    val = v
        r.check(good and len(oks) == 1, 'next_id|value', nid.file, 'Ok(StreamId(self.0 + 2)): %s' % [core.show(e)[:60] for e in oks])
        cmpok = False
        for bi, sw in core.all_switches(F, nid).items():
            c = core.cmp_of(sw)
            if c and c[0] == 'Gt' and val is not None and core.canon(c[1]) == val and any(k[1] == 2147483647 for k in core.consts_in(c[2])):
                cmpok = True
        r.check(cmpok, 'next_id|max-test', nid.file, 'that value is compared with StreamId::MAX before it is returned')
    sr = r.fn(P + 'streams::Streams::send_request')
    if sr:
        ens = [bi for bi, t in sr.calls_to(SEND + 'ensure_next_stream_id')]
        op = [bi for bi, t in sr.calls_to(SEND + 'open')]
        sh = [bi for bi, t in sr.calls_to(SEND + 'send_headers')]
        r.check(bool(ens) and bool(op) and bool(sh) and all(sr.dominated_by_blocks(o, ens) for o in op) and all(sr.dominated_by_blocks(s, op) for s in sh),
                'send_request|order', sr.file, 'ensure_next_stream_id dominates Send::open which dominates Send::send_headers')
        from .. import locks
        L = locks.LockFacts(F)
        IN = L.held(sr)
        A = 'proto::streams::streams::Inner'
        ok = all(IN[b] is not None and A in IN[b] for b in op + sh)
        # one critical section: no release between them
        drops = [bi for bi, b in enumerate(sr.blocks) if not b['cu'] and b['t']['k'] == 'drop' and A in locks.guard_classes(b['t']['ty'])]
        for o in op:
            for s in sh:
                p = sr.reachable(sr.succ[o], cut_blocks=drops)
                if s not in p:
                    ok = False
        r.check(ok, 'send_request|one-critical-section', sr.file, 'the id is allocated and the HEADERS queued under one Mutex<Inner> critical section (queue order = id order)')
    # Stream::new for local streams takes its id from Send::open / reserve_local
    for fname in (P + 'streams::Streams::send_request', P + 'streams::StreamRef::send_push_promise'):
        f = F.fn(fname)
        if not f:
            continue
        for bi, t in f.calls_to(STREAM + '::new'):
            e = f.expr_of_op(t['a'][0])
            ok = core.contains_call(e, SEND + 'open') or core.contains_call(e, SEND + 'reserve_local')
            r.check(ok, 'stream-new|' + fname, f.loc(bi), 'Stream::new(id = %s)' % core.show(e)[:80])


# frame kind -> accepted guards: list of (callee, accepted label)
def _guards_for(kind):
    T = lambda l: l is True
    Fa = lambda l: l is False
    OK = lambda l: isinstance(l, frozenset) and ('Ok' in l) and 'Err' not in l
    if kind == 'headers':
        return [(STATE + 'send_open', OK)]
    if kind == 'trailers':
        return [(STATE + 'is_send_streaming', T)]
    if kind == 'data':
        return [(STATE + 'is_send_streaming', T)]
    if kind == 'interim':
        return [(STATE + 'is_send_awaiting_headers', T)]
    if kind == 'reset':
        return [(STATE + 'is_reset', Fa)]
    if kind == 'push_promise':
        return [(STATE + 'is_send_closed', Fa), (STATE + 'is_send_streaming', T), (STATE + 'is_send_awaiting_headers', T)]
    return []


ENQUEUE_SITES = [
    # (function, frame kind)
    (SEND + 'send_headers', 'headers'),
    (SEND + 'send_trailers', 'trailers'),
    (SEND + 'send_interim_informational_headers', 'interim'),
    (PRIO + 'send_data', 'data'),
    (SEND + 'send_reset', 'reset'),
]


def r3_enqueue_guard(ctx):
    r = ctx.rule('C04.R3', 'GUARD', 'no frame is enqueued on a stream without consulting its state (per frame kind)')
    F = ctx.facts
    QF = PRIO + 'queue_frame'
    PB = P + 'buffer::Deque::push_back'
    # discover enqueuers in Send / Prioritize reachable from handle entry points
    enq = {}
    for name, f in F.fns.items():
        if not (name.startswith(SEND) or name.startswith(PRIO)) or '::tests::' in name:
            continue
        sites = [bi for bi, t in f.calls_to(QF)]
        for bi, t in f.calls_to(PB):
            if has_field(f.expr_of_op(t['a'][0]), STREAM, 'pending_send'):
                sites.append(bi)
        if sites and name != QF:
            enq[name] = sites
    known = dict(ENQUEUE_SITES)
    known[SEND + 'send_push_promise'] = 'push_promise'
    r.floor(len(enq), 6, 'functions of Send / Prioritize that enqueue a frame on a stream')
    for name, sites in sorted(enq.items()):
        f = F.fns[name]
        kind = known.get(name)
        if kind is None:
            r.bad('unknown-enqueuer|' + name, f.file, 'a new function enqueues frames on Stream.pending_send; its state guard is not specified (fail closed)')
            continue
        if kind == 'push_promise':
            # the guard concerns the PARENT stream and lives in the caller (before the promised id is reserved)
            callers = [c for c in F.rcg.get(name, ()) if c in F.fns]
            ok = False
            for c in callers:
                cf = F.fns[c]
                for callee, acc in _guards_for(kind):
                    edges = core.guard_edges(F, cf, [callee], acc)
                    for bi, t in cf.calls_to(name):
                        if edges and cf.dominated_by_edges(bi, edges):
                            ok = True
            # or in the function itself
            for callee, acc in _guards_for(kind):
                edges = core.guard_edges(F, f, [callee], acc)
                if edges and all(f.dominated_by_edges(s, edges) for s in sites):
                    ok = True
            r.check(ok, 'enqueue|push_promise|' + name, f.file, 'PUSH_PROMISE is queued only after the parent stream\'s send half was found open' if ok else
                    'PUSH_PROMISE is queued on the parent stream without any query of the parent\'s state: it can follow END_STREAM / RST_STREAM on the wire')
            continue
        ok = False
        for callee, acc in _guards_for(kind):
            edges = core.guard_edges(F, f, [callee], acc)
            if edges and all(f.dominated_by_edges(s, edges) for s in sites):
                ok = True
        extra = ''
        if kind == 'trailers' and ok:
            sc = [bi for bi, t in f.calls_to(STATE + 'send_close')]
            ok = bool(sc) and all(f.dominated_by_blocks(s, sc) for s in sites)
            extra = ' and send_close'
        if kind == 'reset' and ok:
            sc = [bi for bi, t in f.calls_to(STREAM + '::set_reset')]
            ok = bool(sc) and all(f.dominated_by_blocks(s, sc) for s in sites)
            extra = ' and set_reset'
        r.check(ok, 'enqueue|%s|%s' % (kind, name), f.file,
                '%s frame in %s is %s' % (kind, core.short(name), ('dominated by the permitted edge of %s%s' % ('/'.join(c.split('::')[-1] for c, a in _guards_for(kind)), extra)) if ok else
                                         'NOT dominated by the permitted edge of %s: the frame can be written on a stream whose state forbids it' % '/'.join(c.split('::')[-1] for c, a in _guards_for(kind))))


def r4_headers_survive_reset(ctx):
    r = ctx.rule('C04.R4', 'GUARD', 'queued HEADERS of an unopened stream survive a reset (clear_queue behind !is_pending_open)')
    F = ctx.facts
    f = r.fn(SEND + 'send_reset')
    if not f:
        return
    cq = [bi for bi, t in f.calls_to(PRIO + 'clear_queue')]
    r.floor(len(cq), 1, 'clear_queue site in Send::send_reset')
    edges = core.edges_where(F, f, lambda sw: sw.kind == 'bool' and mentions_field(sw.subject, STREAM, 'is_pending_open'), lambda l: l is False)
    for c in cq:
        r.check(bool(edges) and f.dominated_by_edges(c, edges), 'clear_queue|guard', f.loc(c), 'clear_queue is dominated by the false edge of a read of Stream.is_pending_open (0.4.15 regression guard)')


def r4b_promotion_order(ctx):
    r = ctx.rule('C04.R4b', 'GUARD', 'a stream leaves pending_open only when its HEADERS can be handed to the codec in the same iteration')
    F = ctx.facts
    f = r.fn(PRIO + 'buffer_pending')
    if not f:
        return
    pops = [bi for bi, t in f.calls_to(PRIO + 'pop_pending_open')]
    r.floor(len(pops), 1, 'pop_pending_open site in buffer_pending')
    cap = core.guard_edges(F, f, ['codec::Codec::has_send_capacity'], lambda l: l is True)
    bufs = [bi for bi, t in f.calls_to('codec::Codec::buffer')]
    for p in pops:
        ok = bool(cap) and f.dominated_by_edges(p, cap)
        # no frame is buffered between the capacity test and the promotion
        for b in bufs:
            if p in f.reachable(f.succ[b], cut_edges=cap):
                ok = False
        r.check(ok, 'promote-behind-capacity', f.loc(p),
                'pop_pending_open (clears is_pending_open) is dominated by has_send_capacity() == true with no Codec::buffer in between: Send::send_reset keeps queued HEADERS only while is_pending_open, '
                'so a stream promoted while the codec is full could lose its HEADERS to a reset (RST_STREAM on an idle stream)')


def r5_stream_zero(ctx):
    r = ctx.rule('C04.R5', 'TABLE', 'connection-level frames are built on stream 0; DATA asserts a non-zero stream')
    F = ctx.facts
    for fname, what in (('frame::settings::Settings::encode', 'SETTINGS'), ('frame::ping::Ping::encode', 'PING'), ('frame::go_away::GoAway::encode', 'GOAWAY')):
        f = r.fn(fname)
        if not f:
            continue
        hn = f.calls_to('frame::head::Head::new')
        ok = len(hn) == 1 and strip(f.expr_of_op(hn[0][1]['a'][2]))[0] == 'call' and strip(f.expr_of_op(hn[0][1]['a'][2]))[1] == 'frame::stream_id::StreamId::zero'
        r.check(ok, 'zero|' + what, f.file, '%s head uses StreamId::zero()' % what)
    d = r.fn('frame::data::Data::new')
    if d:
        z = d.calls_to('frame::stream_id::StreamId::is_zero')
        r.check(bool(z), 'data|nonzero', d.file, 'Data::new asserts a non-zero stream id')


def state_guard(F, g, site):
    """states (of the 15 reference states) in which `site` can execute, from the State::is_* tests whose edges dominate it"""
    from .. import rfcstates as R
    conds = []
    for bi, sw in core.all_switches(F, g).items():
        if sw is None or sw.kind != 'bool':
            continue
        e = strip(sw.subject)
        if e[0] != 'call' or not e[1].startswith('proto::streams::state::State::is_'):
            continue
        name = e[1].rsplit('::', 1)[-1]
        if name not in R.PREDICATES:
            continue
        for s2, lab in sw.labels.items():
            if lab is not None and g.dominated_by_edges(site, [(bi, s2)]):
                conds.append((name, lab))
    allowed = [st for st in R.concrete_states() if all(bool(R.PREDICATES[n](st)) == v for n, v in conds)]
    return conds, allowed


def r6_window_update_states(ctx):
    r = ctx.rule('C04.R6', 'TSTATE', 'a stream WINDOW_UPDATE is built only in states in which the stream is still receiving (never after RST_STREAM / on a closed stream)')
    F = ctx.facts
    from .. import absint
    n = 0
    for name, g in sorted(F.fns.items()):
        if not name.startswith(P + 'recv::Recv::') or '::tests::' in name:
            continue
        for bi, t in g.calls_to('frame::window_update::WindowUpdate::new'):
            e = strip(g.expr_of_op(t['a'][0]))
            if e[0] == 'call' and e[1].endswith('StreamId::zero'):
                continue  # connection-level update
            n += 1
            conds, allowed = state_guard(F, g, bi)
            closed = [st for st in allowed if st[2] == 'Closed']
            r.check(bool(conds) and not closed, 'window-update|%s' % name.replace(P, ''), g.loc(bi),
                    'WINDOW_UPDATE for a stream is built under %s: %s' % (conds, 'no closed state passes' if conds and not closed else
                                                                         'closed states %s pass — a WINDOW_UPDATE can follow the RST_STREAM of a locally reset stream (RFC 9113 §5.1: nothing but PRIORITY on a closed stream)' % [absint.show(x) for x in closed]))
    r.floor(n, 1, 'stream WINDOW_UPDATE build sites')


def run(ctx):
    r6_window_update_states(ctx)
    from . import C09, C01
    C09.r8_idle_boundary(ctx, 'C04.R7')      # stream identifiers are never re-used: one idle boundary, advance to id.next_id()
    C01.r5_block_contiguity(ctx, 'C04.R8')   # HEADERS / PUSH_PROMISE and their CONTINUATIONs are contiguous
    r1_tstate(ctx)
    r2_ids(ctx)
    r3_enqueue_guard(ctx)
    r4_headers_survive_reset(ctx)
    r4b_promotion_order(ctx)
    r5_stream_zero(ctx)


_run_rules = run


def run(ctx):
    _run_rules(ctx)
    from .. import boundaries
    boundaries.check(ctx, 'C04.RB', 'C04')
    boundaries.check_amounts(ctx, 'C04.RA', 'C04')
    boundaries.check_inits(ctx, 'C04.RI', 'C04')
    boundaries.check_writes(ctx, 'C04.RW', 'C04')
    boundaries.check_guards(ctx, 'C04.RG', 'C04')
    boundaries.check_calls(ctx, 'C04.RC', 'C04')
    from .. import errdisc
    errdisc.check(ctx, 'C04.RD', 'C04', 26)
    from .. import tables
    r9 = ctx.rule('C04.R9', 'TABLE', 'stream identifier parity predicates (client = odd, server = even non-zero, zero) agree with RFC 9113 5.1.1')
    tables.stream_id_predicates(r9, ctx.facts)
    from .. import boundaries as _b
    _b.check_predicates(ctx, 'C04.RP', 'C04')
    from .. import boundaries as _b
    _b.check_counts(ctx, 'C04.RQ', 'C04')
