"""C16 — the send-capacity API tells the truth."""
from .. import core
from ..core import strip, walk, has_field, mentions_field, canon
from . import C06, C02

EXPLANATION = (
    "Decides: (R1) capacity moves between a stream and the connection by double entry — every grant "
    "(Stream::assign_capacity(n)) is paired with a claim of n from the connection flow and every take-back "
    "(send_flow.claim_capacity(n)) with assign_connection_capacity(n), directly or through an accumulator of such "
    "values; (R2) a grant is min(connection available, requested - available, window - available) and never goes to a "
    "stream that is still pending open; (R3) every way a stream stops sending returns its capacity on every path; (R4) "
    "poll_capacity never yields Ready(Some(Ok(0))) and yields None exactly when the stream can no longer send; (R5) "
    "waiting for capacity registers, every increase notifies, a reset / connection error notifies the sender, and "
    "capacity handed to another stream wakes the connection (shared with C06); (R6) Stream::capacity reports "
    "min(available, max_buffer) - buffered, saturating. That reported bytes can really be sent and the sum over streams "
    "stays within the connection window, as numbers over histories, is NOT decided."
)
NOT_DECIDED = "that reported bytes can be sent without a further grant; sum over streams <= connection window, as numbers over histories"

P = 'proto::streams::'
PRIO = P + 'prioritize::Prioritize'
SEND = P + 'send::Send'
STREAM = P + 'stream::Stream'
FC = P + 'flow_control::FlowControl::'
ACC = PRIO + '::assign_connection_capacity'


def r1_double_entry(ctx):
    r = ctx.rule('C16.R1', 'PAIR', 'capacity moves between stream and connection by double entry (grant <-> claim, take-back <-> assign_connection_capacity)')
    F = ctx.facts
    grants = 0
    takebacks = 0
    for name, f in sorted(F.fns.items()):
        if '::tests::' in name or not name.startswith(P):
            continue
        for bi, t in f.calls_to(STREAM + '::assign_capacity'):
            grants += 1
            n = canon(f.expr_of_op(t['a'][1]))
            m = [b for b, t2 in f.calls_to(FC + 'claim_capacity') if has_field(f.expr_of_op(t2['a'][0]), PRIO, 'flow') and canon(f.expr_of_op(t2['a'][1])) == n]
            r.check(len(m) == 1, 'grant|' + name, f.loc(bi), 'Stream::assign_capacity(%s) paired with Prioritize.flow.claim_capacity(same): %d' % (core.show(n)[:60], len(m)))
        for bi, t in f.calls_to(FC + 'claim_capacity'):
            if not has_field(f.expr_of_op(t['a'][0]), STREAM, 'send_flow'):
                continue
            takebacks += 1
            n = canon(f.expr_of_op(t['a'][1]))
            base = name.split('::{closure')[0]
            accs = []
            for n2, g in F.fns.items():
                if n2.split('::{closure')[0] == base:
                    accs += [(g, b, canon(g.expr_of_op(t2['a'][1]))) for b, t2 in g.calls_to(ACC)]
            direct = [x for x in accs if x[2] == n]
            ok = len(direct) >= 1
            how = 'assign_connection_capacity(same value)'
            if not ok and accs:
                # accumulator: a variable that only ever receives `acc + n`
                for g, b, v in accs:
                    if strip(v)[0] == 'var' or strip(v)[0] == 'upvar' or True:
                        adds = []
                        for n3, h in F.fns.items():
                            if n3.split('::{closure')[0] != base:
                                continue
                            for bi2, si2, pl2, rv2, ln2 in h.stmts():
                                if rv2[0] == 'bin' and rv2[1].startswith('Add'):
                                    e2 = h.expr_of_rvalue(rv2)
                                    if canon(e2[3]) == n or canon(e2[2]) == n:
                                        adds.append((h, bi2))
                        if adds:
                            ok = True
                            how = 'accumulated (+= same value) and handed to assign_connection_capacity(%s)' % core.show(v)[:40]
            r.check(ok, 'take-back|' + name, f.loc(bi), 'send_flow.claim_capacity(%s) %s' % (core.show(n)[:60], how if ok else 'is NOT followed by assign_connection_capacity with the same value: the connection window leaks'))
    r.floor(grants, 1, 'grant sites (Stream::assign_capacity)')
    r.floor(takebacks, 4, 'take-back sites (send_flow.claim_capacity)')


def r2_bounded_grant(ctx):
    r = ctx.rule('C16.R2', 'GUARD', 'a grant never exceeds the connection window, the request or the stream window; none while pending open')
    F = ctx.facts
    f = r.fn(PRIO + '::try_assign_capacity')
    if not f:
        return
    for bi, t in f.calls_to(STREAM + '::assign_capacity'):
        n = f.expr_of_op(t['a'][1])
        leaves = C02.min_leaves(n)
        conn = any(core.contains_call(l, FC + 'available') and mentions_field(l, PRIO, 'flow') for l in leaves)
        req = any(strip(l)[0] == 'bin' and strip(l)[1] == 'Sub' and mentions_field(l, STREAM, 'requested_send_capacity') for l in leaves)
        win = any(strip(l)[0] == 'bin' and strip(l)[1] == 'Sub' and core.contains_call(l, FC + 'window_size') for l in leaves)
        r.check(conn and req and win, 'grant|bounds', f.loc(bi), 'grant = min over %s' % [core.show(l)[:60] for l in leaves])
        edges = core.edges_where(F, f, lambda sw: sw.kind == 'bool' and mentions_field(sw.subject, STREAM, 'is_pending_open'), lambda l: l is False)
        r.check(bool(edges) and f.dominated_by_edges(bi, edges), 'grant|not-pending-open', f.loc(bi), 'no capacity for a stream still waiting to be opened (0.4.13)')
        pos = core.edges_where(F, f, lambda sw: sw.kind == 'cmp' and sw.subject[1] == 'Gt' and strip(sw.subject[3])[0] == 'const' and strip(sw.subject[3])[1] == 0, lambda l: l is True)
        r.check(bool(pos) and f.dominated_by_edges(bi, pos), 'grant|conn-positive', f.loc(bi), 'grant only while the connection has capacity')


STOPPERS = [
    (SEND + '::send_reset', [STREAM + '::set_reset']),
    (SEND + '::schedule_implicit_reset', [P + 'state::State::set_scheduled_reset']),
    (SEND + '::send_trailers', [P + 'state::State::send_close']),
    (PRIO + '::send_data', [P + 'state::State::send_close']),
    (SEND + '::handle_error', None),
]
RECLAIMERS = [PRIO + '::reclaim_all_capacity', PRIO + '::reclaim_reserved_capacity', PRIO + '::reserve_capacity']


def r3_reclaim_on_stop(ctx):
    r = ctx.rule('C16.R3', 'PASS', 'every way a stream stops sending returns its capacity on every path')
    F = ctx.facts
    # discover the stoppers: functions of Send / Prioritize calling a stop event
    events = {STREAM + '::set_reset', P + 'state::State::set_scheduled_reset', P + 'state::State::send_close'}
    found = set()
    for name, f in F.fns.items():
        if (name.startswith(SEND + '::') or name.startswith(PRIO + '::')) and 'closure' not in name and f.calls(lambda t: t['fn'] in events):
            found.add(name)
    known = set(s for s, e in STOPPERS)
    excluded = {PRIO + '::pop_frame': 'executes a reset scheduled earlier by schedule_implicit_reset (reserved capacity reclaimed there; the capacity backing the discarded DATA is C16.R7)',
                PRIO + '::clear_pending_send': 'connection teardown / drain-time execution of a scheduled reset'}
    for n in sorted(found - known):
        if n in excluded:
            r.exception('stopper|' + n, excluded[n])
            r.ok('excluded|' + n, F.fns[n].file, 'drain-time site: ' + excluded[n])
        else:
            r.bad('unknown-stopper|' + n, F.fns[n].file, '%s stops the send half of a stream; whether it returns the stream\'s capacity is not specified (fail closed)' % n)
    for fname, evs in STOPPERS:
        f = r.fn(fname)
        if not f:
            continue
        rec = [bi for bi, t in f.calls(lambda t: t['fn'] in RECLAIMERS)]
        starts = [bi for bi, t in f.calls(lambda t: evs is not None and t['fn'] in evs)] if evs else [0]
        ok = bool(rec) and bool(starts)
        wit = None
        exc_edges = []
        if fname == SEND + '::send_reset':
            # named exception: the `is_closed && is_empty` early return (a cleanly closed, flushed stream gave its excess back at END_STREAM)
            ce = core.guard_edges(F, f, [P + 'state::State::is_closed'], lambda l: l is True)
            ee = core.guard_edges(F, f, [P + 'buffer::Deque::is_empty'], lambda l: l is True)
            exc_edges = [e for e in ee if ce and f.dominated_by_edges(e[0], ce)]
            if exc_edges:
                r.exception('reclaim|' + fname + '|closed-and-flushed', 'the `is_closed && is_empty` early return: a cleanly closed, flushed stream gave its excess capacity back at END_STREAM')
        for s in starts:
            reach = f.reachable(f.succ[s] if evs else [0], cut_blocks=rec, cut_edges=exc_edges)
            leak = [x for x in f.returns() if x in reach]
            if leak and evs:
                # the reclaim may come first only when it is `reserve_capacity`: that one also lowers requested_send_capacity to
                # what is buffered, so the stream cannot win the freed window back whatever its state.  reclaim_reserved_capacity
                # and reclaim_all_capacity leave the request standing and redistribute at once (assign_connection_capacity ->
                # try_assign_capacity, which asks is_send_streaming): run before the stop event they hand the window straight
                # back to the stream that is about to die (seeded C16-e)
                rec_first = [bi for bi, t in f.calls(lambda t: t['fn'] == PRIO + '::reserve_capacity')]

                def on_term(us, bi, t, s=s, rec=rec_first):
                    return us | (1 if bi == s else 0) | (2 if bi in rec else 0)
                exits, ins, parent = core.scan(f, 0, None, on_term)
                if all((us & 2) for (bi, us, rc, st) in exits if us & 1):
                    leak = []
            if leak:
                ok = False
                wit = core.compress_path(f, f.path_between(s, leak[0], cut_blocks=rec, cut_edges=exc_edges) or [])
        r.check(ok, 'reclaim|' + fname, f.file, '%s: every path from the state change to a return passes %s' % (fname.split('::')[-1], '/'.join(x.split('::')[-1] for x in RECLAIMERS)), witness=wit)


def r7_discard_frees(ctx, rid='C16.R7'):
    r = ctx.rule(rid, 'PAIR', 'discarding a stream\'s buffered DATA (clear_queue) is followed by reclaim_all_capacity on every path: the window that backed the discarded bytes returns to the connection')
    F = ctx.facts
    CQ = PRIO + '::clear_queue'
    RA = PRIO + '::reclaim_all_capacity'
    n = 0
    for name in sorted(set(c for c in F.rcg.get(CQ, ()))):
        f = F.fns.get(name)
        if f is None:
            continue
        rec = [bi for bi, t in f.calls_to(RA)]
        for bi, t in f.calls_to(CQ):
            n += 1
            reach = f.reachable(f.succ[bi], cut_blocks=rec)
            leaks = [x for x in f.returns() if x in reach]
            loops = [x for x in reach if x != bi and x in f.dom.get(bi, ())]
            ok = bool(rec) and not leaks and not loops
            wit = None
            if leaks or loops:
                wit = core.compress_path(f, f.path_between(bi, (leaks or loops)[0], cut_blocks=rec) or [])
            r.check(ok, 'discard-then-reclaim|' + name.replace(P, ''), f.loc(bi),
                    '%s: clear_queue %s' % (name.split('::')[-1], 'is followed by reclaim_all_capacity on every path' if ok else
                                            'can be left without reclaim_all_capacity afterwards — clear_queue zeroes buffered_send_data / requested_send_capacity, so capacity still assigned to (or handed back to) the stream at that point is lost to the connection for good'), witness=wit)
    # and nothing is put back onto the cleared stream queue afterwards (a frame re-queued after the clear is popped again
    # by the next iteration and the reset branch never terminates)
    for name in sorted(set(c for c in F.rcg.get(CQ, ()))):
        f = F.fns.get(name)
        if f is None:
            continue
        pushes = [bi for bi, t in f.calls(lambda t: t['fn'] in (P + 'buffer::Deque::push_front', P + 'buffer::Deque::push_back')) if has_field(f.expr_of_op(f.term(bi)['a'][0]), STREAM, 'pending_send')]
        for bi, t in f.calls_to(CQ):
            heads = [x for x in f.dom.get(bi, ()) if x != bi]
            reach = f.reachable(f.succ[bi], cut_blocks=heads)
            late = [p_ for p_ in pushes if p_ in reach]
            r.check(not late, 'nothing-requeued-after-clear|' + name.replace(P, ''), f.loc(bi), '%s: no frame is pushed onto the stream queue after clear_queue within the same pass' % name.split('::')[-1])
    r.floor(n, 3, 'clear_queue call sites')


def r4_never_zero(ctx):
    r = ctx.rule('C16.R4', 'GUARD', 'poll_capacity never yields Ready(Some(Ok(0))); None exactly when the stream cannot send')
    F = ctx.facts
    f = r.fn(SEND + '::poll_capacity')
    if not f:
        return
    oks = [(bi, rv) for bi, si, pl, rv, ln in f.stmts() if rv[0] == 'aggr' and rv[2].endswith('Result::Ok')]
    r.floor(len(oks), 1, 'Ok(capacity) construction in poll_capacity')
    for bi, rv in oks:
        cap = canon(f.expr_of_op(rv[3][0]))
        # the orderings of `capacity` against 0 that hold where Ok(capacity) is built (however the test is written:
        # `== 0` early return, `!= 0`, `> 0`, `match capacity { 0 => .. }`) must exclude equality
        regs, n_edges = core.order_constraint(F, f, bi, 0, value=lambda e, cap=cap: canon(e) == cap)
        r.check(n_edges >= 1 and 'eq' not in regs, 'nonzero', f.loc(bi), 'Ok(capacity) is built only where capacity != 0 holds (0.4.15)')
    nones = [bi for bi, si, pl, rv, ln in f.stmts() if rv[0] == 'aggr' and rv[2].endswith('Option::None')]
    edges = core.guard_edges(F, f, [P + 'state::State::is_send_streaming'], lambda l: l is False)
    r.check(bool(nones) and bool(edges) and all(f.dominated_by_edges(n, edges) for n in nones), 'none-iff-not-streaming', f.file, 'Ready(None) only when !is_send_streaming')


def r6_capacity_expr(ctx):
    r = ctx.rule('C16.R6', 'TABLE', 'Stream::capacity = min(available, max_buffer_size) saturating_sub buffered')
    F = ctx.facts
    f = r.fn(STREAM + '::capacity')
    if not f:
        return
    e = f.ret_expr()
    ok = False
    detail = core.show(e) if e else None
    if e is not None:
        x = strip(e)
        if x[0] == 'call' and x[1].endswith('::saturating_sub'):
            a, b = strip(x[2][0]), strip(x[2][1])
            is_min = a[0] == 'call' and (a[1].endswith('::min') or a[1] == 'std::cmp::min')
            av = is_min and any(core.contains_call(y, FC + 'available') and mentions_field(y, STREAM, 'send_flow') for y in a[2])
            mb = is_min and any(strip(y) == ('arg', 2) for y in a[2])
            bf = mentions_field(b, STREAM, 'buffered_send_data')
            ok = is_min and av and mb and bf
    r.check(ok, 'capacity', f.file, 'Stream::capacity = %s' % detail)


def run(ctx):
    r1_double_entry(ctx)
    r2_bounded_grant(ctx)
    r3_reclaim_on_stop(ctx)
    r7_discard_frees(ctx)
    r4_never_zero(ctx)
    # R5: shared with C06 (registration, notification, wake capability)
    C06.r2_pending_registered(ctx, 'C16.R5a', only={SEND + '::poll_capacity', P + 'streams::StreamRef::poll_capacity', 'share::SendStream::poll_capacity'})
    C06.r6_admission(ctx, 'C16.R5b')
    C06.r1_wake_capability(ctx, 'C16.R5c')
    r6_capacity_expr(ctx)


_run_rules = run


def run(ctx):
    _run_rules(ctx)
    from .. import boundaries
    boundaries.check(ctx, 'C16.RB', 'C16')
    boundaries.check_layering(ctx, 'C16.RL')
    boundaries.check_inits(ctx, 'C16.RI', 'C16')
    boundaries.check_writes(ctx, 'C16.RW', 'C16')
    boundaries.check_guards(ctx, 'C16.RG', 'C16')
    boundaries.check_calls(ctx, 'C16.RC', 'C16')
    boundaries.check_amounts(ctx, 'C16.RA', 'C16')
    from .. import boundaries as _b
    _b.check_predicates(ctx, 'C16.RP', 'C16')
    from .. import boundaries as _b
    _b.check_updates(ctx, 'C16.RU', 'C16')
    from .. import boundaries as _b
    _b.check_counts(ctx, 'C16.RQ', 'C16')
