"""single-slot discipline (C08.R1 = C14.R1 = C18.R5): abstract value of an Option slot
on every path of its drain function."""
from . import core
from .core import strip, last_field


def slot_scan(F, fn, owner, field):
    """returns exits [(ret block, slot value in {'?','N','S'}, ret class, parent-state)], parent map"""
    sws = core.all_switches(F, fn)

    def is_slot_place(pl):
        fs = core.place_fields(pl)
        return bool(fs) and fs[-1] == (owner, field)

    def is_slot_expr(e):
        return last_field(strip(e)) == (owner, field) and strip(e)[0] == 'field'

    def on_stmt(us, bi, si, pl, rv):
        if is_slot_place(pl):
            e = strip(fn.expr_of_rvalue(rv))
            if e[0] == 'aggr' and e[2].endswith('Option::None'):
                return 'N'
            if e[0] == 'aggr' and e[2].endswith('Option::Some'):
                return 'S'
            return '?'
        return us

    def on_term(us, bi, t):
        if t['k'] == 'call':
            if t['fn'] == 'std::option::Option::take' and t['a'] and is_slot_expr(fn.expr_of_op(t['a'][0])):
                return 'N'
            if t['fn'] in ('std::option::Option::replace', 'std::option::Option::insert', 'std::mem::replace', 'std::option::Option::get_or_insert_with') and t['a'] and is_slot_expr(fn.expr_of_op(t['a'][0])):
                return '?'
        return us

    def on_edge(us, bi, s):
        sw = sws.get(bi)
        if sw is not None and sw.kind == 'variant' and is_slot_expr(sw.subject):
            lab = sw.labels.get(s)
            if lab == frozenset(['None']):
                if us == 'S':
                    return None
                return 'N'
            if lab == frozenset(['Some']):
                if us == 'N':
                    return None
                return 'S'
        return us

    exits, ins, parent = core.scan(fn, '?', on_stmt, on_term, on_edge)
    return exits, parent


def slot_writers(F, owner, field):
    """functions that store Some(..) into the slot"""
    out = {}
    for name, f in F.fns.items():
        for bi, si, pl, rv, ln in f.stmts():
            fs = core.place_fields(pl)
            if fs and fs[-1] == (owner, field):
                e = strip(f.expr_of_rvalue(rv))
                if not (e[0] == 'aggr' and e[2].endswith('Option::None')):
                    out.setdefault(name, []).append((bi, ln))
    return out
