"""single-slot discipline (C08.R1 = C14.R1 = C18.R5): abstract value of an Option slot
on every path of its drain function."""
from . import core
from .core import strip, last_field


def slot_scan(F, fn, owner, field):
    """returns exits [(ret block, slot value in {'?','N','S'}, ret class, parent-state)], parent map"""
    sws = core.all_switches(F, fn)

    def is_slot_place(pl):
        fs = core.place_fields(pl)
        return bool(fs) and fs[-1] == (owner, field)

    def is_slot_expr(e):
        return last_field(strip(e)) == (owner, field) and strip(e)[0] == 'field'

    def on_stmt(us, bi, si, pl, rv):
        if is_slot_place(pl):
            e = strip(fn.expr_of_rvalue(rv))
            if e[0] == 'aggr' and e[2].endswith('Option::None'):
                return 'N'
            if e[0] == 'aggr' and e[2].endswith('Option::Some'):
                return 'S'
            return '?'
        return us

    def on_term(us, bi, t):
        if t['k'] == 'call':
            if t['fn'] == 'std::option::Option::take' and t['a'] and is_slot_expr(fn.expr_of_op(t['a'][0])):
                return 'N'
            if t['fn'] in ('std::option::Option::replace', 'std::option::Option::insert', 'std::mem::replace', 'std::option::Option::get_or_insert_with') and t['a'] and is_slot_expr(fn.expr_of_op(t['a'][0])):
                return '?'
        return us

    def on_edge(us, bi, s):
        sw = sws.get(bi)
        if sw is not None and sw.kind == 'variant' and is_slot_expr(sw.subject):
            lab = sw.labels.get(s)
            if lab == frozenset(['None']):
                if us == 'S':
                    return None
                return 'N'
            if lab == frozenset(['Some']):
                if us == 'N':
                    return None
                return 'S'
        return us

    exits, ins, parent = core.scan(fn, '?', on_stmt, on_term, on_edge)
    return exits, parent


def slot_writers(F, owner, field):
    """functions that store Some(..) into the slot"""
    out = {}
    for name, f in F.fns.items():
        for bi, si, pl, rv, ln in f.stmts():
            fs = core.place_fields(pl)
            if fs and fs[-1] == (owner, field):
                e = strip(f.expr_of_rvalue(rv))
                if not (e[0] == 'aggr' and e[2].endswith('Option::None')):
                    out.setdefault(name, []).append((bi, ln))
    return out


def loss_scan(F, fn, owner, field, is_ack_call):
    """no-loss discipline of an owed-reply slot in its drain function.

    State (value, owed): value as in slot_scan; owed = the path observed the slot full (Some edge of a
    test on the slot, directly / through clone() / through take()) and has not yet passed the call
    that buffers the reply.  Returns (exits [(ret block, (value, owed), ret class, parent state)], parent)."""
    sws = core.all_switches(F, fn)

    def is_slot_place(pl):
        fs = core.place_fields(pl)
        return bool(fs) and fs[-1] == (owner, field)

    def is_slot_expr(e):
        return last_field(strip(e)) == (owner, field) and strip(e)[0] == 'field'

    def slot_test(sw):
        if sw is None or sw.kind != 'variant':
            return False
        e = sw.subject
        if is_slot_expr(e):
            return True
        e = strip(e)
        return e[0] == 'call' and e[1] in ('std::option::Option::take', '<std::option::Option as std::clone::Clone>::clone') and e[2] and is_slot_expr(e[2][0])

    def on_stmt(us, bi, si, pl, rv):
        if is_slot_place(pl):
            e = strip(fn.expr_of_rvalue(rv))
            if e[0] == 'aggr' and e[2].endswith('Option::None'):
                return ('N', us[1])
            if e[0] == 'aggr' and e[2].endswith('Option::Some'):
                return ('S', us[1])
            return ('?', us[1])
        return us

    def on_term(us, bi, t):
        if t['k'] == 'call':
            if t['fn'] == 'std::option::Option::take' and t['a'] and is_slot_expr(fn.expr_of_op(t['a'][0])):
                return ('N', us[1])
            if is_ack_call(fn, bi, t):
                return (us[0], False)
        return us

    def on_edge(us, bi, s):
        sw = sws.get(bi)
        if slot_test(sw):
            lab = sw.labels.get(s)
            if lab == frozenset(['Some']):
                return (us[0] if not is_slot_expr(sw.subject) else 'S', True)
            if lab == frozenset(['None']) and is_slot_expr(sw.subject):
                return ('N', us[1])
        return us

    exits, ins, parent = core.scan(fn, ('?', False), on_stmt, on_term, on_edge)
    return exits, parent
