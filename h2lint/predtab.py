"""Truth tables of small boolean functions, extracted from MIR.

A predicate such as `self.ref_count == 0 && !self.state.is_closed()` is lowered to a few blocks of switches and constant
stores.  `table(F, f)` names the *atoms* the function consults -- an h2 call / field read (two outcomes), an ordering or
equality comparison of two operands (three outcomes: lt / eq / gt of the canonically ordered pair), a match (one outcome
per arm group) -- and evaluates the function's CFG under every assignment of outcomes to atoms.  The result is a total
table atoms -> returned bool.  Two bodies with the same atoms and the same table compute the same predicate however they
are written (De Morgan, reordered conjuncts, if/else vs. &&, early returns); an inverted comparison, `<` for `<=`, a
dropped `!` or a dropped conjunct changes the table.

Nothing is executed: the walk follows MIR terminators under an assignment of atom outcomes; calls are atoms, never entered.
"""
import itertools

from . import core
from .core import strip

_CMP = ('Eq', 'Ne', 'Lt', 'Le', 'Gt', 'Ge')
_REG = {'Lt': {'lt'}, 'Le': {'lt', 'eq'}, 'Gt': {'gt'}, 'Ge': {'gt', 'eq'}, 'Eq': {'eq'}, 'Ne': {'lt', 'gt'}}
_FLIP = {'lt': 'gt', 'gt': 'lt', 'eq': 'eq'}


class Unsupported(Exception):
    pass


class _Need(Exception):
    def __init__(self, key, dom):
        self.key = key
        self.dom = dom


def _leaves(fn, e):
    return '+'.join(sorted(core.predicate_atoms(None, fn, True, only=e))) or '-'


class _Walk:
    def __init__(self, F, fn, assign):
        self.F = F
        self.fn = fn
        self.assign = assign  # key -> outcome
        self.env = {}

    def atom(self, key, dom):
        if key not in self.assign:
            raise _Need(key, dom)
        return self.assign[key]

    def cmp(self, op, a, b):
        ka, kb = _leaves(self.fn, a), _leaves(self.fn, b)
        flip = ka > kb
        key = 'cmp:%s || %s' % ((kb, ka) if flip else (ka, kb))
        dom = ('lt', 'eq', 'gt')
        # unsigned x against 0 cannot be below it: two outcomes (in the canonical operand order)
        if core.is_unsigned_zero(b):
            dom = ('eq', 'lt') if flip else ('eq', 'gt')
        elif core.is_unsigned_zero(a):
            dom = ('eq', 'gt') if flip else ('eq', 'lt')
        o = self.atom(key, dom)
        if flip:
            o = _FLIP[o]
        if ka == kb and op not in ('Eq', 'Ne'):
            raise Unsupported('ordering of indistinguishable operands')
        return o in _REG[op]

    def ev(self, e, depth=0):
        """python bool for a boolean expression under the assignment"""
        if depth > 12:
            raise Unsupported('deep expression')
        while e[0] in ('copy', 'move') or (e[0] == 'cast' and len(e) > 1 and isinstance(e[-1], tuple) and False):
            e = e[1]
        x = strip(e) if e[0] in ('ref', 'deref') else e
        if x[0] == 'const':
            if isinstance(x[1], bool) or (len(x) > 3 and x[3] == 'bool' and x[1] in (0, 1)):
                return bool(x[1])
            raise Unsupported('non-bool constant')
        if x[0] == 'un' and x[1] == 'Not':
            return not self.ev(x[2], depth + 1)
        if x[0] == 'bin' and x[1] in _CMP:
            return self.cmp(x[1], x[2], x[3])
        if x[0] == 'bin' and x[1] in ('BitAnd', 'BitOr', 'BitXor') and all(self._boolish(y) for y in (x[2], x[3])):
            a, b = self.ev(x[2], depth + 1), self.ev(x[3], depth + 1)
            return (a and b) if x[1] == 'BitAnd' else ((a or b) if x[1] == 'BitOr' else (a != b))
        if x[0] == 'var' and x[1] in self.env:
            v = self.env[x[1]]
            if isinstance(v, bool):
                return v
            raise Unsupported('untracked local')
        if x[0] == 'bsel':
            raise Unsupported('merged boolean temporary')
        if x[0] == 'call':
            c = core.cmp_of(core.Switch('bool', x, {}, -1))
            if c is not None:
                return self.cmp(c[0], c[1], c[2])
        key = 'is:' + _leaves(self.fn, x)
        if key == 'is:-':
            raise Unsupported('opaque boolean')
        return self.atom(key, (False, True))

    def _boolish(self, e):
        x = strip(e)
        return (x[0] == 'const' and (isinstance(x[1], bool) or (len(x) > 3 and x[3] == 'bool'))) or (x[0] == 'un' and x[1] == 'Not') or (x[0] == 'bin' and x[1] in _CMP)

    def run(self):
        fn = self.fn
        bi = 0
        steps = 0
        while True:
            steps += 1
            if steps > 120:
                raise Unsupported('loop')
            b = fn.blocks[bi]
            for s in b['s']:
                pl, rv = s[0], s[1]
                if len(pl) != 1:
                    continue
                l = pl[0]
                if fn.local_ty(l) != 'bool':
                    continue
                if fn.single_def(l) is not None and l != 0:
                    continue  # read through expr_of_local when used
                try:
                    self.env[l] = self.ev(fn.expr_of_rvalue(rv))
                except Unsupported:
                    self.env[l] = None
            t = b['t']
            k = t['k']
            if k == 'ret':
                v = self.env.get(0)
                if isinstance(v, bool):
                    return 'T' if v else 'F'
                e = fn.ret_expr()
                if e is not None:
                    return 'T' if self.ev(e) else 'F'
                raise Unsupported('return value not tracked')
            if k == 'goto':
                bi = t['t']
                continue
            if k == 'call':
                if len(t['d']) == 1 and fn.local_ty(t['d'][0]) == 'bool' and (fn.single_def(t['d'][0]) is None or t['d'][0] == 0):
                    e = ('call', t['fn'], tuple(fn.expr_of_op(a) for a in t['a']), bi)
                    try:
                        self.env[t['d'][0]] = self.ev(e)
                    except Unsupported:
                        self.env[t['d'][0]] = None
                if t.get('t') is None:
                    return 'D'  # diverges (panic)
                bi = t['t']
                continue
            if k in ('drop', 'assert', 'falseedge', 'false_unwind', 'yield'):
                nxt = t.get('t')
                if nxt is None:
                    ss = [s2 for s2 in fn.succ[bi] if not fn.is_cleanup(s2)]
                    if len(ss) != 1:
                        raise Unsupported('terminator ' + k)
                    nxt = ss[0]
                bi = nxt
                continue
            if k == 'sw':
                l = core.op_local(t['o'])
                if l is not None and t['ty'] == 'bool' and isinstance(self.env.get(l), bool):
                    v = self.env[l]
                    tg = [b2 for val, b2 in t['ts'] if (val != 0) == v]
                    bi = tg[0] if tg else t['else']
                    continue
                sw = core.resolve_switch(self.F, fn, bi)
                if sw is None:
                    raise Unsupported('switch')
                if sw.kind in ('bool', 'cmp'):
                    c = core.cmp_of(sw)
                    v = self.cmp(c[0], c[1], c[2]) if c is not None else self.ev(sw.subject)
                    tg = [s2 for s2, lab in sw.labels.items() if lab is v]
                    if len(tg) != 1:
                        raise Unsupported('ambiguous boolean switch')
                    bi = tg[0]
                    continue
                if sw.kind in ('variant', 'int'):
                    groups = sorted(set('/'.join(sorted(map(str, lab))) if isinstance(lab, frozenset) else str(lab) for lab in sw.labels.values()))
                    if len(groups) != len(sw.labels):
                        raise Unsupported('arms share a label')
                    key = 'match:' + _leaves(fn, sw.subject)
                    o = self.atom(key, tuple(groups))
                    tg = [s2 for s2, lab in sw.labels.items() if ('/'.join(sorted(map(str, lab))) if isinstance(lab, frozenset) else str(lab)) == o]
                    if len(tg) != 1:
                        raise Unsupported('arm not found')
                    bi = tg[0]
                    continue
                raise Unsupported('switch kind')
            if k == 'unreachable':
                return 'U'
            ss = [s2 for s2 in fn.succ[bi] if not fn.is_cleanup(s2)]
            if len(ss) == 1:
                bi = ss[0]
                continue
            if not ss:
                return 'D'
            raise Unsupported('terminator ' + k)


def table(F, fn, max_atoms=6, max_rows=729):
    """(atoms, rows): atoms = sorted [(key, domain)], rows = string with one of T/F/D/U per assignment in product order.
    Raises Unsupported when the body is not a finite decision over nameable atoms."""
    atoms = {}
    while True:
        keys = sorted(atoms)
        n = 1
        for k in keys:
            n *= len(atoms[k])
        if len(keys) > max_atoms or n > max_rows:
            raise Unsupported('too many atoms')
        rows = []
        try:
            for combo in itertools.product(*[atoms[k] for k in keys]):
                rows.append(_Walk(F, fn, dict(zip(keys, combo))).run())
        except _Need as need:
            if need.key in atoms and atoms[need.key] != need.dom:
                raise Unsupported('one key, two domains')
            atoms[need.key] = tuple(need.dom)
            continue
        return [(k, list(atoms[k])) for k in keys], ''.join(rows)


def project(atoms_new, rows_new, atoms_old):
    """extend a table over `atoms_new` (a subset of atoms_old, same domains) to atoms_old: the missing atoms are don't-cares"""
    new = dict((k, tuple(d)) for k, d in atoms_new)
    old = [(k, tuple(d)) for k, d in atoms_old]
    if any(k in new and new[k] != d for k, d in old) or not set(new) <= set(k for k, d in old):
        return None
    nkeys = [k for k, d in atoms_new]
    idx = {}
    for i, combo in enumerate(itertools.product(*[tuple(d) for k, d in atoms_new])):
        idx[combo] = rows_new[i]
    out = []
    for combo in itertools.product(*[d for k, d in old]):
        a = dict(zip([k for k, d in old], combo))
        out.append(idx[tuple(a[k] for k in nkeys)])
    return ''.join(out)
